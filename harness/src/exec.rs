//! Interpreter: runs one step of the operation language against the real library in the
//! requested flavour and returns a normalised `Out`. Every call is wrapped in a panic catcher.

use crate::blob::{self, Algo, Blob};
use crate::ops::*;
use crate::reffmt;
use crate::rt::{self, AsyncReadExt, AsyncWriteExt};
use sha2::Digest as _;
use std::cell::{Cell, RefCell};
use std::collections::HashMap;
use std::io::{Read, Write};
use std::path::{Path, PathBuf};
use std::sync::atomic::{AtomicU64, Ordering};
use std::sync::{Arc, Mutex};

pub static FOREIGN_PANICS: Mutex<Vec<String>> = Mutex::new(Vec::new());
pub static PANIC_COUNT: AtomicU64 = AtomicU64::new(0);

thread_local! {
    static MY_PANICS: RefCell<Vec<String>> = const { RefCell::new(Vec::new()) };
    static IS_WORKER: Cell<bool> = const { Cell::new(false) };
}

thread_local! {
    /// wall-clock ms taken right before `commit()` of a streamed write (the default
    /// timestamp must be the time of the commit, not of the open)
    static COMMIT_T0: Cell<Option<u128>> = const { Cell::new(None) };
}

/// Set by single-threaded driver processes: steps may change the working directory there.
pub static ALLOW_CHDIR: std::sync::atomic::AtomicBool = std::sync::atomic::AtomicBool::new(false);
/// Set by the driver binary: this process runs steps on somebody's behalf and ends afterwards.
pub static IN_DRIVER: std::sync::atomic::AtomicBool = std::sync::atomic::AtomicBool::new(false);

fn before_commit(ctx: &Ctx, s: &WriteSpec) -> Option<Out> {
    let mut interference = None;
    if let Some(d) = s.chdir_mid {
        if ALLOW_CHDIR.load(Ordering::SeqCst) {
            let dir = ctx.scratch.join("cwd").join(format!("d{d}"));
            let _ = std::fs::create_dir_all(&dir);
            let _ = std::env::set_current_dir(&dir);
        }
    }
    if s.pause_ms > 0 {
        std::thread::sleep(std::time::Duration::from_millis(s.pause_ms as u64));
    }
    match s.interfere {
        Interfere::None => {}
        Interfere::Clear => {
            let _ = cacache::clear_sync(&ctx.cache);
        }
        Interfere::RemoveTmp => {
            let _ = std::fs::remove_dir_all(ctx.cache.join("tmp"));
        }
        Interfere::RemoveContentArea => {
            let _ = std::fs::remove_dir_all(ctx.cache.join("content-v2"));
        }
        Interfere::RemoveKeyFully | Interfere::RemoveKey => {
            if let Some(k) = s.key {
                let r = if s.interfere == Interfere::RemoveKeyFully { cacache::RemoveOpts::new().remove_fully(true).remove_sync(&ctx.cache, ctx.key(k)) } else { cacache::remove_sync(&ctx.cache, ctx.key(k)) };
                interference = Some(unit(r));
            }
        }
    }
    for i in 0..s.churn {
        // other writers come and go while this one stays open
        if let Ok(mut w) = cacache::WriteOpts::new().open_hash_sync(&ctx.cache) {
            if i % 4096 == 0 {
                let _ = w.write_all(&[(i / 4096) as u8]);
            }
            drop(w);
        }
    }
    if s.aged_hours != 0 {
        let d = std::time::Duration::from_secs(s.aged_hours.unsigned_abs() as u64 * 3600);
        let to = if s.aged_hours > 0 { std::time::SystemTime::now() - d } else { std::time::SystemTime::now() + d };
        if let Ok(rd) = std::fs::read_dir(ctx.cache.join("tmp")) {
            for e in rd.flatten() {
                if let Ok(f) = std::fs::OpenOptions::new().write(true).open(e.path()) {
                    let _ = f.set_modified(to);
                }
            }
        }
        // another writer comes and goes on the same cache while this one is still open
        let other = other_blob(ctx, s.blob);
        // (it commits only what it managed to write: under fault injection its own calls may fail)
        if let Ok(mut w) = cacache::WriteOpts::new().open_hash_sync(&ctx.cache) {
            if w.write_all(&other).is_ok() {
                let _ = w.commit();
            }
        }
    }
    COMMIT_T0.with(|c| c.set(Some(now_ms())));
    interference
}

thread_local! {
    /// Some(step index) when the driver wants operation-window markers for the supervisor.
    static WIN_STEP: Cell<Option<usize>> = const { Cell::new(None) };
    static WIN_OPEN: Cell<bool> = const { Cell::new(false) };
}

fn marker(s: &str) {
    // a write to a descriptor that is never open: fails with EBADF, visible to ptrace
    unsafe {
        libc::write(1023, s.as_ptr() as *const libc::c_void, s.len());
    }
}

/// Enables (Some(i)) or disables (None) window markers for the next step on this thread.
pub fn set_window_markers(step: Option<usize>) {
    WIN_STEP.with(|w| w.set(step));
}

/// Opens the operation window: from here on the supervisor gates system calls.
fn win_begin() {
    if let Some(i) = WIN_STEP.with(|w| w.get()) {
        if !WIN_OPEN.with(|o| o.replace(true)) {
            marker(&format!("CVH:BEGIN:{i}"));
        }
    }
}

fn win_end() {
    if let Some(i) = WIN_STEP.with(|w| w.get()) {
        if WIN_OPEN.with(|o| o.replace(false)) {
            marker(&format!("CVH:END:{i}"));
        }
    }
}

pub fn mark_worker_thread() {
    IS_WORKER.with(|w| w.set(true));
}

/// Installs the process-wide panic hook: panics on harness worker threads are recorded
/// per thread, panics on any other thread (runtime / blocking pools) in a global list.
pub fn install_panic_hook() {
    static ONCE: std::sync::Once = std::sync::Once::new();
    ONCE.call_once(|| {
        std::panic::set_hook(Box::new(|info| {
            let msg = if let Some(s) = info.payload().downcast_ref::<&str>() {
                s.to_string()
            } else if let Some(s) = info.payload().downcast_ref::<String>() {
                s.clone()
            } else {
                "<non-string panic>".to_string()
            };
            let loc = info.location().map(|l| format!("{}:{}", l.file(), l.line())).unwrap_or_default();
            let line = format!("{msg} @ {loc}");
            PANIC_COUNT.fetch_add(1, Ordering::SeqCst);
            if IS_WORKER.with(|w| w.get()) {
                MY_PANICS.with(|p| p.borrow_mut().push(line));
            } else {
                FOREIGN_PANICS.lock().unwrap_or_else(|e| e.into_inner()).push(line);
            }
        }));
    });
}

pub fn now_ms() -> u128 {
    std::time::SystemTime::now().duration_since(std::time::UNIX_EPOCH).unwrap().as_millis()
}

pub fn sha256_hex(b: &[u8]) -> String {
    blob::hexs(&sha2::Sha256::digest(b))
}

pub struct Ctx<'a> {
    pub cache: PathBuf,
    /// harness-private directory (extraction destinations, link targets, symlink fodder)
    pub scratch: PathBuf,
    pub keys: &'a [String],
    pub blobs: &'a [Blob],
    bytes: RefCell<HashMap<usize, Arc<Vec<u8>>>>,
    pub dest_n: Cell<usize>,
    /// (device, inode) of the directory `cache` named when the context was made
    pub cache_id: Cell<Option<(u64, u64)>>,
}

pub const PREEXISTING: &[u8] = b"PRE-EXISTING DESTINATION CONTENT\n";
pub const SUPERSET_TAIL: &[u8] = b"...AND MORE BYTES OF AN OLDER, LONGER VERSION\n";
pub const SIBLING: &[u8] = b"somebody else's file next to the destination\n";

/// Names an implementation might be tempted to use for staging next to a destination.
pub fn siblings(dest: &Path) -> Vec<PathBuf> {
    let name = dest.file_name().map(|n| n.to_string_lossy().to_string()).unwrap_or_default();
    let dir = dest.parent().unwrap_or(Path::new("/"));
    vec![dir.join(format!("{name}.tmp")), dir.join(format!("{name}.partial")), dir.join(format!("{name}~")), dir.join(format!(".{name}.swp")), dir.join(format!("{name}.bak"))]
}

impl<'a> Ctx<'a> {
    pub fn new(cache: PathBuf, scratch: PathBuf, keys: &'a [String], blobs: &'a [Blob]) -> Ctx<'a> {
        use std::os::unix::fs::MetadataExt;
        // (only when the path leads through a symbolic link: replacing that link is a change
        // outside the cache directory; how a call empties a plainly named directory is its business)
        let through_link = std::fs::canonicalize(&cache).map(|c| c != crate::sup::normalise(&cache)).unwrap_or(false);
        let cache_id = std::fs::metadata(&cache).ok().filter(|m| m.is_dir() && through_link).map(|m| (m.dev(), m.ino()));
        Ctx { cache, scratch, keys, blobs, bytes: RefCell::new(HashMap::new()), dest_n: Cell::new(0), cache_id: Cell::new(cache_id) }
    }
    /// The path given as the cache still names the directory it named at the start (a call
    /// may empty that directory, it may not replace it — or the link leading to it — by another).
    /// The harness itself re-pointed the link the cache path leads through.
    pub fn refresh_cache_id(&self) {
        use std::os::unix::fs::MetadataExt;
        self.cache_id.set(std::fs::metadata(&self.cache).ok().filter(|m| m.is_dir()).map(|m| (m.dev(), m.ino())));
    }
    pub fn cache_is_same_dir(&self) -> Result<(), String> {
        use std::os::unix::fs::MetadataExt;
        if let Some(id) = self.cache_id.get() {
            match std::fs::metadata(&self.cache) {
                Ok(m) if (m.dev(), m.ino()) == id => {}
                Ok(m) => return Err(format!("the cache path {} (which leads through a symbolic link) no longer names the directory it named before (inode {} -> {}): something outside the cache directory was replaced", self.cache.display(), id.1, m.ino())),
                Err(_) => {}
            }
        }
        Ok(())
    }
    pub fn blob(&self, i: usize) -> Arc<Vec<u8>> {
        self.bytes.borrow_mut().entry(i).or_insert_with(|| Arc::new(self.blobs[i].bytes())).clone()
    }
    pub fn key(&self, i: usize) -> &str {
        &self.keys[i]
    }
    pub fn sri_of(&self, a: AddrRef) -> String {
        blob::sri(a.algo, &self.blob(a.blob))
    }
    pub fn integrity_of(&self, a: AddrRef) -> cacache::Integrity {
        self.sri_of(a).parse().unwrap()
    }
    pub fn content_path(&self, a: AddrRef) -> PathBuf {
        let hex = blob::hexs(&blob::digest_raw(a.algo, &self.blob(a.blob)));
        reffmt::content_path(&self.cache, a.algo, &hex)
    }
    pub fn target_path(&self, idx: usize) -> PathBuf {
        self.scratch.join(format!("target_{idx}"))
    }
}

pub fn norm_err(e: &cacache::Error) -> (ErrKind, String) {
    let msg = format!("{e}");
    let k = match e {
        cacache::Error::EntryNotFound(..) => ErrKind::EntryNotFound,
        cacache::Error::SizeMismatch(a, b) => ErrKind::SizeMismatch(*a as u64, *b as u64),
        cacache::Error::IoError(io, _) => ErrKind::Io { not_found: io.kind() == std::io::ErrorKind::NotFound },
        cacache::Error::SerdeError(..) => ErrKind::Serde,
        cacache::Error::IntegrityError(..) => ErrKind::Integrity,
    };
    (k, msg)
}

fn err_out(e: cacache::Error) -> Out {
    let (k, m) = norm_err(&e);
    Out::Err(k, m)
}

fn io_out(e: std::io::Error) -> Out {
    Out::Err(ErrKind::Io { not_found: e.kind() == std::io::ErrorKind::NotFound }, format!("io: {e}"))
}

pub fn norm_meta(m: &cacache::Metadata) -> MetaNorm {
    MetaNorm {
        key: m.key.clone(),
        integrity: m.integrity.to_string(),
        time: m.time.to_string(),
        size: m.size as u64,
        metadata: m.metadata.clone(),
        raw_metadata: m.raw_metadata.clone(),
    }
}

pub fn bytes_out(b: &[u8]) -> Out {
    Out::Bytes(b.len() as u64, sha256_hex(b))
}

/// Declared size for a spec (`None` = not declared).
pub fn declared_size(d: Declare, len: usize) -> Option<usize> {
    match d {
        Declare::None => None,
        Declare::Exact => Some(len),
        Declare::Off(x) => Some((len as i64 + x).max(0) as usize),
    }
}

pub fn weaker_algo(a: Algo) -> Option<Algo> {
    match a {
        Algo::Sha512 => Some(Algo::Sha256),
        Algo::Sha384 => Some(Algo::Sha1),
        Algo::Sha256 => Some(Algo::Sha1),
        Algo::Sha1 => Some(Algo::Xxh3),
        Algo::Xxh3 => None,
    }
}

fn other_algo(a: Algo) -> Algo {
    match a {
        Algo::Sha256 => Algo::Sha512,
        Algo::Sha512 => Algo::Sha1,
        Algo::Sha1 => Algo::Sha384,
        Algo::Sha384 => Algo::Xxh3,
        Algo::Xxh3 => Algo::Sha256,
    }
}

/// Declared integrity text for a spec (always well-formed: real digests, possibly of other
/// data or with one flipped bit).
pub fn declared_integrity(d: IntegDecl, algo: Algo, data: &[u8]) -> Option<String> {
    declared_integrity_ex(d, algo, data, &[])
}

/// `other` = the bytes of another value of the pool (for `DigestOfOtherBlob`).
pub fn declared_integrity_ex(d: IntegDecl, algo: Algo, data: &[u8], other: &[u8]) -> Option<String> {
    let wrong = |salt: u8| {
        let mut raw = blob::digest_raw(algo, data);
        raw[salt as usize % 4] ^= 1 << (salt % 8);
        blob::sri_from_raw(algo, &raw)
    };
    match d {
        IntegDecl::None => None,
        IntegDecl::Correct => Some(blob::sri(algo, data)),
        IntegDecl::WrongDigest => Some(wrong(3)),
        IntegDecl::OtherAlgoCorrect => Some(blob::sri(other_algo(algo), data)),
        IntegDecl::MultiWithCorrect => {
            // order depends on the data so that both "correct first" and "wrong first" occur
            if data.len() % 2 == 0 {
                Some(format!("{} {}", blob::sri(algo, data), wrong(1)))
            } else {
                Some(format!("{} {}", wrong(1), blob::sri(algo, data)))
            }
        }
        IntegDecl::MultiAllWrong => Some(format!("{} {}", wrong(1), wrong(2))),
        IntegDecl::DigestOfOtherBlob => Some(blob::sri(algo, other)),
        IntegDecl::NoHashes => Some(String::new()),
        IntegDecl::MultiThree => {
            let mut v: Vec<Algo> = vec![Algo::Sha1, Algo::Sha256, Algo::Sha512];
            if !v.contains(&algo) {
                v.insert(0, algo);
            }
            Some(v.iter().map(|a| blob::sri(*a, data)).collect::<Vec<_>>().join(" "))
        }
        IntegDecl::MultiRightInTheMiddle => Some(format!("{} {} {}", wrong(1), blob::sri(algo, data), wrong(2))),
        IntegDecl::MultiStrongerOfOther => {
            let stronger = match algo {
                Algo::Sha512 => None,
                Algo::Sha384 => Some(Algo::Sha512),
                Algo::Sha256 => Some(Algo::Sha512),
                Algo::Sha1 => Some(Algo::Sha256),
                Algo::Xxh3 => Some(Algo::Sha1),
            };
            match stronger {
                Some(w) => Some(format!("{} {}", blob::sri(algo, data), blob::sri(w, other))),
                None => Some(blob::sri(algo, data)),
            }
        }
        IntegDecl::MultiWeakerOfOther => {
            let weaker = weaker_algo(algo);
            match weaker {
                Some(w) => Some(format!("{} {}", blob::sri(w, other), blob::sri(algo, data))),
                None => Some(blob::sri(algo, data)),
            }
        }
        IntegDecl::MultiWeakerOfSame => match weaker_algo(algo) {
            Some(w) => Some(format!("{} {}", blob::sri(w, data), blob::sri(algo, data))),
            None => Some(blob::sri(algo, data)),
        },
        IntegDecl::WrongTail => {
            let mut raw = blob::digest_raw(algo, data);
            let n = raw.len();
            raw[n - 1] ^= 0x10;
            Some(blob::sri_from_raw(algo, &raw))
        }
        IntegDecl::CaseToggled => {
            let good = blob::sri(algo, data);
            let (head, b64) = good.split_once('-').unwrap();
            let mut chars: Vec<char> = b64.chars().collect();
            // not the last group: its low bits must stay canonical
            let lim = chars.len().saturating_sub(4);
            match chars[..lim].iter().position(|c| c.is_ascii_alphabetic()) {
                Some(i) => {
                    chars[i] = if chars[i].is_ascii_uppercase() { chars[i].to_ascii_lowercase() } else { chars[i].to_ascii_uppercase() };
                    Some(format!("{head}-{}", chars.into_iter().collect::<String>()))
                }
                None => Some(wrong(5)),
            }
        }
        IntegDecl::MultiTwoAlgos => {
            if data.len() % 2 == 0 {
                Some(format!("{} {}", blob::sri(algo, data), blob::sri(other_algo(algo), data)))
            } else {
                Some(format!("{} {}", blob::sri(other_algo(algo), data), blob::sri(algo, data)))
            }
        }
    }
}

/// The bytes of "another value of the pool" relative to blob `b` (the next one, cyclically).
pub fn other_blob(ctx: &Ctx, b: usize) -> Arc<Vec<u8>> {
    ctx.blob((b + 1) % ctx.blobs.len().max(1))
}

/// Cuts `data` according to the chunk list (see `WriteSpec::chunks`).
pub fn cut_chunks<'d>(data: &'d [u8], chunks: &[usize]) -> Vec<&'d [u8]> {
    if chunks.is_empty() {
        return vec![data];
    }
    let mut out = Vec::new();
    let mut off = 0;
    for &c in chunks {
        let end = (off + c).min(data.len());
        out.push(&data[off..end]);
        off = end;
    }
    if off < data.len() {
        out.push(&data[off..]);
    }
    out
}

/// The address of `addr` plus the hash of blob `also` under a weaker algorithm.
pub fn two_hash(ctx: &Ctx, addr: AddrRef, also: usize) -> cacache::Integrity {
    match weaker_algo(addr.algo) {
        Some(w) => format!("{} {}", blob::sri(w, &ctx.blob(also)), ctx.sri_of(addr)).parse().unwrap(),
        None => ctx.integrity_of(addr),
    }
}

/// `RemoveOpts` with the flag set once or — for odd key indices — twice (the last call wins).
fn remove_opts(key: usize, fully: bool) -> cacache::RemoveOpts {
    let o = cacache::RemoveOpts::new();
    if key % 2 == 1 {
        o.remove_fully(!fully).remove_fully(fully)
    } else {
        o.remove_fully(fully)
    }
}

fn build_opts(ctx: &Ctx, s: &WriteSpec, data: &[u8]) -> cacache::WriteOpts {
    // SHA-256 is the documented default: every other SHA-256 spec leaves the algorithm unset
    let mut o = cacache::WriteOpts::new();
    if s.decoy_opts {
        // every option once with a value that must not survive the second call
        // (only options the spec sets: a builder option cannot be unset)
        o = o.algorithm(other_algo(s.algo).to_lib());
        if s.declare != Declare::None {
            o = o.size(data.len() + 77);
        }
        if s.time.is_some() {
            o = o.time(12345);
        }
        if s.metadata.is_some() {
            o = o.metadata(serde_json::json!({"decoy": true}));
        }
        if s.raw_metadata.is_some() {
            o = o.raw_metadata(vec![0xde, 0xc0]);
        }
        if s.integ != IntegDecl::None {
            // a declaration that does not hold when the real one does, and the other way round
            // (the last call alone decides whether the commit is accepted)
            let real_holds = matches!(s.integ, IntegDecl::Correct | IntegDecl::MultiWithCorrect | IntegDecl::MultiTwoAlgos | IntegDecl::MultiWeakerOfOther | IntegDecl::MultiWeakerOfSame);
            let decoy = if real_holds { blob::sri(s.algo, b"decoy") } else { blob::sri(s.algo, data) };
            o = o.integrity(decoy.parse().unwrap());
        }
    }
    if s.decoy_opts || !(s.algo == Algo::Sha256 && (data.len() + s.chunks.len()) % 2 == 0) {
        o = o.algorithm(s.algo.to_lib());
    }
    if let Some(n) = declared_size(s.declare, data.len()) {
        o = o.size(n);
    }
    if let Some(i) = declared_integrity_ex(s.integ, s.algo, data, &other_blob(ctx, s.blob)) {
        o = o.integrity(i.parse().unwrap());
    }
    if let Some(t) = s.time_u128() {
        o = o.time(t);
    }
    if let Some(m) = &s.metadata {
        o = o.metadata(m.clone());
    }
    if let Some(r) = &s.raw_metadata {
        o = o.raw_metadata(r.clone());
    }
    let _ = ctx;
    o
}

/// The chunk as up to `n` slices (the last slice takes the remainder).
fn slices(chunk: &[u8], n: usize) -> Vec<&[u8]> {
    // more than a thousand slices only for chunks up to 8 KiB (a default `write_vectored`
    // takes one slice per call: a million tiny writes would only burn time)
    let n = if n >= 1000 && chunk.len() > 8192 { 3 } else { n };
    let n = n.max(1).min(chunk.len().max(1));
    let step = (chunk.len() / n).max(1);
    let mut v = Vec::with_capacity(n);
    let mut off = 0;
    for i in 0..n {
        let end = if i + 1 == n { chunk.len() } else { (off + step).min(chunk.len()) };
        v.push(&chunk[off..end]);
        off = end;
    }
    v
}

/// Hands the chunk over through `write_vectored`, offering what was not accepted again
/// (the documented contract of a short vectored write).
fn sync_write_chunk_vectored<W: Write>(w: &mut W, chunk: &[u8], n: usize) -> std::io::Result<()> {
    let mut rest = chunk;
    loop {
        let sl = slices(rest, n);
        let ios: Vec<std::io::IoSlice> = sl.iter().map(|s| std::io::IoSlice::new(s)).collect();
        let k = w.write_vectored(&ios)?;
        if rest.is_empty() {
            return Ok(());
        }
        if k == 0 {
            return Err(std::io::Error::new(std::io::ErrorKind::WriteZero, "write_vectored returned 0"));
        }
        rest = &rest[k.min(rest.len())..];
        if rest.is_empty() {
            return Ok(());
        }
    }
}

async fn async_write_chunk_vectored<W: AsyncWriteExt + Unpin>(w: &mut W, chunk: &[u8], n: usize) -> std::io::Result<()> {
    let mut rest = chunk;
    loop {
        let sl = slices(rest, n);
        let ios: Vec<std::io::IoSlice> = sl.iter().map(|s| std::io::IoSlice::new(s)).collect();
        let k = w.write_vectored(&ios).await?;
        if rest.is_empty() {
            return Ok(());
        }
        if k == 0 {
            return Err(std::io::Error::new(std::io::ErrorKind::WriteZero, "write_vectored returned 0"));
        }
        rest = &rest[k.min(rest.len())..];
        if rest.is_empty() {
            return Ok(());
        }
    }
}

/// `write_all` that also issues empty `write` calls for empty chunks.
fn sync_write_chunk<W: Write>(w: &mut W, chunk: &[u8]) -> std::io::Result<()> {
    if chunk.is_empty() {
        w.write(chunk)?;
        return Ok(());
    }
    let mut off = 0;
    while off < chunk.len() {
        let n = w.write(&chunk[off..])?;
        if n == 0 {
            return Err(std::io::Error::new(std::io::ErrorKind::WriteZero, "write returned 0"));
        }
        off += n;
    }
    Ok(())
}

async fn async_write_chunk<W: AsyncWriteExt + Unpin>(w: &mut W, chunk: &[u8]) -> std::io::Result<()> {
    if chunk.is_empty() {
        w.write(chunk).await?;
        return Ok(());
    }
    let mut off = 0;
    while off < chunk.len() {
        let n = w.write(&chunk[off..]).await?;
        if n == 0 {
            return Err(std::io::Error::new(std::io::ErrorKind::WriteZero, "write returned 0"));
        }
        off += n;
    }
    Ok(())
}

fn open_sync_writer(ctx: &Ctx, s: &WriteSpec, data: &[u8]) -> cacache::Result<cacache::SyncWriter> {
    let cache = &ctx.cache;
    match (s.entry, s.key) {
        (WEntry::Create, Some(k)) => cacache::SyncWriter::create(cache, ctx.key(k)),
        (WEntry::CreateAlgo, Some(k)) => cacache::SyncWriter::create_with_algo(s.algo.to_lib(), cache, ctx.key(k)),
        (_, Some(k)) => build_opts(ctx, s, data).open_sync(cache, ctx.key(k)),
        (_, None) => build_opts(ctx, s, data).open_hash_sync(cache),
    }
}

async fn open_async_writer(ctx: &Ctx<'_>, s: &WriteSpec, data: &[u8]) -> cacache::Result<cacache::Writer> {
    let cache = &ctx.cache;
    match (s.entry, s.key) {
        (WEntry::Create, Some(k)) => cacache::Writer::create(cache, ctx.key(k)).await,
        (WEntry::CreateAlgo, Some(k)) => cacache::Writer::create_with_algo(s.algo.to_lib(), cache, ctx.key(k)).await,
        (_, Some(k)) => build_opts(ctx, s, data).open(cache, ctx.key(k)).await,
        (_, None) => build_opts(ctx, s, data).open_hash(cache).await,
    }
}

fn do_write_sync(ctx: &Ctx, s: &WriteSpec) -> Out {
    let data = ctx.blob(s.blob);
    let cache = &ctx.cache;
    let r = match (s.entry, s.key) {
        (WEntry::OneShot, Some(k)) => cacache::write_sync(cache, ctx.key(k), &data[..]),
        (WEntry::OneShot, None) => cacache::write_hash_sync(cache, &data[..]),
        (WEntry::OneShotAlgo, Some(k)) => cacache::write_sync_with_algo(s.algo.to_lib(), cache, ctx.key(k), &data[..]),
        (WEntry::OneShotAlgo, None) => cacache::write_hash_sync_with_algo(s.algo.to_lib(), cache, &data[..]),
        _ => {
            // other writers already open in this process
            let other = other_blob(ctx, s.blob);
            let mut crowd: Vec<cacache::SyncWriter> = Vec::new();
            for _ in 0..s.crowd {
                match cacache::WriteOpts::new().size(other.len()).open_hash_sync(cache) {
                    Ok(w) => crowd.push(w),
                    Err(e) => return err_out(e),
                }
            }
            let mut w = match open_sync_writer(ctx, s, &data) {
                Ok(w) => w,
                Err(e) => return err_out(e),
            };
            let finish_crowd = move |crowd: Vec<cacache::SyncWriter>| {
                for mut c in crowd {
                    if c.write_all(&other).is_ok() {
                        let _ = c.commit();
                    }
                }
            };
            let finish_crowd = std::cell::Cell::new(Some((finish_crowd, crowd)));
            struct Fin<'a, F: FnOnce(Vec<cacache::SyncWriter>)>(&'a std::cell::Cell<Option<(F, Vec<cacache::SyncWriter>)>>);
            impl<F: FnOnce(Vec<cacache::SyncWriter>)> Drop for Fin<'_, F> {
                fn drop(&mut self) {
                    if let Some((f, c)) = self.0.take() {
                        f(c)
                    }
                }
            }
            let _fin = Fin(&finish_crowd);
            for (ci, ch) in cut_chunks(&data, &s.chunks).into_iter().enumerate() {
                let r = if s.vectored > 0 { sync_write_chunk_vectored(&mut w, ch, s.vectored as usize) } else { sync_write_chunk(&mut w, ch) };
                if let Err(e) = r {
                    return io_out(e);
                }
                // `flush` means: flush in mid-stream (after the first chunk) and at the end
                if s.flush && ci == 0 {
                    if let Err(e) = w.flush() {
                        return io_out(e);
                    }
                }
            }
            if s.flush {
                if let Err(e) = w.flush() {
                    return io_out(e);
                }
            }
            if let Some(first) = before_commit(ctx, s) {
                let second = match w.commit() {
                    Ok(sri) => Out::Int(sri.to_string()),
                    Err(e) => err_out(e),
                };
                return Out::Pair(Box::new(first), Box::new(second));
            }
            w.commit()
        }
    };
    match r {
        Ok(sri) => Out::Int(sri.to_string()),
        Err(e) => err_out(e),
    }
}

async fn do_write_async(ctx: &Ctx<'_>, s: &WriteSpec) -> Out {
    let data = ctx.blob(s.blob);
    let cache = &ctx.cache;
    let r = match (s.entry, s.key) {
        (WEntry::OneShot, Some(k)) => cacache::write(cache, ctx.key(k), &data[..]).await,
        (WEntry::OneShot, None) => cacache::write_hash(cache, &data[..]).await,
        (WEntry::OneShotAlgo, Some(k)) => cacache::write_with_algo(s.algo.to_lib(), cache, ctx.key(k), &data[..]).await,
        (WEntry::OneShotAlgo, None) => cacache::write_hash_with_algo(s.algo.to_lib(), cache, &data[..]).await,
        _ => {
            let other = other_blob(ctx, s.blob);
            let mut crowd: Vec<cacache::Writer> = Vec::new();
            for _ in 0..s.crowd {
                match cacache::WriteOpts::new().size(other.len()).open_hash(cache).await {
                    Ok(w) => crowd.push(w),
                    Err(e) => return err_out(e),
                }
            }
            let r = do_write_async_inner(ctx, s, &data).await;
            for mut c in crowd {
                if c.write_all(&other).await.is_ok() {
                    let _ = c.commit().await;
                }
            }
            return r;
        }
    };
    match r {
        Ok(sri) => Out::Int(sri.to_string()),
        Err(e) => err_out(e),
    }
}

/// The streamed async write proper (open, chunks, commit).
async fn do_write_async_inner(ctx: &Ctx<'_>, s: &WriteSpec, data: &[u8]) -> Out {
    let r = {
        {
            let mut w = match open_async_writer(ctx, s, data).await {
                Ok(w) => w,
                Err(e) => return err_out(e),
            };
            for (ci, ch) in cut_chunks(data, &s.chunks).into_iter().enumerate() {
                let mut ch = ch;
                // (only with plain writes: what is offered after a cancelled write must be the same
                // buffer - a different one makes the library write it on top of the cancelled data,
                // and whether the cancelled bytes count as written is then anybody's guess)
                if s.vectored == 0 && s.cancel_chunk.map(|c| (c & 3) as usize == ci).unwrap_or(false) && !ch.is_empty() {
                    use std::future::Future;
                    let waker = futures::task::noop_waker();
                    let mut cx = std::task::Context::from_waker(&waker);
                    // (values 4.. : what is cancelled is the write of the first half of the chunk;
                    // the whole chunk is offered afterwards, as a caller does who re-slices its
                    // data from the last acknowledged position)
                    let first = if s.cancel_chunk.unwrap_or(0) >= 4 { &ch[..(ch.len() + 1) / 2] } else { ch };
                    let mut fut = Box::pin(w.write(first));
                    let polled = fut.as_mut().poll(&mut cx);
                    drop(fut);
                    match polled {
                        // it completed at once: k bytes are accepted, go on after them
                        std::task::Poll::Ready(Ok(k)) => ch = &ch[k.min(ch.len())..],
                        std::task::Poll::Ready(Err(e)) => return io_out(e),
                        // cancelled in mid-flight: offer the same chunk again
                        std::task::Poll::Pending => {}
                    }
                    if ch.is_empty() {
                        continue;
                    }
                }
                let r = if s.vectored > 0 { async_write_chunk_vectored(&mut w, ch, s.vectored as usize).await } else { async_write_chunk(&mut w, ch).await };
                if let Err(e) = r {
                    return io_out(e);
                }
                if s.flush && ci == 0 {
                    if let Err(e) = w.flush().await {
                        return io_out(e);
                    }
                }
            }
            if s.flush {
                if let Err(e) = w.flush().await {
                    return io_out(e);
                }
            }
            if let Some(first) = before_commit(ctx, s) {
                let second = match w.commit().await {
                    Ok(sri) => Out::Int(sri.to_string()),
                    Err(e) => err_out(e),
                };
                return Out::Pair(Box::new(first), Box::new(second));
            }
            w.commit().await
        }
    };
    match r {
        Ok(sri) => Out::Int(sri.to_string()),
        Err(e) => err_out(e),
    }
}

/// Two streaming writers open at the same time (see `Op::TwoWriters`). The schedule is a list
/// of actions: open / write chunk i / write the rest / commit, for writer 0 (a) or 1 (b).
#[derive(Clone, Copy)]
enum TwoAct {
    Open(usize),
    Chunk(usize, usize),
    Rest(usize),
    Commit(usize),
}

fn two_plan(plan: u8, na: usize, nb: usize) -> Vec<TwoAct> {
    use TwoAct::*;
    match plan % 4 {
        0 | 1 => {
            let mut v = vec![Open(0), Open(1)];
            for i in 0..na.max(nb) {
                v.push(Chunk(0, i));
                v.push(Chunk(1, i));
            }
            if plan % 4 == 0 {
                v.extend([Commit(0), Commit(1)]);
            } else {
                v.extend([Commit(1), Commit(0)]);
            }
            v
        }
        2 => vec![Open(0), Rest(0), Open(1), Commit(0), Rest(1), Commit(1)],
        _ => vec![Open(0), Chunk(0, 0), Open(1), Rest(1), Commit(1), Rest(0), Commit(0)],
    }
}

/// Which writer commits first under `plan`.
pub fn two_b_first(plan: u8) -> bool {
    matches!(plan % 4, 1 | 3)
}

fn do_two_sync(ctx: &Ctx, a: &WriteSpec, b: &WriteSpec, plan: u8) -> Out {
    let specs = [a, b];
    let data = [ctx.blob(a.blob), ctx.blob(b.blob)];
    let chunks = [cut_chunks(&data[0], &a.chunks), cut_chunks(&data[1], &b.chunks)];
    let mut w: [Option<Result<cacache::SyncWriter, Out>>; 2] = [None, None];
    let mut next = [0usize; 2];
    let mut outs: [Option<Out>; 2] = [None, None];
    for act in two_plan(plan, chunks[0].len(), chunks[1].len()) {
        match act {
            TwoAct::Open(i) => w[i] = Some(open_sync_writer(ctx, specs[i], &data[i]).map_err(err_out)),
            TwoAct::Chunk(i, _) | TwoAct::Rest(i) => {
                let upto = if let TwoAct::Chunk(_, c) = act { (c + 1).min(chunks[i].len()) } else { chunks[i].len() };
                while next[i] < upto {
                    if let Some(Ok(wr)) = w[i].as_mut() {
                        if let Err(e) = sync_write_chunk(wr, chunks[i][next[i]]) {
                            w[i] = Some(Err(io_out(e)));
                        }
                    }
                    next[i] += 1;
                }
            }
            TwoAct::Commit(i) => {
                outs[i] = Some(match w[i].take() {
                    Some(Ok(wr)) => match wr.commit() {
                        Ok(sri) => Out::Int(sri.to_string()),
                        Err(e) => err_out(e),
                    },
                    Some(Err(o)) => o,
                    None => Out::Panic("harness: commit before open".into()),
                })
            }
        }
    }
    let [oa, ob] = outs;
    Out::Pair(Box::new(oa.unwrap_or(Out::Unit)), Box::new(ob.unwrap_or(Out::Unit)))
}

async fn do_two_async(ctx: &Ctx<'_>, a: &WriteSpec, b: &WriteSpec, plan: u8) -> Out {
    let specs = [a, b];
    let data = [ctx.blob(a.blob), ctx.blob(b.blob)];
    let chunks = [cut_chunks(&data[0], &a.chunks), cut_chunks(&data[1], &b.chunks)];
    let mut w: [Option<Result<cacache::Writer, Out>>; 2] = [None, None];
    let mut next = [0usize; 2];
    let mut outs: [Option<Out>; 2] = [None, None];
    for act in two_plan(plan, chunks[0].len(), chunks[1].len()) {
        match act {
            TwoAct::Open(i) => w[i] = Some(open_async_writer(ctx, specs[i], &data[i]).await.map_err(err_out)),
            TwoAct::Chunk(i, _) | TwoAct::Rest(i) => {
                let upto = if let TwoAct::Chunk(_, c) = act { (c + 1).min(chunks[i].len()) } else { chunks[i].len() };
                while next[i] < upto {
                    if let Some(Ok(wr)) = w[i].as_mut() {
                        if let Err(e) = async_write_chunk(wr, chunks[i][next[i]]).await {
                            w[i] = Some(Err(io_out(e)));
                        }
                    }
                    next[i] += 1;
                }
            }
            TwoAct::Commit(i) => {
                outs[i] = Some(match w[i].take() {
                    Some(Ok(wr)) => match wr.commit().await {
                        Ok(sri) => Out::Int(sri.to_string()),
                        Err(e) => err_out(e),
                    },
                    Some(Err(o)) => o,
                    None => Out::Panic("harness: commit before open".into()),
                })
            }
        }
    }
    let [oa, ob] = outs;
    Out::Pair(Box::new(oa.unwrap_or(Out::Unit)), Box::new(ob.unwrap_or(Out::Unit)))
}

fn do_abandon_sync(ctx: &Ctx, s: &WriteSpec, at: AbandonAt) -> Out {
    let data = ctx.blob(s.blob);
    let mut w = match open_sync_writer(ctx, s, &data) {
        Ok(w) => w,
        Err(e) => return err_out(e),
    };
    let chunks = cut_chunks(&data, &s.chunks);
    let n = match at {
        AbandonAt::AfterChunks(n) | AbandonAt::MidFlight(n) | AbandonAt::CancelThenCommit(n) => n.min(chunks.len()),
        AbandonAt::AfterFlush | AbandonAt::AfterShutdown | AbandonAt::CommitDropped(_) => chunks.len(),
    };
    for ch in &chunks[..n] {
        if let Err(e) = sync_write_chunk(&mut w, ch) {
            return io_out(e);
        }
    }
    if at == AbandonAt::AfterFlush || at == AbandonAt::AfterShutdown {
        if let Err(e) = w.flush() {
            return io_out(e);
        }
    }
    if let AbandonAt::CancelThenCommit(_) = at {
        // nothing can be cancelled in the sync API: a plain commit of the chunks so far
        let _ = w.commit();
        return Out::Unit;
    }
    drop(w);
    Out::Unit
}

async fn do_abandon_async(ctx: &Ctx<'_>, s: &WriteSpec, at: AbandonAt) -> Out {
    let data = ctx.blob(s.blob);
    let mut w = match open_async_writer(ctx, s, &data).await {
        Ok(w) => w,
        Err(e) => return err_out(e),
    };
    let chunks = cut_chunks(&data, &s.chunks);
    let n = match at {
        AbandonAt::AfterChunks(n) | AbandonAt::MidFlight(n) | AbandonAt::CancelThenCommit(n) => n.min(chunks.len()),
        AbandonAt::AfterFlush | AbandonAt::AfterShutdown | AbandonAt::CommitDropped(_) => chunks.len(),
    };
    for ch in &chunks[..n] {
        if let Err(e) = async_write_chunk(&mut w, ch).await {
            return io_out(e);
        }
    }
    if at == AbandonAt::AfterShutdown {
        // the end of the stream, as `io::copy` + `close` or a codec would signal it; not a commit
        #[cfg(feature = "rt-async-std")]
        let r = w.close().await;
        #[cfg(feature = "rt-tokio")]
        let r = w.shutdown().await;
        if let Err(e) = r {
            return io_out(e);
        }
    }
    if let AbandonAt::CancelThenCommit(_) = at {
        if n < chunks.len() {
            use std::future::Future;
            let waker = futures::task::noop_waker();
            let mut cx = std::task::Context::from_waker(&waker);
            let mut fut = Box::pin(w.write(chunks[n]));
            let _ = fut.as_mut().poll(&mut cx);
            drop(fut);
        }
        // whatever it returns, it must return
        let _ = w.commit().await;
        return Out::Unit;
    }
    if let AbandonAt::MidFlight(_) = at {
        if n < chunks.len() {
            use std::future::Future;
            let waker = futures::task::noop_waker();
            let mut cx = std::task::Context::from_waker(&waker);
            let mut fut = Box::pin(w.write(chunks[n]));
            let _ = fut.as_mut().poll(&mut cx);
            drop(fut);
        }
    }
    if at == AbandonAt::AfterFlush {
        if let Err(e) = w.flush().await {
            return io_out(e);
        }
    }
    if let AbandonAt::CommitDropped(polls) = at {
        use std::future::Future;
        let waker = futures::task::noop_waker();
        let mut cx = std::task::Context::from_waker(&waker);
        let mut fut = Box::pin(w.commit());
        let mut done = None;
        for p in 0..polls.max(1) {
            if let std::task::Poll::Ready(r) = fut.as_mut().poll(&mut cx) {
                done = Some(r);
                break;
            }
            if p + 1 < polls.max(1) {
                std::thread::sleep(std::time::Duration::from_micros(150 * (p as u64 + 1)));
            }
        }
        drop(fut);
        return match done {
            Some(Ok(sri)) => Out::Int(sri.to_string()),
            Some(Err(e)) => err_out(e),
            None => {
                // the background work of the cancelled commit finishes on its own: wait until
                // the temp area is empty again (bounded; the drain check proper is the caller's)
                let tmp = ctx.cache.join("tmp");
                for _ in 0..3000 {
                    let busy = std::fs::read_dir(&tmp).map(|rd| rd.flatten().next().is_some()).unwrap_or(false);
                    if !busy {
                        break;
                    }
                    std::thread::sleep(std::time::Duration::from_millis(1));
                }
                std::thread::sleep(std::time::Duration::from_millis(2));
                Out::Unit
            }
        };
    }
    drop(w);
    Out::Unit
}

/// Length of the file behind an entry, found without the library (the harness's own reader of
/// the format): what a caller knows who sized its buffer from `metadata().size`.
fn content_len(ctx: &Ctx, by: &By) -> Option<usize> {
    let cp = match by {
        By::Addr(a) => ctx.content_path(*a),
        By::Key(k) => {
            let bucket = reffmt::bucket_path(&ctx.cache, ctx.key(*k));
            let (algo, hex) = std::fs::read(bucket).ok().and_then(|b| reffmt::lookup(&b, ctx.key(*k))).and_then(|r| r.integrity).and_then(|i| blob::sri_address(&i)).filter(|(_, hex)| hex.len() > 4)?;
            reffmt::content_path(&ctx.cache, algo, &hex)
        }
    };
    std::fs::metadata(cp).ok().filter(|m| m.is_file()).map(|m| m.len() as usize)
}

/// `usize::MAX - 1` as the first buffer size: one `read_exact` of the whole entry first (a
/// runtime's `read_exact` re-offers one partly filled buffer until it is full).
const EXACT: usize = usize::MAX - 1;
/// One read, then `check()` at once / then the reader is dropped without a check.
const EARLY_CHECK: usize = usize::MAX - 2;
const DROP_EARLY: usize = usize::MAX - 3;
/// `usize::MAX - 4` first: `[TO_END, k]` = k bytes (at most) with one plain read, then ONE
/// `read_to_end` into a vector that already holds 5 foreign bytes and what was read so far
const TO_END: usize = usize::MAX - 4;

fn read_all_sync<R: Read>(r: &mut R, bufs: &[usize]) -> std::io::Result<Vec<u8>> {
    let mut out = Vec::new();
    let mut i = 0;
    loop {
        // generated (possibly tiny) buffer sizes for the first reads, then large ones so that
        // MiB-sized entries do not take a million calls
        let sz = if bufs.is_empty() {
            8192
        } else if i < 48 {
            bufs[i % bufs.len()].max(1)
        } else {
            bufs[i % bufs.len()].max(1 << 16)
        };
        if !bufs.is_empty() && i < 48 && bufs[i % bufs.len()] == 0 {
            // a read into an empty buffer: returns 0 and must change nothing
            i += 1;
            let n = r.read(&mut [])?;
            if n != 0 {
                return Err(std::io::Error::new(std::io::ErrorKind::Other, format!("CVH: read into an empty buffer returned {n}")));
            }
            if bufs.iter().all(|&b| b == 0) {
                i = 48;
            }
            continue;
        }
        i += 1;
        let mut buf = vec![0u8; sz];
        let n = r.read(&mut buf)?;
        if n == 0 {
            // a consumer may well poll once more at end of file before it checks
            let again = r.read(&mut buf)?;
            if again != 0 {
                out.extend_from_slice(&buf[..again]);
                continue;
            }
            return Ok(out);
        }
        out.extend_from_slice(&buf[..n]);
    }
}

async fn read_all_async<R: AsyncReadExt + Unpin>(r: &mut R, bufs: &[usize]) -> std::io::Result<Vec<u8>> {
    let mut out = Vec::new();
    let mut i = 0;
    loop {
        // generated (possibly tiny) buffer sizes for the first reads, then large ones so that
        // MiB-sized entries do not take a million calls
        let sz = if bufs.is_empty() {
            8192
        } else if i < 48 {
            bufs[i % bufs.len()].max(1)
        } else {
            bufs[i % bufs.len()].max(1 << 16)
        };
        if !bufs.is_empty() && i < 48 && bufs[i % bufs.len()] == 0 {
            i += 1;
            let n = r.read(&mut []).await?;
            if n != 0 {
                return Err(std::io::Error::new(std::io::ErrorKind::Other, format!("CVH: read into an empty buffer returned {n}")));
            }
            if bufs.iter().all(|&b| b == 0) {
                i = 48;
            }
            continue;
        }
        i += 1;
        let mut buf = vec![0u8; sz];
        let n = r.read(&mut buf).await?;
        if n == 0 {
            let again = r.read(&mut buf).await?;
            if again != 0 {
                out.extend_from_slice(&buf[..again]);
                continue;
            }
            return Ok(out);
        }
        out.extend_from_slice(&buf[..n]);
    }
}

pub fn dest_state(p: &Path) -> DestState {
    match std::fs::symlink_metadata(p) {
        Err(_) => DestState::Absent,
        Ok(m) if m.file_type().is_file() => match std::fs::read(p) {
            Ok(b) => DestState::File(b.len() as u64, sha256_hex(&b)),
            Err(_) => DestState::Other,
        },
        // a symbolic link to a regular file: what reading the destination gives
        Ok(m) if m.file_type().is_symlink() && std::fs::metadata(p).map(|t| t.is_file()).unwrap_or(false) => match std::fs::read(p) {
            Ok(b) => DestState::File(b.len() as u64, sha256_hex(&b)),
            Err(_) => DestState::Other,
        },
        Ok(_) => DestState::Other,
    }
}

/// A directory on another filesystem than the scratch area (tmpfs <-> ext4).
pub fn other_fs_dir(scratch: &Path) -> PathBuf {
    let root = if scratch.starts_with("/dev/shm") { "/var/tmp" } else { "/dev/shm" };
    let tag = crate::engine::hash_of(&scratch.to_string_lossy().to_string());
    PathBuf::from(root).join(format!("cvh-x.{}", std::process::id())).join(format!("{tag:016x}"))
}

fn prep_dest(ctx: &Ctx, dest: Dest, by: &By) -> PathBuf {
    let n = ctx.dest_n.get();
    ctx.dest_n.set(n + 1);
    if dest == Dest::OtherFs {
        let d = other_fs_dir(&ctx.scratch);
        let _ = std::fs::create_dir_all(&d);
        let p = d.join(format!("dest_{n}"));
        let _ = std::fs::remove_file(&p);
        return p;
    }
    if dest == Dest::LongName {
        let name = format!("dest_{n}_{}", "n".repeat(255));
        let p = ctx.scratch.join(&name[..255]);
        let _ = std::fs::remove_file(&p);
        return p;
    }
    let p = ctx.scratch.join(format!("dest_{n}"));
    let _ = std::fs::remove_file(&p);
    if dest == Dest::WithSiblings {
        for sib in siblings(&p) {
            let _ = std::fs::remove_dir_all(&sib);
            let _ = std::fs::write(&sib, SIBLING);
        }
    }
    if dest == Dest::Existing {
        std::fs::write(&p, PREEXISTING).expect("prepare destination");
    }
    if dest == Dest::Directory {
        let _ = std::fs::remove_dir_all(&p);
        std::fs::create_dir_all(&p).expect("prepare destination directory");
        return p;
    }
    if dest == Dest::LinkOfContent || dest == Dest::ExistingSuperset || dest == Dest::SymlinkToContent || dest == Dest::ExistingSameLength {
        // found with the harness's own reader of the format, not through the library
        let cp = match by {
            By::Addr(a) => Some(ctx.content_path(*a)),
            By::Key(k) => {
                let bucket = reffmt::bucket_path(&ctx.cache, ctx.key(*k));
                std::fs::read(bucket).ok().and_then(|b| reffmt::lookup(&b, ctx.key(*k))).and_then(|r| r.integrity).and_then(|i| blob::sri_address(&i)).filter(|(_, hex)| hex.len() > 4).map(|(algo, hex)| reffmt::content_path(&ctx.cache, algo, &hex))
            }
        };
        let mut done = false;
        if let Some(cp) = cp {
            if std::fs::symlink_metadata(&cp).map(|m| m.file_type().is_file()).unwrap_or(false) {
                done = true;
                match dest {
                    Dest::LinkOfContent => {
                        let _ = std::fs::hard_link(&cp, &p);
                    }
                    Dest::SymlinkToContent => {
                        let _ = std::os::unix::fs::symlink(&cp, &p);
                    }
                    Dest::ExistingSameLength => {
                        let n = std::fs::metadata(&cp).map(|m| m.len() as usize).unwrap_or(0);
                        let _ = std::fs::write(&p, vec![b'#'; n]);
                    }
                    _ => {
                        let mut b = std::fs::read(&cp).unwrap_or_default();
                        b.extend_from_slice(SUPERSET_TAIL);
                        let _ = std::fs::write(&p, b);
                    }
                }
            } else if dest == Dest::LinkOfContent && std::fs::metadata(&cp).map(|m| m.is_file()).unwrap_or(false) {
                // a linked entry (the content path is a symlink to the user's file): the
                // destination is another NAME of that file (a hard link of it)
                if let Ok(real) = std::fs::canonicalize(&cp) {
                    let _ = std::fs::hard_link(&real, &p);
                }
            }
        }
        if !done && (dest == Dest::ExistingSuperset || dest == Dest::ExistingSameLength) {
            std::fs::write(&p, PREEXISTING).expect("prepare destination");
        }
    }
    p
}

fn list_out(cache: &Path) -> Out {
    let mut ents = Vec::new();
    let mut errs = 0u32;
    for item in cacache::list_sync(cache) {
        match item {
            Ok(m) => ents.push(norm_meta(&m)),
            Err(_) => errs += 1,
        }
    }
    ents.sort_by(|a, b| (&a.key, &a.time, &a.integrity).cmp(&(&b.key, &b.time, &b.integrity)));
    Out::List(ents, errs)
}

fn idx_opts(ctx: &Ctx, f: &IdxFields) -> cacache::WriteOpts {
    let mut o = cacache::WriteOpts::new();
    if let Some(a) = f.integrity {
        o = o.integrity(ctx.integrity_of(a));
    }
    if let Some(s) = f.size {
        o = o.size(s);
    }
    if let Some(t) = &f.time {
        o = o.time(t.parse().unwrap());
    }
    if let Some(m) = &f.metadata {
        o = o.metadata(m.clone());
    }
    if let Some(r) = &f.raw_metadata {
        o = o.raw_metadata(r.clone());
    }
    o
}

fn unit(r: cacache::Result<()>) -> Out {
    match r {
        Ok(()) => Out::Unit,
        Err(e) => err_out(e),
    }
}

fn extract_result(r: cacache::Result<Option<u64>>, dest: &Path) -> Out {
    let mut st = dest_state(dest);
    // a destination that is a directory stays an EMPTY directory
    if let Ok(rd) = std::fs::read_dir(dest) {
        let n = rd.count();
        if n > 0 {
            st = DestState::File(n as u64, "the destination directory is no longer empty".into());
        }
    }
    // somebody else's files next to the destination must be exactly as they were
    let sibs = siblings(dest);
    if sibs.iter().any(|s| s.exists()) {
        for sib in &sibs {
            if std::fs::read(sib).map(|b| b != SIBLING).unwrap_or(true) {
                st = DestState::Other;
            }
            let _ = std::fs::remove_file(sib);
        }
    }
    if dest.starts_with("/var/tmp/cvh-x.") || dest.starts_with("/dev/shm/cvh-x.") {
        // destinations on the other filesystem are not kept
        let _ = std::fs::remove_file(dest);
    }
    match r {
        Ok(count) => Out::Extracted { count, dest: st },
        Err(e) => {
            let (kind, msg) = norm_err(&e);
            Out::ExtractErr { kind, dest: st, msg }
        }
    }
}

fn do_sync(ctx: &Ctx, op: &Op) -> Out {
    let cache = &ctx.cache;
    match op {
        Op::Write(s) => do_write_sync(ctx, s),
        Op::Read { key } => match cacache::read_sync(cache, ctx.key(*key)) {
            Ok(b) => bytes_out(&b),
            Err(e) => err_out(e),
        },
        Op::ReadHash { addr } => match cacache::read_hash_sync(cache, &ctx.integrity_of(*addr)) {
            Ok(b) => bytes_out(&b),
            Err(e) => err_out(e),
        },
        Op::Stream { by, bufs } => {
            let r = match by {
                By::Key(k) => cacache::SyncReader::open(cache, ctx.key(*k)),
                By::Addr(a) => cacache::SyncReader::open_hash(cache, ctx.integrity_of(*a)),
            };
            let mut r = match r {
                Ok(r) => r,
                Err(e) => return err_out(e),
            };
            let mut head = Vec::new();
            let mut bufs = &bufs[..];
            if let Some(&m) = bufs.first() {
                if m == EARLY_CHECK || m == DROP_EARLY {
                    // one read, then the check at once — or no check at all
                    let mut one = vec![0u8; bufs.get(1).copied().unwrap_or(7).clamp(1, 1 << 20)];
                    let n = match r.read(&mut one) {
                        Ok(n) => n,
                        Err(e) => return io_out(e),
                    };
                    if m == DROP_EARLY {
                        drop(r);
                        return bytes_out(&one[..n]);
                    }
                    return match r.check() {
                        Ok(_) => bytes_out(&one[..n]),
                        Err(e) => err_out(e),
                    };
                }
            }
            if bufs.first() == Some(&TO_END) {
                let k = bufs.get(1).copied().unwrap_or(0).min(1 << 20);
                let mut acc = b"CVH!!".to_vec();
                if k > 0 {
                    let mut one = vec![0u8; k];
                    match r.read(&mut one) {
                        Ok(n) => acc.extend_from_slice(&one[..n]),
                        Err(e) => return io_out(e),
                    }
                }
                let before = acc.len();
                match r.read_to_end(&mut acc) {
                    Ok(n) if n != acc.len() - before => return io_out(std::io::Error::new(std::io::ErrorKind::Other, format!("CVH: read_to_end returned {n} but appended {}", acc.len() - before))),
                    Ok(_) => {}
                    Err(e) => return io_out(e),
                }
                if &acc[..5] != b"CVH!!" {
                    return io_out(std::io::Error::new(std::io::ErrorKind::Other, "CVH: read_to_end changed what the vector held before"));
                }
                return match r.check() {
                    Ok(_) => bytes_out(&acc[5..]),
                    Err(e) => err_out(e),
                };
            }
            if bufs.first() == Some(&EXACT) {
                bufs = &bufs[1..];
                if let Some(n) = content_len(ctx, by) {
                    head = vec![0u8; n];
                    if let Err(e) = r.read_exact(&mut head) {
                        return io_out(e);
                    }
                }
            }
            let data = match read_all_sync(&mut r, bufs) {
                Ok(d) => {
                    head.extend_from_slice(&d);
                    head
                }
                Err(e) => return io_out(e),
            };
            match r.check() {
                Ok(_) => bytes_out(&data),
                Err(e) => err_out(e),
            }
        }
        Op::Meta { key } => match cacache::metadata_sync(cache, ctx.key(*key)) {
            Ok(m) => Out::Meta(m.as_ref().map(norm_meta)),
            Err(e) => err_out(e),
        },
        Op::IdxFind { key } => match cacache::index::find(cache, ctx.key(*key)) {
            Ok(m) => Out::Meta(m.as_ref().map(norm_meta)),
            Err(e) => err_out(e),
        },
        Op::Exists { addr } => Out::Bool(cacache::exists_sync(cache, &ctx.integrity_of(*addr))),
        Op::List | Op::IdxLs => list_out(cache),
        Op::Extract { kind, checked, by, dest } => {
            let to = prep_dest(ctx, *dest, by);
            win_begin();
            let r: cacache::Result<Option<u64>> = match (kind, checked, by) {
                (XKind::Copy, true, By::Key(k)) => cacache::copy_sync(cache, ctx.key(*k), &to).map(Some),
                (XKind::Copy, true, By::Addr(a)) => cacache::copy_hash_sync(cache, &ctx.integrity_of(*a), &to).map(Some),
                (XKind::Copy, false, By::Key(k)) => cacache::copy_unchecked_sync(cache, ctx.key(*k), &to).map(Some),
                (XKind::Copy, false, By::Addr(a)) => {
                    cacache::copy_hash_unchecked_sync(cache, &ctx.integrity_of(*a), &to).map(Some)
                }
                (XKind::HardLink, true, By::Key(k)) => cacache::hard_link_sync(cache, ctx.key(*k), &to).map(|_| None),
                (XKind::HardLink, true, By::Addr(a)) => {
                    cacache::hard_link_hash_sync(cache, &ctx.integrity_of(*a), &to).map(|_| None)
                }
                (XKind::HardLink, false, By::Key(k)) => {
                    cacache::hard_link_unchecked_sync(cache, ctx.key(*k), &to).map(|_| None)
                }
                (XKind::HardLink, false, By::Addr(a)) => {
                    cacache::hard_link_hash_unchecked_sync(cache, &ctx.integrity_of(*a), &to).map(|_| None)
                }
                (XKind::Reflink, true, By::Key(k)) => cacache::reflink_sync(cache, ctx.key(*k), &to).map(|_| None),
                (XKind::Reflink, true, By::Addr(a)) => {
                    cacache::reflink_hash_sync(cache, &ctx.integrity_of(*a), &to).map(|_| None)
                }
                (XKind::Reflink, false, By::Key(k)) => {
                    cacache::reflink_unchecked_sync(cache, ctx.key(*k), &to).map(|_| None)
                }
                (XKind::Reflink, false, By::Addr(a)) => {
                    cacache::reflink_hash_unchecked_sync(cache, &ctx.integrity_of(*a), &to).map(|_| None)
                }
            };
            win_end();
            extract_result(r, &to)
        }
        Op::Remove { key } => unit(cacache::remove_sync(cache, ctx.key(*key))),
        Op::RemoveHash { addr } => unit(cacache::remove_hash_sync(cache, &ctx.integrity_of(*addr))),
        Op::RemoveOpts { key, fully } => {
            unit(remove_opts(*key, *fully).remove_sync(cache, ctx.key(*key)))
        }
        Op::Clear => unit(cacache::clear_sync(cache)),
        Op::IdxInsert { key, fields } => match cacache::index::insert(cache, ctx.key(*key), idx_opts(ctx, fields)) {
            Ok(s) => Out::Int(s.to_string()),
            Err(e) => err_out(e),
        },
        Op::IdxDelete { key } => unit(cacache::index::delete(cache, ctx.key(*key))),
        Op::LinkTo(l) => do_link_sync(ctx, l),
        Op::RemoveHashMulti { addr, also } => unit(cacache::remove_hash_sync(cache, &two_hash(ctx, *addr, *also))),
        Op::Abandon { spec, at } => do_abandon_sync(ctx, spec, *at),
        Op::TwoWriters { a, b, plan } => do_two_sync(ctx, a, b, *plan),
        Op::DamageContent { .. } | Op::DamageBucket { .. } | Op::ForeignRecord { .. } | Op::Chdir { .. } | Op::PlantRecord { .. } | Op::TmpElsewhere | Op::RemoveTarget { .. } | Op::SwitchCache | Op::AgeCache { .. } | Op::ForeignTombstone { .. } => unreachable!(),
    }
}

async fn do_async(ctx: &Ctx<'_>, op: &Op) -> Out {
    let cache = &ctx.cache;
    match op {
        Op::Write(s) => do_write_async(ctx, s).await,
        Op::Read { key } => match cacache::read(cache, ctx.key(*key)).await {
            Ok(b) => bytes_out(&b),
            Err(e) => err_out(e),
        },
        Op::ReadHash { addr } => match cacache::read_hash(cache, &ctx.integrity_of(*addr)).await {
            Ok(b) => bytes_out(&b),
            Err(e) => err_out(e),
        },
        Op::Stream { by, bufs } => {
            let r = match by {
                By::Key(k) => cacache::Reader::open(cache, ctx.key(*k)).await,
                By::Addr(a) => cacache::Reader::open_hash(cache, ctx.integrity_of(*a)).await,
            };
            let mut r = match r {
                Ok(r) => r,
                Err(e) => return err_out(e),
            };
            let mut head = Vec::new();
            let mut bufs = &bufs[..];
            if let Some(&m) = bufs.first() {
                if m == EARLY_CHECK || m == DROP_EARLY {
                    let mut one = vec![0u8; bufs.get(1).copied().unwrap_or(7).clamp(1, 1 << 20)];
                    let n = match r.read(&mut one).await {
                        Ok(n) => n,
                        Err(e) => return io_out(e),
                    };
                    if m == DROP_EARLY {
                        drop(r);
                        return bytes_out(&one[..n]);
                    }
                    return match r.check() {
                        Ok(_) => bytes_out(&one[..n]),
                        Err(e) => err_out(e),
                    };
                }
            }
            if bufs.first() == Some(&TO_END) {
                let k = bufs.get(1).copied().unwrap_or(0).min(1 << 20);
                let mut acc = b"CVH!!".to_vec();
                if k > 0 {
                    let mut one = vec![0u8; k];
                    match r.read(&mut one).await {
                        Ok(n) => acc.extend_from_slice(&one[..n]),
                        Err(e) => return io_out(e),
                    }
                }
                let before = acc.len();
                match r.read_to_end(&mut acc).await {
                    Ok(n) if n != acc.len() - before => return io_out(std::io::Error::new(std::io::ErrorKind::Other, format!("CVH: read_to_end returned {n} but appended {}", acc.len() - before))),
                    Ok(_) => {}
                    Err(e) => return io_out(e),
                }
                if &acc[..5] != b"CVH!!" {
                    return io_out(std::io::Error::new(std::io::ErrorKind::Other, "CVH: read_to_end changed what the vector held before"));
                }
                return match r.check() {
                    Ok(_) => bytes_out(&acc[5..]),
                    Err(e) => err_out(e),
                };
            }
            if bufs.first() == Some(&EXACT) {
                bufs = &bufs[1..];
                if let Some(n) = content_len(ctx, by) {
                    head = vec![0u8; n];
                    if let Err(e) = r.read_exact(&mut head).await {
                        return io_out(e);
                    }
                }
            }
            let data = match read_all_async(&mut r, bufs).await {
                Ok(d) => {
                    head.extend_from_slice(&d);
                    head
                }
                Err(e) => return io_out(e),
            };
            match r.check() {
                Ok(_) => bytes_out(&data),
                Err(e) => err_out(e),
            }
        }
        Op::Meta { key } => match cacache::metadata(cache, ctx.key(*key)).await {
            Ok(m) => Out::Meta(m.as_ref().map(norm_meta)),
            Err(e) => err_out(e),
        },
        Op::IdxFind { key } => match cacache::index::find_async(cache, ctx.key(*key)).await {
            Ok(m) => Out::Meta(m.as_ref().map(norm_meta)),
            Err(e) => err_out(e),
        },
        Op::Exists { addr } => Out::Bool(cacache::exists(cache, &ctx.integrity_of(*addr)).await),
        Op::List | Op::IdxLs => list_out(cache),
        Op::Extract { kind, checked, by, dest } => {
            // entry points that exist only as `_sync` run through the sync interpreter
            let sync_only = matches!(
                (kind, checked, by),
                (XKind::HardLink, true, By::Addr(_))
                    | (XKind::HardLink, false, _)
                    | (XKind::Reflink, false, By::Addr(_))
            );
            if sync_only {
                return do_sync(ctx, op);
            }
            let to = prep_dest(ctx, *dest, by);
            win_begin();
            let r: cacache::Result<Option<u64>> = match (kind, checked, by) {
                (XKind::Copy, true, By::Key(k)) => cacache::copy(cache, ctx.key(*k), &to).await.map(Some),
                (XKind::Copy, true, By::Addr(a)) => cacache::copy_hash(cache, &ctx.integrity_of(*a), &to).await.map(Some),
                (XKind::Copy, false, By::Key(k)) => cacache::copy_unchecked(cache, ctx.key(*k), &to).await.map(Some),
                (XKind::Copy, false, By::Addr(a)) => {
                    cacache::copy_hash_unchecked(cache, &ctx.integrity_of(*a), &to).await.map(Some)
                }
                (XKind::HardLink, true, By::Key(k)) => cacache::hard_link(cache, ctx.key(*k), &to).await.map(|_| None),
                (XKind::Reflink, true, By::Key(k)) => cacache::reflink(cache, ctx.key(*k), &to).await.map(|_| None),
                (XKind::Reflink, true, By::Addr(a)) => {
                    cacache::reflink_hash(cache, &ctx.integrity_of(*a), &to).await.map(|_| None)
                }
                (XKind::Reflink, false, By::Key(k)) => {
                    cacache::reflink_unchecked(cache, ctx.key(*k), &to).await.map(|_| None)
                }
                _ => unreachable!(),
            };
            win_end();
            extract_result(r, &to)
        }
        Op::Remove { key } => unit(cacache::remove(cache, ctx.key(*key)).await),
        Op::RemoveHash { addr } => unit(cacache::remove_hash(cache, &ctx.integrity_of(*addr)).await),
        Op::RemoveOpts { key, fully } => {
            unit(remove_opts(*key, *fully).remove(cache, ctx.key(*key)).await)
        }
        Op::Clear => unit(cacache::clear(cache).await),
        Op::IdxInsert { key, fields } => {
            match cacache::index::insert_async(cache, ctx.key(*key), idx_opts(ctx, fields)).await {
                Ok(s) => Out::Int(s.to_string()),
                Err(e) => err_out(e),
            }
        }
        Op::IdxDelete { key } => unit(cacache::index::delete_async(cache, ctx.key(*key)).await),
        Op::LinkTo(l) => do_link_async(ctx, l).await,
        Op::RemoveHashMulti { addr, also } => unit(cacache::remove_hash(cache, &two_hash(ctx, *addr, *also)).await),
        Op::Abandon { spec, at } => do_abandon_async(ctx, spec, *at).await,
        Op::TwoWriters { a, b, plan } => do_two_async(ctx, a, b, *plan).await,
        Op::DamageContent { .. } | Op::DamageBucket { .. } | Op::ForeignRecord { .. } | Op::Chdir { .. } | Op::PlantRecord { .. } | Op::TmpElsewhere | Op::RemoveTarget { .. } | Op::SwitchCache | Op::AgeCache { .. } | Op::ForeignTombstone { .. } => unreachable!(),
    }
}

/// Path handed to the library for a link target (relative paths are relative to the
/// process working directory; only single-threaded drivers use them).
pub fn link_target_arg(ctx: &Ctx, l: &LinkSpec) -> PathBuf {
    let abs = ctx.target_path(l.target);
    if l.relative {
        let cwd = std::env::current_dir().expect("cwd");
        let rel = pathdiff(&abs, &cwd);
        if l.dotdot_via_symlink {
            // `s` -> `<cwd>/r1/r2`, so `s/../..` is the working directory again (for the
            // kernel; folding `s/..` textually would be wrong)
            let _ = std::fs::create_dir_all(cwd.join("r1").join("r2"));
            if std::fs::symlink_metadata(cwd.join("s")).is_err() {
                let _ = std::os::unix::fs::symlink(cwd.join("r1").join("r2"), cwd.join("s"));
            }
            PathBuf::from("s/../..").join(rel)
        } else {
            rel
        }
    } else {
        abs
    }
}

/// Lexical relative path from `base` to `path` (both absolute).
pub fn pathdiff(path: &Path, base: &Path) -> PathBuf {
    let p: Vec<_> = path.components().collect();
    let b: Vec<_> = base.components().collect();
    let mut i = 0;
    while i < p.len() && i < b.len() && p[i] == b[i] {
        i += 1;
    }
    let mut out = PathBuf::new();
    for _ in i..b.len() {
        out.push("..");
    }
    for c in &p[i..] {
        out.push(c.as_os_str());
    }
    if out.as_os_str().is_empty() {
        out.push(".");
    }
    out
}

fn link_opts(l: &LinkSpec, data: &[u8]) -> cacache::WriteOpts {
    let mut o = cacache::WriteOpts::new();
    if !(l.algo == Algo::Sha256 && data.len() % 2 == 0) {
        o = o.algorithm(l.algo.to_lib());
    }
    if let Some(n) = declared_size(l.declare, data.len()) {
        o = o.size(n);
    }
    if let Some(i) = declared_integrity_ex(l.integ, l.algo, data, &[]) {
        o = o.integrity(i.parse().unwrap());
    }
    o
}

/// In `LinkSpec::pre_reads`: not a read — the process changes its working directory at this
/// point, between opening the linker and its commit (driver processes only; a no-op elsewhere).
pub const LINK_CHDIR: usize = usize::MAX - 5;

fn link_chdir(ctx: &Ctx) {
    if ALLOW_CHDIR.load(Ordering::SeqCst) {
        let dir = ctx.scratch.join("cwd").join("elsewhere");
        let _ = std::fs::create_dir_all(&dir);
        let _ = std::env::set_current_dir(&dir);
    }
}

fn do_link_sync(ctx: &Ctx, l: &LinkSpec) -> Out {
    let data = ctx.blob(l.blob);
    let target = link_target_arg(ctx, l);
    let cache = &ctx.cache;
    let r = if l.oneshot {
        match l.key {
            Some(k) => cacache::link_to_sync(cache, ctx.key(k), &target),
            None => cacache::link_to_hash_sync(cache, &target),
        }
    } else {
        let lk = match l.key {
            Some(k) => link_opts(l, &data).link_to_sync(cache, ctx.key(k), &target),
            None => link_opts(l, &data).link_to_hash_sync(cache, &target),
        };
        match lk {
            Err(e) => Err(e),
            Ok(mut lk) => {
                for &n in &l.pre_reads {
                    if n == LINK_CHDIR {
                        link_chdir(ctx);
                        continue;
                    }
                    if n == usize::MAX {
                        let mut all = Vec::with_capacity(16);
                        if let Err(e) = lk.read_to_end(&mut all) {
                            return io_out(e);
                        }
                        continue;
                    }
                    if n == usize::MAX - 1 {
                        // exactly as many bytes as were declared (or the file has)
                        let want = declared_size(l.declare, data.len()).unwrap_or(data.len()).min(data.len());
                        let mut exact = vec![0u8; want];
                        if let Err(e) = lk.read_exact(&mut exact) {
                            return io_out(e);
                        }
                        continue;
                    }
                    let mut buf = vec![0u8; n.max(1)];
                    let r = if l.vectored_reads && buf.len() >= 2 {
                        let (a, b) = buf.split_at_mut(n.max(2) / 2);
                        lk.read_vectored(&mut [std::io::IoSliceMut::new(a), std::io::IoSliceMut::new(b)])
                    } else {
                        lk.read(&mut buf)
                    };
                    if let Err(e) = r {
                        return io_out(e);
                    }
                }
                lk.commit()
            }
        }
    };
    match r {
        Ok(s) => Out::Int(s.to_string()),
        Err(e) => err_out(e),
    }
}

async fn do_link_async(ctx: &Ctx<'_>, l: &LinkSpec) -> Out {
    let data = ctx.blob(l.blob);
    let target = link_target_arg(ctx, l);
    let cache = &ctx.cache;
    let r = if l.oneshot {
        match l.key {
            Some(k) => cacache::link_to(cache, ctx.key(k), &target).await,
            None => cacache::link_to_hash(cache, &target).await,
        }
    } else {
        let lk = match l.key {
            Some(k) => link_opts(l, &data).link_to(cache, ctx.key(k), &target).await,
            None => link_opts(l, &data).link_to_hash(cache, &target).await,
        };
        match lk {
            Err(e) => Err(e),
            Ok(mut lk) => {
                for &n in &l.pre_reads {
                    if n == LINK_CHDIR {
                        link_chdir(ctx);
                        continue;
                    }
                    if n == usize::MAX {
                        // the runtime's own read_to_end (it hands over partly filled buffers)
                        let mut all = Vec::with_capacity(16);
                        if let Err(e) = lk.read_to_end(&mut all).await {
                            return io_out(e);
                        }
                        continue;
                    }
                    if n == usize::MAX - 1 {
                        let want = declared_size(l.declare, data.len()).unwrap_or(data.len()).min(data.len());
                        let mut exact = vec![0u8; want];
                        if let Err(e) = lk.read_exact(&mut exact).await {
                            return io_out(e);
                        }
                        continue;
                    }
                    let mut buf = vec![0u8; n.max(1)];
                    if let Err(e) = lk.read(&mut buf).await {
                        return io_out(e);
                    }
                }
                lk.commit().await
            }
        }
    };
    match r {
        Ok(s) => Out::Int(s.to_string()),
        Err(e) => err_out(e),
    }
}

/// Harness-side steps (damage, foreign records). Returns `Out::Done`.
pub fn do_harness_side(ctx: &Ctx, op: &Op) -> Out {
    match op {
        Op::DamageContent { addr, dmg } => {
            crate::damage::damage_content(ctx, *addr, dmg);
            Out::Done
        }
        Op::DamageBucket { key, dmg } => {
            let p = reffmt::bucket_path(&ctx.cache, ctx.key(*key));
            crate::damage::damage_bucket(&p, dmg);
            Out::Done
        }
        Op::RemoveTarget { target } => {
            let _ = std::fs::remove_file(ctx.target_path(*target));
            Out::Done
        }
        Op::AgeCache { days } => {
            fn age(dir: &Path, to: std::time::SystemTime) {
                if let Ok(rd) = std::fs::read_dir(dir) {
                    for e in rd.flatten() {
                        let p = e.path();
                        match std::fs::symlink_metadata(&p) {
                            Ok(m) if m.is_dir() => age(&p, to),
                            Ok(m) if m.is_file() => {
                                if let Ok(f) = std::fs::OpenOptions::new().write(true).open(&p) {
                                    let _ = f.set_modified(to);
                                }
                            }
                            _ => {}
                        }
                    }
                }
            }
            age(&ctx.cache, std::time::SystemTime::now() - std::time::Duration::from_secs(*days as u64 * 86400));
            Out::Done
        }
        Op::SwitchCache => {
            // only when the cache path itself is a symbolic link
            let is_link = std::fs::symlink_metadata(&ctx.cache).map(|m| m.file_type().is_symlink()).unwrap_or(false);
            if !is_link {
                return Out::Bool(false);
            }
            let n = ctx.dest_n.get();
            ctx.dest_n.set(n + 1);
            let fresh = ctx.scratch.join(format!("switched-cache-{n}"));
            let _ = std::fs::create_dir_all(&fresh);
            let _ = std::fs::remove_file(&ctx.cache);
            let _ = std::os::unix::fs::symlink(&fresh, &ctx.cache);
            ctx.refresh_cache_id();
            Out::Bool(true)
        }
        Op::TmpElsewhere => {
            let tmp = ctx.cache.join("tmp");
            let _ = std::fs::remove_dir_all(&tmp);
            let _ = std::fs::remove_file(&tmp);
            let target = other_fs_dir(&ctx.scratch).join("tmp-elsewhere");
            let _ = std::fs::create_dir_all(&target);
            let _ = std::fs::create_dir_all(&ctx.cache);
            let _ = std::os::unix::fs::symlink(&target, &tmp);
            Out::Done
        }
        Op::PlantRecord { key, integrity, time } => {
            let p = reffmt::bucket_path(&ctx.cache, ctx.key(*key));
            let rec = reffmt::Rec {
                key: ctx.key(*key).to_string(),
                integrity: integrity.clone(),
                time: *time as u128,
                size: 1,
                metadata: reffmt::Json::Null,
                raw_metadata: None,
            };
            let _ = std::fs::create_dir_all(p.parent().unwrap());
            if let Ok(mut f) = std::fs::OpenOptions::new().create(true).append(true).open(&p) {
                let _ = f.write_all(&reffmt::encode_record(&rec, reffmt::EmitStyle { ascii: false, reversed: false }));
            }
            Out::Done
        }
        Op::Chdir { dir } => {
            // process-global: only single-threaded driver processes execute this
            let d = ctx.scratch.join("cwd").join(format!("d{dir}"));
            let _ = std::fs::create_dir_all(&d);
            let _ = std::env::set_current_dir(&d);
            Out::Done
        }
        Op::ForeignTombstone { bucket_of, key } => {
            let p = reffmt::bucket_path(&ctx.cache, ctx.key(*bucket_of));
            let rec = reffmt::Rec { key: ctx.key(*key).to_string(), integrity: None, time: 8, size: 0, metadata: reffmt::Json::Null, raw_metadata: None };
            let _ = std::fs::create_dir_all(p.parent().unwrap());
            if let Ok(mut f) = std::fs::OpenOptions::new().create(true).append(true).open(&p) {
                let _ = f.write_all(&reffmt::encode_record(&rec, reffmt::EmitStyle { ascii: false, reversed: false }));
            }
            Out::Done
        }
        Op::ForeignRecord { bucket_of, key, addr } => {
            let p = reffmt::bucket_path(&ctx.cache, ctx.key(*bucket_of));
            let rec = reffmt::Rec {
                key: ctx.key(*key).to_string(),
                integrity: Some(ctx.sri_of(*addr)),
                time: 7,
                size: ctx.blobs[addr.blob].len as u128,
                metadata: reffmt::Json::Null,
                raw_metadata: None,
            };
            // on an unusable cache root (a file, for instance) there is nothing to plant
            let _ = std::fs::create_dir_all(p.parent().unwrap());
            if let Ok(mut f) = std::fs::OpenOptions::new().create(true).append(true).open(&p) {
                let _ = f.write_all(&reffmt::encode_record(&rec, reffmt::EmitStyle { ascii: false, reversed: false }));
            }
            Out::Done
        }
        _ => unreachable!(),
    }
}

/// Result of one step plus the wall-clock window (Unix ms) that brackets the call.
pub struct StepResult {
    pub out: Out,
    pub t0: u128,
    pub t1: u128,
}

/// The file a link call names, (re)created by the harness before the call; an already correct
/// one is left alone so that callers can tell whether the library touched it. Every other
/// target is a file its owner made read-only (mode 0444).
pub fn prep_link_target(ctx: &Ctx, l: &LinkSpec) {
    let p = ctx.target_path(l.target);
    if std::fs::read(&p).map(|b| b != ctx.blob(l.blob)[..]).unwrap_or(true) {
        std::fs::write(&p, &ctx.blob(l.blob)[..]).expect("write link target");
        if l.target % 2 == 1 {
            use std::os::unix::fs::PermissionsExt;
            let _ = std::fs::set_permissions(&p, std::fs::Permissions::from_mode(0o444));
        }
    }
}

/// Runs several steps (async flavour) as futures joined in ONE task: they make progress
/// interleaved on one thread, each yielding wherever the library awaits.
pub fn run_steps_joined(ctx: &Ctx, steps: &[Step]) -> Vec<StepResult> {
    for st in steps {
        if let Op::LinkTo(l) = &st.op {
            prep_link_target(ctx, l);
        }
    }
    MY_PANICS.with(|p| p.borrow_mut().clear());
    COMMIT_T0.with(|c| c.set(None));
    let t0 = now_ms();
    win_begin();
    let r = std::panic::catch_unwind(std::panic::AssertUnwindSafe(|| rt::block_on(futures::future::join_all(steps.iter().map(|s| do_async(ctx, &s.op))))));
    win_end();
    let t1 = now_ms();
    COMMIT_T0.with(|c| c.set(None));
    match r {
        Ok(outs) => outs.into_iter().map(|out| StepResult { out, t0, t1 }).collect(),
        Err(p) => {
            let recorded = MY_PANICS.with(|p| p.borrow().join(" | "));
            let msg = if !recorded.is_empty() {
                recorded
            } else if let Some(s) = p.downcast_ref::<&str>() {
                s.to_string()
            } else if let Some(s) = p.downcast_ref::<String>() {
                s.clone()
            } else {
                "<panic>".into()
            };
            steps.iter().map(|_| StepResult { out: Out::Panic(msg.clone()), t0, t1 }).collect()
        }
    }
}

/// An async commit cancelled in flight leaves work behind that no runtime lets one wait for
/// (async-std) — so it runs in a process of its own, which ends right after the step: what
/// the cache shows once that process is gone is final.
fn run_step_in_process_of_its_own(ctx: &Ctx, step: &Step) -> StepResult {
    let n = ctx.dest_n.get();
    ctx.dest_n.set(n + 1);
    let pf = ctx.scratch.join(format!("own-process-{n}.json"));
    let of = ctx.scratch.join(format!("own-process-{n}.out"));
    let prog = Program { keys: ctx.keys.to_vec(), blobs: ctx.blobs.to_vec(), steps: vec![step.clone()] };
    let run = || -> Result<StepResult, String> {
        std::fs::write(&pf, serde_json::to_string(&prog).unwrap()).map_err(|e| format!("INFRA: {e}"))?;
        // (the command line carries text: a spelling of the cache path that is not UTF-8 is
        // replaced by the canonical one — the same directory)
        let cache = if ctx.cache.to_str().is_some() { ctx.cache.clone() } else { std::fs::canonicalize(&ctx.cache).map_err(|e| format!("INFRA: {e}"))? };
        let v = crate::sup::run_fresh(&cache, &ctx.scratch, &pf, 0, 1, &of, None)?;
        let (_, out, t0, t1) = v.into_iter().next().ok_or("INFRA: the driver process produced no result")?;
        Ok(StepResult { out, t0, t1 })
    };
    let r = run().or_else(|_| run());
    let _ = std::fs::remove_file(&pf);
    let _ = std::fs::remove_file(&of);
    match r {
        Ok(r) => r,
        Err(e) => StepResult { out: Out::Panic(if e.starts_with("INFRA:") { e } else { format!("INFRA: {e}") }), t0: 0, t1: 0 },
    }
}

/// Runs one step under the panic catcher.
pub fn run_step(ctx: &Ctx, step: &Step) -> StepResult {
    if let (Op::Abandon { at: AbandonAt::CommitDropped(_), .. }, Fl::Async) = (&step.op, step.fl) {
        if !IN_DRIVER.load(Ordering::SeqCst) {
            return run_step_in_process_of_its_own(ctx, step);
        }
    }
    if step.op.is_harness_side() {
        let out = do_harness_side(ctx, &step.op);
        return StepResult { out, t0: 0, t1: 0 };
    }
    if let Op::LinkTo(l) = &step.op {
        // the target file is (re)created by the harness before linking
        prep_link_target(ctx, l);
    }
    MY_PANICS.with(|p| p.borrow_mut().clear());
    // extraction prepares / observes its destination itself and opens the window around the
    // library call only; everything else is library calls from start to end
    let auto_window = !matches!(step.op, Op::Extract { .. });
    COMMIT_T0.with(|c| c.set(None));
    let t0 = now_ms();
    if auto_window {
        win_begin();
    }
    let r = std::panic::catch_unwind(std::panic::AssertUnwindSafe(|| match step.fl {
        Fl::Sync => do_sync(ctx, &step.op),
        Fl::Async => rt::block_on(do_async(ctx, &step.op)),
    }));
    win_end();
    let t1 = now_ms();
    // a streamed write reports the instant right before its commit as the start of the window
    let t0 = COMMIT_T0.with(|c| c.take()).unwrap_or(t0);
    let out = match r {
        Ok(o) => o,
        Err(p) => {
            let recorded = MY_PANICS.with(|p| p.borrow().join(" | "));
            let msg = if !recorded.is_empty() {
                recorded
            } else if let Some(s) = p.downcast_ref::<&str>() {
                s.to_string()
            } else if let Some(s) = p.downcast_ref::<String>() {
                s.clone()
            } else {
                "<panic>".into()
            };
            Out::Panic(msg)
        }
    };
    StepResult { out, t0, t1 }
}
