//! Client side of the ptrace supervisor protocol (see ptsup/ptsup.c).

use std::collections::HashMap;
use std::io::{BufRead, BufReader, Write};
use std::path::{Component, Path, PathBuf};
use std::process::{Child, ChildStdin, ChildStdout, Command, Stdio};

#[derive(Clone, Debug)]
pub struct Gate {
    pub cid: usize,
    pub tid: i64,
    pub seq: u64,
    pub nr: i64,
    pub name: String,
    pub is_mut: bool,
    pub kv: HashMap<String, String>,
}

#[derive(Clone, Debug)]
pub enum Ev {
    Marker { cid: usize, begin: bool, n: usize },
    Gate(Gate),
    Ret { cid: usize, tid: i64, seq: u64, ret: i64 },
    Quiescent,
    Exit { cid: usize, status: String },
    Done,
    Fatal(String),
}

pub struct Sup {
    child: Child,
    stdin: Option<ChildStdin>,
    stdout: BufReader<ChildStdout>,
    pub log: Vec<String>,
}

fn unesc(s: &str) -> String {
    let b = s.as_bytes();
    let mut out = Vec::with_capacity(b.len());
    let mut i = 0;
    while i < b.len() {
        if b[i] == b'%' && i + 2 < b.len() + 0 && i + 2 <= b.len() - 1 {
            if let Ok(v) = u8::from_str_radix(&s[i + 1..i + 3], 16) {
                out.push(v);
                i += 3;
                continue;
            }
        }
        out.push(b[i]);
        i += 1;
    }
    String::from_utf8_lossy(&out).to_string()
}

pub fn normalise(p: &Path) -> PathBuf {
    let mut out = PathBuf::new();
    for c in p.components() {
        match c {
            Component::ParentDir => {
                out.pop();
            }
            Component::CurDir => {}
            c => out.push(c.as_os_str()),
        }
    }
    out
}

impl Gate {
    pub fn get(&self, k: &str) -> Option<&str> {
        self.kv.get(k).map(|s| s.as_str())
    }
    pub fn count(&self) -> Option<u64> {
        self.get("count").and_then(|c| c.parse().ok())
    }
    fn resolve(dir: Option<&str>, path: Option<&str>) -> Option<PathBuf> {
        let path = path?;
        let p = Path::new(path);
        if p.is_absolute() {
            Some(normalise(p))
        } else {
            let d = dir.unwrap_or("/");
            if path.is_empty() {
                Some(normalise(Path::new(d)))
            } else {
                Some(normalise(&Path::new(d).join(p)))
            }
        }
    }
    /// Lexically normalised absolute paths the call names (for descriptor calls: the
    /// path the descriptor resolves to).
    pub fn paths(&self) -> Vec<PathBuf> {
        let mut v = Vec::new();
        if let Some(p) = Self::resolve(self.get("dir"), self.get("path")) {
            v.push(p);
        }
        if let Some(p) = Self::resolve(self.get("dir2"), self.get("path2")) {
            v.push(p);
        }
        if let Some(p) = self.get("fdpath") {
            v.push(PathBuf::from(p.trim_end_matches(" (deleted)")));
        }
        v
    }
    pub fn is_write_class(&self) -> bool {
        matches!(self.name.as_str(), "write" | "pwrite64" | "writev")
    }
    pub fn short(&self) -> String {
        let mut kv: Vec<String> = self.kv.iter().filter(|(k, _)| *k != "dir" && *k != "dir2" && *k != "class").map(|(k, v)| format!("{k}={v}")).collect();
        kv.sort();
        format!("{}({})", self.name, kv.join(" "))
    }
}

pub fn ptsup_path() -> PathBuf {
    PathBuf::from(std::env::var("CVH_PTSUP").unwrap_or_else(|_| "/verif/target/ptsup".to_string()))
}

pub fn driver_path() -> PathBuf {
    let me = std::env::current_exe().expect("current_exe");
    me.parent().unwrap().join("driver")
}

impl Sup {
    /// `gate_fs`: gate read-side calls too. `cmds`: one argv per subject.
    pub fn spawn(gate_fs: bool, timeout_s: u32, cmds: &[Vec<String>], cwd: Option<&Path>) -> std::io::Result<Sup> {
        let mut c = Command::new(ptsup_path());
        c.arg("-g").arg(if gate_fs { "fs" } else { "mut" }).arg("-t").arg(timeout_s.to_string()).arg("--");
        for (i, cmd) in cmds.iter().enumerate() {
            if i > 0 {
                c.arg("---");
            }
            c.args(cmd);
        }
        if let Some(d) = cwd {
            c.current_dir(d);
        }
        c.stdin(Stdio::piped()).stdout(Stdio::piped()).stderr(Stdio::null());
        let mut child = c.spawn()?;
        let stdin = child.stdin.take().unwrap();
        let stdout = BufReader::new(child.stdout.take().unwrap());
        Ok(Sup { child, stdin: Some(stdin), stdout, log: Vec::new() })
    }

    pub fn next(&mut self) -> Ev {
        let mut line = String::new();
        match self.stdout.read_line(&mut line) {
            Ok(0) | Err(_) => return Ev::Done,
            Ok(_) => {}
        }
        let line = line.trim_end().to_string();
        if self.log.len() < 4000 {
            self.log.push(line.clone());
        }
        let mut it = line.split(' ');
        match it.next() {
            Some("M") => {
                let cid = it.next().and_then(|x| x.parse().ok()).unwrap_or(0);
                let begin = it.next() == Some("B");
                let n = it.next().and_then(|x| x.parse().ok()).unwrap_or(0);
                Ev::Marker { cid, begin, n }
            }
            Some("S") => {
                let cid = it.next().and_then(|x| x.parse().ok()).unwrap_or(0);
                let tid = it.next().and_then(|x| x.parse().ok()).unwrap_or(0);
                let seq = it.next().and_then(|x| x.parse().ok()).unwrap_or(0);
                let nr = it.next().and_then(|x| x.parse().ok()).unwrap_or(0);
                let name = it.next().unwrap_or("").to_string();
                let mut kv = HashMap::new();
                for tok in it {
                    if let Some((k, v)) = tok.split_once('=') {
                        kv.insert(k.to_string(), unesc(v));
                    }
                }
                let is_mut = kv.get("class").map(|c| c == "mut").unwrap_or(false);
                Ev::Gate(Gate { cid, tid, seq, nr, name, is_mut, kv })
            }
            Some("X") => {
                let cid = it.next().and_then(|x| x.parse().ok()).unwrap_or(0);
                let tid = it.next().and_then(|x| x.parse().ok()).unwrap_or(0);
                let seq = it.next().and_then(|x| x.parse().ok()).unwrap_or(0);
                let ret = it.next().and_then(|x| x.parse().ok()).unwrap_or(0);
                Ev::Ret { cid, tid, seq, ret }
            }
            Some("Q") => Ev::Quiescent,
            Some("Z") => {
                let cid: i64 = it.next().and_then(|x| x.parse().ok()).unwrap_or(-1);
                let status = it.next().unwrap_or("").to_string();
                if cid < 0 {
                    Ev::Done
                } else {
                    Ev::Exit { cid: cid as usize, status }
                }
            }
            Some("F") => Ev::Fatal(line),
            _ => Ev::Fatal(format!("unparsable supervisor line: {line}")),
        }
    }

    pub fn reply(&mut self, s: &str) {
        if self.log.len() < 4000 {
            self.log.push(format!("> {s}"));
        }
        if let Some(i) = self.stdin.as_mut() {
            let _ = writeln!(i, "{s}");
            let _ = i.flush();
        }
    }

    /// Waits for the supervisor to finish; returns its exit code.
    pub fn finish(mut self) -> i32 {
        drop(self.stdin.take());
        // drain
        let mut sink = String::new();
        while let Ok(n) = self.stdout.read_line(&mut sink) {
            if n == 0 {
                break;
            }
            sink.clear();
        }
        self.child.wait().ok().and_then(|s| s.code()).unwrap_or(-1)
    }
}

impl Drop for Sup {
    fn drop(&mut self) {
        let _ = self.child.kill();
        let _ = self.child.wait();
    }
}

/// argv for one driver subject.
pub fn driver_cmd(cache: &Path, scratch: &Path, prog: &Path, from: usize, to: usize, out: &Path) -> Vec<String> {
    vec![
        driver_path().to_string_lossy().to_string(),
        "exec".into(),
        "--cache".into(),
        cache.to_string_lossy().to_string(),
        "--scratch".into(),
        scratch.to_string_lossy().to_string(),
        "--prog".into(),
        prog.to_string_lossy().to_string(),
        "--from".into(),
        from.to_string(),
        "--to".into(),
        to.to_string(),
        "--out".into(),
        out.to_string_lossy().to_string(),
        "--markers".into(),
    ]
}

/// Runs driver steps in a plain (untraced) fresh process and returns the outs.
pub fn run_fresh(cache: &Path, scratch: &Path, prog_file: &Path, from: usize, to: usize, out: &Path, cwd: Option<&Path>) -> Result<Vec<(usize, crate::ops::Out, u128, u128)>, String> {
    let _ = std::fs::remove_file(out);
    let mut argv = driver_cmd(cache, scratch, prog_file, from, to, out);
    argv.pop(); // no markers
    let mut c = Command::new(&argv[0]);
    c.args(&argv[1..]).stdin(Stdio::null()).stdout(Stdio::null()).stderr(Stdio::piped());
    if let Some(d) = cwd {
        c.current_dir(d);
    }
    let o = c.output().map_err(|e| format!("INFRA: cannot run driver: {e}"))?;
    if !o.status.success() {
        return Err(format!("driver process ended abnormally: {:?} {}", o.status, String::from_utf8_lossy(&o.stderr)));
    }
    read_outs(out)
}

/// Like `run_fresh`, as another (unprivileged) user: `setpriv --reuid --regid --clear-groups`.
/// `Ok(None)` when the identity cannot be changed here.
pub fn run_fresh_as(uid: u32, cache: &Path, scratch: &Path, prog_file: &Path, from: usize, to: usize, out: &Path) -> Result<Option<Vec<(usize, crate::ops::Out, u128, u128)>>, String> {
    use std::os::unix::fs::PermissionsExt;
    // the driver creates / truncates its output file: it must be allowed to
    std::fs::write(out, b"").map_err(|e| format!("INFRA: {e}"))?;
    let _ = std::fs::set_permissions(out, std::fs::Permissions::from_mode(0o666));
    let mut argv = driver_cmd(cache, scratch, prog_file, from, to, out);
    argv.pop();
    let probe = Command::new("setpriv").args([&format!("--reuid={uid}"), &format!("--regid={uid}"), "--clear-groups", "true"]).stdin(Stdio::null()).stdout(Stdio::null()).stderr(Stdio::null()).status();
    if !probe.map(|s| s.success()).unwrap_or(false) {
        return Ok(None);
    }
    let o = Command::new("setpriv")
        .args([&format!("--reuid={uid}"), &format!("--regid={uid}"), "--clear-groups", "--"])
        .args(&argv)
        .stdin(Stdio::null())
        .stdout(Stdio::null())
        .stderr(Stdio::piped())
        .output()
        .map_err(|e| format!("INFRA: cannot run setpriv: {e}"))?;
    if !o.status.success() {
        return Err(format!("driver process (uid {uid}) ended abnormally: {:?} {}", o.status, String::from_utf8_lossy(&o.stderr)));
    }
    read_outs(out).map(Some)
}

pub fn read_outs(out: &Path) -> Result<Vec<(usize, crate::ops::Out, u128, u128)>, String> {
    let text = std::fs::read_to_string(out).unwrap_or_default();
    let mut v = Vec::new();
    for l in text.lines() {
        let j: serde_json::Value = serde_json::from_str(l).map_err(|e| format!("INFRA: bad driver output line: {e}"))?;
        let o: crate::ops::Out = serde_json::from_value(j["out"].clone()).map_err(|e| format!("INFRA: bad driver out: {e}"))?;
        v.push((
            j["i"].as_u64().unwrap_or(0) as usize,
            o,
            j["t0"].as_str().unwrap_or("0").parse().unwrap_or(0),
            j["t1"].as_str().unwrap_or("0").parse().unwrap_or(0),
        ));
    }
    Ok(v)
}
