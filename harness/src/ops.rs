//! The operation language: a generated case is a `Program` whose steps refer to pool
//! entries (keys, blobs) by index so that overwrites, shared content and re-insertion happen.

use crate::blob::{Algo, Blob};
use serde::{Deserialize, Serialize};
use serde_json::Value;

#[derive(Clone, Copy, Debug, Serialize, Deserialize, PartialEq, Eq, Hash, PartialOrd, Ord)]
pub enum Fl {
    Sync,
    Async,
}

/// Names an address by what it is the digest of.
#[derive(Clone, Copy, Debug, Serialize, Deserialize, PartialEq, Eq, Hash)]
pub struct AddrRef {
    pub algo: Algo,
    pub blob: usize,
}

#[derive(Clone, Copy, Debug, Serialize, Deserialize, PartialEq, Eq, Hash)]
pub enum By {
    Key(usize),
    Addr(AddrRef),
}

#[derive(Clone, Copy, Debug, Serialize, Deserialize, PartialEq, Eq, Hash)]
pub enum Declare {
    None,
    Exact,
    /// declared = len + d (saturating at 0)
    Off(i64),
}

#[derive(Clone, Copy, Debug, Serialize, Deserialize, PartialEq, Eq, Hash)]
pub enum IntegDecl {
    None,
    /// digest of the data under the writer's algorithm
    Correct,
    /// same algorithm, one bit of the digest flipped
    WrongDigest,
    /// correct digest of the data but under another algorithm only
    OtherAlgoCorrect,
    /// several hashes, one of which is the correct one for the writer's algorithm
    MultiWithCorrect,
    /// several hashes of the writer's algorithm, all wrong
    MultiAllWrong,
    /// two correct hashes: one under the writer's algorithm and one under another algorithm
    MultiTwoAlgos,
    /// the (correct) digest of ANOTHER value of the pool under the writer's algorithm — an
    /// address that may well exist in the cache
    DigestOfOtherBlob,
    /// the correct digest with the LAST byte changed (everything before it is right)
    WrongTail,
    /// the correct digest's base64 text with the case of its first letter toggled (still
    /// well-formed base64 of the right length, but other bytes)
    CaseToggled,
    /// the correct hash under the writer's algorithm plus, under a WEAKER algorithm, the hash of
    /// another value of the pool: the strongest algorithm decides (for the path and for every
    /// verification), the weaker hash is noise
    MultiWeakerOfOther,
    /// the correct hash under the writer's algorithm plus, under a STRONGER algorithm, the hash
    /// of another value of the pool: the commit is accepted (the writer's algorithm matches),
    /// the entry then resolves through the stronger hash — to content that is not this data
    MultiStrongerOfOther,
    /// an integrity value without any hash: nothing can satisfy it
    NoHashes,
    /// three correct hashes (SHA-1, SHA-256, SHA-512 and the writer's algorithm if it is none of
    /// these), weakest first
    MultiThree,
    /// three hashes of the writer's algorithm: wrong, RIGHT, wrong (any match counts)
    MultiRightInTheMiddle,
    /// the correct hash under the writer's algorithm preceded by the correct hash of the SAME data
    /// under a weaker algorithm (the strongest decides; the data may be stored under both)
    MultiWeakerOfSame,
}

/// Something another process does to the cache between a writer's last chunk and its commit.
#[derive(Clone, Copy, Debug, Default, Serialize, Deserialize, PartialEq, Eq, Hash)]
pub enum Interfere {
    #[default]
    None,
    /// `clear_sync` of the whole cache (removes the writer's temp file and directory)
    Clear,
    /// the temp directory is removed
    RemoveTmp,
    /// the content area is removed
    RemoveContentArea,
    /// keyed writers: the writer's own key is removed fully (`RemoveOpts::remove_fully(true)`)
    /// by the same process between the last chunk and the commit. Deterministic and judged:
    /// the result is `Out::Pair(result of the removal, result of the commit)`, and the commit
    /// is the most recent event for the key
    RemoveKeyFully,
    /// the same with a plain `remove` (a removal record)
    RemoveKey,
}

/// Which public entry point performs the write.
#[derive(Clone, Copy, Debug, Serialize, Deserialize, PartialEq, Eq, Hash)]
pub enum WEntry {
    /// `write` / `write_hash` (+`_sync`); SHA-256 only
    OneShot,
    /// `write_with_algo` / `write_hash_with_algo` (+`_sync`)
    OneShotAlgo,
    /// `Writer::create` / `SyncWriter::create` (keyed, SHA-256 only), streamed
    Create,
    /// `Writer::create_with_algo` / `SyncWriter::create_with_algo` (keyed), streamed
    CreateAlgo,
    /// `WriteOpts::…::open*`, streamed; the only entry that takes options
    Opts,
}

#[derive(Clone, Debug, Serialize, Deserialize, PartialEq)]
pub struct WriteSpec {
    /// `None` = by address (`write_hash*`, `open_hash*`)
    pub key: Option<usize>,
    pub blob: usize,
    pub algo: Algo,
    pub entry: WEntry,
    /// chunk lengths for streamed entries; the data is cut sequentially, a remainder forms
    /// a last chunk; a 0 is an empty `write` call; empty list = one chunk
    pub chunks: Vec<usize>,
    pub declare: Declare,
    pub integ: IntegDecl,
    /// as decimal text (u128 does not fit a JSON number in serde_json::Value)
    pub time: Option<String>,
    pub metadata: Option<Value>,
    pub raw_metadata: Option<Vec<u8>>,
    pub flush: bool,
    /// milliseconds to wait between the last chunk and commit (streamed entries)
    #[serde(default)]
    pub pause_ms: u8,
    #[serde(default)]
    pub interfere: Interfere,
    /// 0 = plain `write` calls; n > 0 = every chunk is handed over through `write_vectored`
    /// as up to n slices
    #[serde(default)]
    pub vectored: u16,
    /// async only: the write of this chunk is polled once and its future dropped (a timeout
    /// would do that); the same chunk is then written again from its start, which the library
    /// treats as the continuation of the cancelled write
    #[serde(default)]
    pub cancel_chunk: Option<u8>,
    /// streamed writes only: before the commit every file in `<cache>/tmp` is back-dated by
    /// this many hours — negative: dated that far in the future (a clock that was stepped back,
    /// a restored cache) — and another writer stores
    /// the pool's next value by address on the same cache; the commit must succeed as usual
    #[serde(default)]
    pub aged_hours: i32,
    /// options are set twice on the builder, a decoy value first (the last call wins)
    #[serde(default)]
    pub decoy_opts: bool,
    /// streamed writes in single-threaded driver processes only: the working directory changes
    /// (to `<scratch>/cwd/d<n>`) between the last chunk and the commit
    #[serde(default)]
    pub chdir_mid: Option<usize>,
    /// streamed writes: while this writer is open, this many other writers are created and
    /// dropped (or committed with one byte) on the same cache — a long-lived process
    #[serde(default)]
    pub churn: u32,
    /// streamed writes: this many other size-declared writers (by address, the pool's next
    /// value) are OPEN while this writer is created, written and committed; they commit after it
    #[serde(default)]
    pub crowd: u16,
}

impl WriteSpec {
    pub fn simple(key: Option<usize>, blob: usize) -> WriteSpec {
        WriteSpec {
            key,
            blob,
            algo: Algo::Sha256,
            entry: WEntry::OneShot,
            chunks: vec![],
            declare: Declare::None,
            integ: IntegDecl::None,
            time: None,
            metadata: None,
            raw_metadata: None,
            flush: false,
            pause_ms: 0,
            interfere: Interfere::None,
            vectored: 0,
            cancel_chunk: None,
            aged_hours: 0,
            decoy_opts: false,
            chdir_mid: None,
            churn: 0,
            crowd: 0,
        }
    }
    pub fn streamed(&self) -> bool {
        matches!(self.entry, WEntry::Create | WEntry::CreateAlgo | WEntry::Opts)
    }
    pub fn time_u128(&self) -> Option<u128> {
        self.time.as_ref().map(|t| t.parse().unwrap())
    }
}

#[derive(Clone, Copy, Debug, Serialize, Deserialize, PartialEq, Eq, Hash)]
pub enum XKind {
    Copy,
    HardLink,
    Reflink,
}

#[derive(Clone, Copy, Debug, Serialize, Deserialize, PartialEq, Eq, Hash)]
pub enum Dest {
    Absent,
    /// a regular file with known bytes already sits at the destination
    Existing,
    /// an absent path on a different filesystem than the cache (hard links cannot cross it)
    OtherFs,
    /// an absent path whose file name is 255 bytes long (the longest legal name)
    LongName,
    /// an absent path next to files named `<dest>.tmp`, `<dest>.partial`, `<dest>~` and
    /// `.<dest>.swp`, which belong to somebody else and must stay as they are
    WithSiblings,
    /// an existing path that is a hard link of the entry's own content file (the user hard-linked
    /// the entry out earlier and now asks for it at the same path again); like `Absent` when the
    /// content is not a regular file
    LinkOfContent,
    /// an existing regular file that holds the entry's bytes followed by more (an older, longer
    /// version of the same thing); like `Existing` when the content is not a regular file
    ExistingSuperset,
    /// an existing symbolic link that resolves to the entry's own content file
    SymlinkToContent,
    /// an existing (empty) directory: nothing can be extracted onto it
    Directory,
    /// an existing regular file of exactly the entry's length holding other bytes (`#`...);
    /// like `Existing` when the content is not a regular file
    ExistingSameLength,
}

/// Where a writer is abandoned (C14).
#[derive(Clone, Copy, Debug, Serialize, Deserialize, PartialEq, Eq, Hash)]
pub enum AbandonAt {
    /// after `n` chunks have been fully accepted (0 = right after creation)
    AfterChunks(usize),
    /// async only: poll the write of chunk `n` once with a no-op waker, then drop
    MidFlight(usize),
    /// all chunks, then flush, then drop
    AfterFlush,
    /// async only: the write of chunk `n` is polled once and its future dropped (a timeout or
    /// `select!` would do that), then `commit()` is called. What the commit returns is not
    /// judged (the cancelled chunk may or may not count) — it must return.
    CancelThenCommit(usize),
    /// async only: all chunks, then the stream is shut down (`close()` / `shutdown()`), then
    /// the writer is dropped without `commit()` (sync: like `AfterFlush`)
    AfterShutdown,
    /// async only: all chunks, then the `commit()` future is polled `n` times (>= 1, no-op waker,
    /// a short pause between polls) and dropped if it is still pending — a commit cancelled in
    /// flight by a timeout or `select!`. Undecided like a crash: the entry is the old or the
    /// new one, the content is there or not — but nothing that was valid before is taken away.
    /// If the commit completes within the polls it is an ordinary commit. (sync: dropped
    /// without commit)
    CommitDropped(u8),
}

/// Damage applied to a content file from outside (harness-side).
#[derive(Clone, Debug, Serialize, Deserialize, PartialEq, Eq, Hash)]
pub enum CDamage {
    FlipBit(usize),
    Truncate(usize),
    Extend(Vec<u8>),
    Empty,
    /// overwrite `len` bytes at `off` (clipped) with bytes derived from salt
    Garbage { off: usize, len: usize, salt: u64 },
    /// replace with different random bytes of the given length
    Replace { len: usize, salt: u64 },
    /// replace with the bytes of another blob of the pool
    OtherBlob(usize),
    /// swap with the content file of another address
    SwapWith(AddrRef),
    /// replace by a symlink to a regular file holding the bytes of another blob
    SymlinkToBlob(usize),
    SymlinkDangling,
    SymlinkToDir,
    Delete,
}

/// Damage applied to a bucket file.
#[derive(Clone, Debug, Serialize, Deserialize, PartialEq, Eq, Hash)]
pub enum BDamage {
    CutAt(usize),
    FlipBit(usize),
    /// overwrite a range
    Overwrite { off: usize, bytes: Vec<u8> },
    /// append a line (a leading LF is added) of garbage
    AppendLine(Vec<u8>),
    /// insert garbage line before the record starting at the n-th LF
    InsertLine { at_record: usize, bytes: Vec<u8> },
    DuplicateRange { off: usize, len: usize },
    /// remove the n-th LF (fuses two records)
    StripNewline(usize),
    /// append raw bytes without adding a separator (torn tail)
    AppendRaw(Vec<u8>),
    /// append, as a line of its own, a copy of the file's bytes from offset `off` up to the
    /// next LF (a duplicated fragment starting anywhere inside a record)
    AppendLineFrom(usize),
    /// the bucket file is replaced by a directory (every read of it fails)
    BecomeDir,
    /// a CR is inserted before the n-th LF (the line before it becomes CRLF-terminated, which
    /// line readers strip: its record stays valid)
    CrBeforeLf(usize),
    /// `total` bytes of garbage lines of `line` bytes each (invalid UTF-8 included) are
    /// appended behind the records: a long damaged tail
    GarbageTail { total: usize, line: usize, salt: u64 },
    /// the bucket file is replaced by a symbolic link to a copy of itself (a symlink farm of a
    /// cache, as `cp -rs` or a sandbox makes): nothing about its records changes
    BecomeSymlink,
}

#[derive(Clone, Debug, Serialize, Deserialize, PartialEq)]
pub struct IdxFields {
    /// SRI string; `None` inserts a tombstone-shaped record
    pub integrity: Option<AddrRef>,
    pub size: Option<usize>,
    pub time: Option<String>,
    pub metadata: Option<Value>,
    pub raw_metadata: Option<Vec<u8>>,
}

#[derive(Clone, Debug, Serialize, Deserialize, PartialEq)]
pub struct LinkSpec {
    pub key: Option<usize>,
    /// target file content
    pub blob: usize,
    /// target file name index (distinct files)
    pub target: usize,
    pub relative: bool,
    pub algo: Algo,
    /// true: `link_to*` one-shot functions; false: `WriteOpts::link_to*` + reads + commit
    pub oneshot: bool,
    /// bytes to read through the linker before commit (buffer sizes), opts entry only
    pub pre_reads: Vec<usize>,
    pub declare: Declare,
    pub integ: IntegDecl,
    /// relative targets only: spell the path as `s/../../<relative path>` where `s` is a
    /// symlink (in the working directory) to a directory two levels below it
    #[serde(default)]
    pub dotdot_via_symlink: bool,
    /// partial reads before commit go through `read_vectored` with two buffers (sync only)
    #[serde(default)]
    pub vectored_reads: bool,
}

#[derive(Clone, Debug, Serialize, Deserialize, PartialEq)]
pub enum Op {
    Write(WriteSpec),
    Read { key: usize },
    ReadHash { addr: AddrRef },
    /// `Reader`/`SyncReader` with the given buffer sizes (cycled), then `check`
    Stream { by: By, bufs: Vec<usize> },
    Meta { key: usize },
    Exists { addr: AddrRef },
    List,
    Extract { kind: XKind, checked: bool, by: By, dest: Dest },
    Remove { key: usize },
    RemoveHash { addr: AddrRef },
    RemoveOpts { key: usize, fully: bool },
    Clear,
    IdxInsert { key: usize, fields: IdxFields },
    IdxFind { key: usize },
    IdxDelete { key: usize },
    IdxLs,
    LinkTo(LinkSpec),
    Abandon { spec: WriteSpec, at: AbandonAt },
    DamageContent { addr: AddrRef, dmg: CDamage },
    DamageBucket { key: usize, dmg: BDamage },
    /// append a reference-encoded record for `key` into the bucket file of `bucket_of`
    ForeignRecord { bucket_of: usize, key: usize, addr: AddrRef },
    /// harness-side, driver processes only: change the working directory to `<scratch>/cwd/d<dir>`
    Chdir { dir: usize },
    /// harness-side: `<cache>/tmp` becomes a symlink to a directory on another filesystem (a
    /// legal layout in which the temp file cannot be renamed into the content area)
    TmpElsewhere,
    /// a removal record (integrity null) for `key`, written by the reference writer into the
    /// bucket file of `bucket_of` (harness-side; foreign when the keys differ)
    ForeignTombstone { bucket_of: usize, key: usize },
    /// every file in the cache gets a modification time `days` in the past (harness-side: the
    /// cache has aged; nothing about the entries changes)
    AgeCache { days: u32 },
    /// `remove_hash` with a two-hash integrity: the address of `addr` plus the hash of blob
    /// `also` under a weaker algorithm; only what the address resolves to may go
    RemoveHashMulti { addr: AddrRef, also: usize },
    /// the cache path is a symbolic link: it is re-pointed to a fresh empty directory (the
    /// `current -> releases/N` layout); answers come from where the path leads NOW
    SwitchCache,
    /// the user deletes the file `target_<n>` that earlier `link_to` calls linked (harness-side);
    /// whatever the cache does later, that file does not come back
    RemoveTarget { target: usize },
    /// two streaming writers of one process open at the same time. `plan` 0: both opened, chunks
    /// written alternately, commit a, commit b; 1: the same, commit b first; 2: a opened and
    /// written completely, b opened, a committed, b written and committed; 3: a opened, its
    /// first chunk written, b opened, written and committed, rest of a written, a committed
    TwoWriters { a: WriteSpec, b: WriteSpec, plan: u8 },
    /// harness-side: append a checksum-valid record for `key` (in its own bucket) whose
    /// integrity text is arbitrary — a state no well-formed call produces; lookups of that key
    /// are then judged by agreement (listing vs lookup, flavour vs flavour), not by the model
    PlantRecord { key: usize, integrity: Option<String>, time: u64 },
}

impl Op {
    pub fn is_harness_side(&self) -> bool {
        matches!(self, Op::DamageContent { .. } | Op::DamageBucket { .. } | Op::ForeignRecord { .. } | Op::Chdir { .. } | Op::PlantRecord { .. } | Op::TmpElsewhere | Op::RemoveTarget { .. } | Op::SwitchCache | Op::AgeCache { .. } | Op::ForeignTombstone { .. })
    }
    pub fn name(&self) -> &'static str {
        match self {
            Op::Write(_) => "write",
            Op::Read { .. } => "read",
            Op::ReadHash { .. } => "read_hash",
            Op::Stream { .. } => "stream",
            Op::Meta { .. } => "metadata",
            Op::Exists { .. } => "exists",
            Op::List => "list",
            Op::Extract { .. } => "extract",
            Op::Remove { .. } => "remove",
            Op::RemoveHash { .. } => "remove_hash",
            Op::RemoveOpts { .. } => "remove_opts",
            Op::Clear => "clear",
            Op::IdxInsert { .. } => "index_insert",
            Op::IdxFind { .. } => "index_find",
            Op::IdxDelete { .. } => "index_delete",
            Op::IdxLs => "index_ls",
            Op::LinkTo(_) => "link_to",
            Op::Abandon { .. } => "abandon",
            Op::DamageContent { .. } => "damage_content",
            Op::DamageBucket { .. } => "damage_bucket",
            Op::ForeignRecord { .. } => "foreign_record",
            Op::Chdir { .. } => "chdir",
            Op::PlantRecord { .. } => "plant_record",
            Op::TmpElsewhere => "tmp_elsewhere",
            Op::RemoveTarget { .. } => "remove_target",
            Op::RemoveHashMulti { .. } => "remove_hash",
            Op::SwitchCache => "switch_cache",
            Op::AgeCache { .. } => "age_cache",
            Op::ForeignTombstone { .. } => "foreign_tombstone",
            Op::TwoWriters { .. } => "two_writers",
        }
    }
}

#[derive(Clone, Debug, Serialize, Deserialize, PartialEq)]
pub struct Step {
    pub op: Op,
    pub fl: Fl,
}

#[derive(Clone, Debug, Serialize, Deserialize, PartialEq)]
pub struct Program {
    pub keys: Vec<String>,
    pub blobs: Vec<Blob>,
    pub steps: Vec<Step>,
}

/// Normalised index entry as observed through the API.
#[derive(Clone, Debug, Serialize, Deserialize, PartialEq)]
pub struct MetaNorm {
    pub key: String,
    pub integrity: String,
    /// decimal text of the u128
    pub time: String,
    pub size: u64,
    pub metadata: Value,
    pub raw_metadata: Option<Vec<u8>>,
}

#[derive(Clone, Debug, Serialize, Deserialize, PartialEq)]
pub enum ErrKind {
    EntryNotFound,
    SizeMismatch(u64, u64),
    Integrity,
    Io { not_found: bool },
    Serde,
}

/// Normalised result of one step.
#[derive(Clone, Debug, Serialize, Deserialize, PartialEq)]
pub enum Out {
    /// an SRI string
    Int(String),
    /// (length, lowercase hex SHA-256) of delivered bytes
    Bytes(u64, String),
    Meta(Option<MetaNorm>),
    Bool(bool),
    /// listing: entries sorted by key, number of `Err` items
    List(Vec<MetaNorm>, u32),
    /// extraction: returned count (copies) and what the destination holds afterwards
    Extracted { count: Option<u64>, dest: DestState },
    Unit,
    Err(ErrKind, String),
    /// extraction failed; what the destination holds afterwards
    ExtractErr { kind: ErrKind, dest: DestState, msg: String },
    Panic(String),
    Hang,
    /// harness-side step
    Done,
    /// results of the two writers of `Op::TwoWriters` (a, b)
    Pair(Box<Out>, Box<Out>),
}

#[derive(Clone, Debug, Serialize, Deserialize, PartialEq)]
pub enum DestState {
    Absent,
    /// (length, sha256 hex)
    File(u64, String),
    Other,
}

impl Out {
    pub fn is_panic(&self) -> bool {
        match self {
            Out::Pair(a, b) => a.is_panic() || b.is_panic(),
            o => matches!(o, Out::Panic(_) | Out::Hang),
        }
    }
    pub fn is_err(&self) -> bool {
        matches!(self, Out::Err(..) | Out::ExtractErr { .. })
    }
    pub fn short(&self) -> String {
        let s = format!("{:?}", self);
        if s.len() > 300 {
            format!("{}…", &s[..s.char_indices().take_while(|(i, _)| *i < 300).last().map(|(i, _)| i).unwrap_or(0)])
        } else {
            s
        }
    }
}
