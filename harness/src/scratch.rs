//! Fresh scratch directories for caches (tmpfs by default), removed on drop and on exit.

use std::path::{Path, PathBuf};
use std::sync::atomic::{AtomicU64, Ordering};

static N: AtomicU64 = AtomicU64::new(0);

pub fn base_dir() -> PathBuf {
    let root = std::env::var("CVH_SCRATCH").unwrap_or_else(|_| "/dev/shm".to_string());
    PathBuf::from(root).join(format!("cvh.{}", std::process::id()))
}

/// `<base>/<n>/cache` (the cache root, pre-created) and `<base>/<n>/scratch`.
pub struct Scratch {
    pub root: PathBuf,
    pub cache: PathBuf,
    pub scratch: PathBuf,
}

impl Scratch {
    pub fn new() -> Scratch {
        Self::new_in(&base_dir())
    }
    pub fn new_in(base: &Path) -> Scratch {
        let n = N.fetch_add(1, Ordering::SeqCst);
        let root = base.join(n.to_string());
        let cache = root.join("cache");
        let scratch = root.join("scratch");
        std::fs::create_dir_all(&cache).expect("create scratch cache dir");
        std::fs::create_dir_all(&scratch).expect("create scratch dir");
        Scratch { root, cache, scratch }
    }
    /// The cache directory spelled differently (same directory): trailing slash, through a
    /// symlink, with dot segments, under a non-ASCII name. `sel` picks the spelling.
    pub fn cache_alias(&self, sel: u64) -> PathBuf {
        match sel % 8 {
            5 => {
                // a path that is not valid UTF-8
                use std::os::unix::ffi::OsStrExt;
                let link = self.root.join(std::ffi::OsStr::from_bytes(b"cache-\xff\xfe-link"));
                if std::fs::symlink_metadata(&link).is_err() {
                    let _ = std::os::unix::fs::symlink(&self.cache, &link);
                }
                link
            }
            1 => PathBuf::from(format!("{}/", self.cache.display())),
            2 => {
                let link = self.root.join("link-to-cache");
                if std::fs::symlink_metadata(&link).is_err() {
                    let _ = std::os::unix::fs::symlink(&self.cache, &link);
                }
                link
            }
            3 => self.cache.join("..").join("cache").join("."),
            4 => {
                let link = self.root.join("кэш 缓存 dir");
                if std::fs::symlink_metadata(&link).is_err() {
                    let _ = std::os::unix::fs::symlink(&self.cache, &link);
                }
                link
            }
            6 => {
                // a symlink followed by `..`: `<root>/alias_sub/ld` -> `<root>/cache`, so for
                // the kernel `ld/..` is `<root>` (cancelling `ld/..` textually gives
                // `<root>/alias_sub/cache`, which does not exist)
                let sub = self.root.join("alias_sub");
                let _ = std::fs::create_dir_all(&sub);
                let link = sub.join("ld");
                if std::fs::symlink_metadata(&link).is_err() {
                    let _ = std::os::unix::fs::symlink(&self.cache, &link);
                }
                link.join("..").join("cache")
            }
            _ => self.cache.clone(),
        }
    }

    /// Empties and re-creates the directories (cheaper than a new one per case).
    pub fn reset(&self) {
        // alias links may have been re-pointed by a case: they are made afresh on demand
        use std::os::unix::ffi::OsStrExt;
        for name in [std::ffi::OsStr::from_bytes(b"cache-\xff\xfe-link"), std::ffi::OsStr::new("link-to-cache"), std::ffi::OsStr::new("кэш 缓存 dir")] {
            let _ = std::fs::remove_file(self.root.join(name));
        }
        let _ = std::fs::remove_dir_all(self.root.join("alias_sub"));
        let _ = std::fs::remove_dir_all(&self.cache);
        let _ = std::fs::remove_dir_all(&self.scratch);
        std::fs::create_dir_all(&self.cache).expect("create scratch cache dir");
        std::fs::create_dir_all(&self.scratch).expect("create scratch dir");
    }
}

impl Default for Scratch {
    fn default() -> Self {
        Scratch::new()
    }
}

impl Drop for Scratch {
    fn drop(&mut self) {
        let _ = std::fs::remove_dir_all(&self.root);
    }
}

pub fn cleanup_all() {
    let _ = std::fs::remove_dir_all(base_dir());
    for root in ["/var/tmp", "/dev/shm"] {
        let _ = std::fs::remove_dir_all(PathBuf::from(root).join(format!("cvh-x.{}", std::process::id())));
    }
}
