//! cvh — cacache verification harness (property-based testing and fuzzing).
pub mod blob;
pub mod damage;
pub mod engine;
pub mod exec;
pub mod gen;
pub mod model;
pub mod ops;
pub mod reffmt;
pub mod rt;
pub mod scratch;

use engine::{drive, Args};

/// Dispatches a property id to its engine.
pub fn run_property(id: &str, args: &Args) -> i32 {
    match id {
        "C05" => drive(&engine::c05::C05, args),
        _ => {
            println!("unknown property {id}");
            2
        }
    }
}
