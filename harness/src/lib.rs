//! cvh — cacache verification harness (property-based testing and fuzzing).
pub mod blob;
pub mod crash;
pub mod damage;
pub mod engine;
pub mod exec;
pub mod gen;
pub mod model;
pub mod ops;
pub mod ptrun;
pub mod reffmt;
pub mod rt;
pub mod scratch;
pub mod sup;

use engine::{drive, Args};

/// Dispatches a property id to its engine.
pub fn run_property(id: &str, args: &Args) -> i32 {
    match id {
        "C01" => drive(&engine::c01::C01, args),
        "C02" => drive(&engine::props_write::c02(), args),
        "C03" => drive(&engine::c03::C03, args),
        "C04" => drive(&engine::c04::C04, args),
        "C05" => drive(&engine::c05::C05, args),
        "C06" => drive(&engine::c06::C06, args),
        "C07" => drive(&engine::c07::C07, args),
        "C08" => drive(&engine::props_write::c08(), args),
        "C09" => drive(&engine::c09::C09, args),
        "C10" => drive(&engine::c10::C10, args),
        "C11" => drive(&engine::props_write::c11(), args),
        "C12" => drive(&engine::c12::C12, args),
        "C13" => drive(&engine::c13::C13, args),
        "C14" => drive(&engine::props_misc::c14_engine(), args),
        "C15" => drive(&engine::c15::C15, args),
        "C16" => drive(&engine::props_write::c16(), args),
        "C17" => drive(&engine::c17::C17, args),
        "C18" => drive(&engine::props_damage::c18(), args),
        "C19" => drive(&engine::c19::C19, args),
        "C20" => drive(&engine::c20::C20, args),
        _ => {
            println!("unknown property {id}");
            2
        }
    }
}
