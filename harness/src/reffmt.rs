//! Independent reference implementation of the cacache on-disk format, written from the
//! statement of property C17 (not from `src/index.rs`): bucket path = SHA-1 of the key split
//! 2/2/rest under `index-v5`; record = LF + lowercase hex SHA-256 of the JSON text + TAB +
//! one-line JSON object with fields key, integrity, time, size, metadata, raw_metadata;
//! content path = `content-v2/<algo>/<hex 2/2/rest>`.
//!
//! It uses its own strict JSON parser (numbers are kept as text so that 128-bit timestamps
//! survive), not `serde_json`, which is what the library under test uses.

use crate::blob::{hexs, Algo};
use sha1::Digest as _;
use std::path::{Path, PathBuf};

#[derive(Clone, Debug, PartialEq)]
pub enum Json {
    Null,
    Bool(bool),
    /// raw number text as it appeared
    Num(String),
    Str(String),
    Arr(Vec<Json>),
    Obj(Vec<(String, Json)>),
}

struct P<'a> {
    s: &'a [u8],
    i: usize,
    depth: usize,
}

impl<'a> P<'a> {
    fn ws(&mut self) {
        while self.i < self.s.len() && matches!(self.s[self.i], b' ' | b'\t' | b'\n' | b'\r') {
            self.i += 1;
        }
    }
    fn eat(&mut self, c: u8) -> Option<()> {
        if self.s.get(self.i) == Some(&c) {
            self.i += 1;
            Some(())
        } else {
            None
        }
    }
    fn lit(&mut self, l: &[u8]) -> Option<()> {
        if self.s[self.i..].starts_with(l) {
            self.i += l.len();
            Some(())
        } else {
            None
        }
    }
    fn value(&mut self) -> Option<Json> {
        self.ws();
        if self.depth > 100 {
            return None;
        }
        match *self.s.get(self.i)? {
            b'n' => self.lit(b"null").map(|_| Json::Null),
            b't' => self.lit(b"true").map(|_| Json::Bool(true)),
            b'f' => self.lit(b"false").map(|_| Json::Bool(false)),
            b'"' => self.string().map(Json::Str),
            b'[' => {
                self.i += 1;
                self.depth += 1;
                let mut v = Vec::new();
                self.ws();
                if self.eat(b']').is_some() {
                    self.depth -= 1;
                    return Some(Json::Arr(v));
                }
                loop {
                    v.push(self.value()?);
                    self.ws();
                    if self.eat(b',').is_some() {
                        continue;
                    }
                    self.eat(b']')?;
                    self.depth -= 1;
                    return Some(Json::Arr(v));
                }
            }
            b'{' => {
                self.i += 1;
                self.depth += 1;
                let mut v = Vec::new();
                self.ws();
                if self.eat(b'}').is_some() {
                    self.depth -= 1;
                    return Some(Json::Obj(v));
                }
                loop {
                    self.ws();
                    let k = self.string()?;
                    self.ws();
                    self.eat(b':')?;
                    let val = self.value()?;
                    v.push((k, val));
                    self.ws();
                    if self.eat(b',').is_some() {
                        continue;
                    }
                    self.eat(b'}')?;
                    self.depth -= 1;
                    return Some(Json::Obj(v));
                }
            }
            b'-' | b'0'..=b'9' => self.number(),
            _ => None,
        }
    }
    fn number(&mut self) -> Option<Json> {
        let st = self.i;
        let _ = self.eat(b'-');
        match *self.s.get(self.i)? {
            b'0' => self.i += 1,
            b'1'..=b'9' => {
                while self.i < self.s.len() && self.s[self.i].is_ascii_digit() {
                    self.i += 1;
                }
            }
            _ => return None,
        }
        if self.s.get(self.i) == Some(&b'.') {
            self.i += 1;
            let d = self.i;
            while self.i < self.s.len() && self.s[self.i].is_ascii_digit() {
                self.i += 1;
            }
            if d == self.i {
                return None;
            }
        }
        if matches!(self.s.get(self.i), Some(b'e') | Some(b'E')) {
            self.i += 1;
            if matches!(self.s.get(self.i), Some(b'+') | Some(b'-')) {
                self.i += 1;
            }
            let d = self.i;
            while self.i < self.s.len() && self.s[self.i].is_ascii_digit() {
                self.i += 1;
            }
            if d == self.i {
                return None;
            }
        }
        Some(Json::Num(String::from_utf8(self.s[st..self.i].to_vec()).ok()?))
    }
    fn hex4(&mut self) -> Option<u32> {
        let h = self.s.get(self.i..self.i + 4)?;
        let t = std::str::from_utf8(h).ok()?;
        if !t.bytes().all(|b| b.is_ascii_hexdigit()) {
            return None;
        }
        self.i += 4;
        u32::from_str_radix(t, 16).ok()
    }
    fn string(&mut self) -> Option<String> {
        self.eat(b'"')?;
        let mut out: Vec<u8> = Vec::new();
        loop {
            let c = *self.s.get(self.i)?;
            self.i += 1;
            match c {
                b'"' => return String::from_utf8(out).ok(),
                b'\\' => {
                    let e = *self.s.get(self.i)?;
                    self.i += 1;
                    match e {
                        b'"' => out.push(b'"'),
                        b'\\' => out.push(b'\\'),
                        b'/' => out.push(b'/'),
                        b'b' => out.push(8),
                        b'f' => out.push(12),
                        b'n' => out.push(b'\n'),
                        b'r' => out.push(b'\r'),
                        b't' => out.push(b'\t'),
                        b'u' => {
                            let mut cp = self.hex4()?;
                            if (0xD800..0xDC00).contains(&cp) {
                                self.lit(b"\\u")?;
                                let lo = self.hex4()?;
                                if !(0xDC00..0xE000).contains(&lo) {
                                    return None;
                                }
                                cp = 0x10000 + ((cp - 0xD800) << 10) + (lo - 0xDC00);
                            } else if (0xDC00..0xE000).contains(&cp) {
                                return None;
                            }
                            let ch = char::from_u32(cp)?;
                            let mut b = [0u8; 4];
                            out.extend_from_slice(ch.encode_utf8(&mut b).as_bytes());
                        }
                        _ => return None,
                    }
                }
                0..=0x1f => return None,
                _ => out.push(c),
            }
        }
    }
}

pub fn parse_json(text: &str) -> Option<Json> {
    let mut p = P { s: text.as_bytes(), i: 0, depth: 0 };
    let v = p.value()?;
    p.ws();
    if p.i == p.s.len() {
        Some(v)
    } else {
        None
    }
}

pub fn json_str(s: &str, ascii: bool, out: &mut String) {
    out.push('"');
    for c in s.chars() {
        match c {
            '"' => out.push_str("\\\""),
            '\\' => out.push_str("\\\\"),
            '\n' => out.push_str("\\n"),
            '\r' => out.push_str("\\r"),
            '\t' => out.push_str("\\t"),
            c if (c as u32) < 0x20 => out.push_str(&format!("\\u{:04x}", c as u32)),
            c if ascii && (c as u32) > 0x7e => {
                let mut b = [0u16; 2];
                for u in c.encode_utf16(&mut b) {
                    out.push_str(&format!("\\u{:04x}", u));
                }
            }
            c => out.push(c),
        }
    }
    out.push('"');
}

impl Json {
    pub fn emit(&self, ascii: bool, out: &mut String) {
        match self {
            Json::Null => out.push_str("null"),
            Json::Bool(b) => out.push_str(if *b { "true" } else { "false" }),
            Json::Num(n) => out.push_str(n),
            Json::Str(s) => json_str(s, ascii, out),
            Json::Arr(v) => {
                out.push('[');
                for (i, x) in v.iter().enumerate() {
                    if i > 0 {
                        out.push(',');
                    }
                    x.emit(ascii, out);
                }
                out.push(']');
            }
            Json::Obj(v) => {
                out.push('{');
                for (i, (k, x)) in v.iter().enumerate() {
                    if i > 0 {
                        out.push(',');
                    }
                    json_str(k, ascii, out);
                    out.push(':');
                    x.emit(ascii, out);
                }
                out.push('}');
            }
        }
    }
    pub fn get(&self, k: &str) -> Option<&Json> {
        match self {
            Json::Obj(v) => v.iter().find(|(kk, _)| kk == k).map(|(_, v)| v),
            _ => None,
        }
    }
    /// Conversion from the `serde_json::Value` the harness generates / the library returns.
    pub fn from_value(v: &serde_json::Value) -> Json {
        match v {
            serde_json::Value::Null => Json::Null,
            serde_json::Value::Bool(b) => Json::Bool(*b),
            serde_json::Value::Number(n) => Json::Num(n.to_string()),
            serde_json::Value::String(s) => Json::Str(s.clone()),
            serde_json::Value::Array(a) => Json::Arr(a.iter().map(Json::from_value).collect()),
            serde_json::Value::Object(o) => {
                Json::Obj(o.iter().map(|(k, v)| (k.clone(), Json::from_value(v))).collect())
            }
        }
    }
    /// Semantic equality: objects compared as maps (last duplicate wins is not accepted:
    /// duplicates make values unequal), numbers compared as integers when both are integer
    /// texts and as binary64 otherwise.
    pub fn sem_eq(&self, other: &Json) -> bool {
        match (self, other) {
            (Json::Num(a), Json::Num(b)) => num_eq(a, b),
            (Json::Arr(a), Json::Arr(b)) => a.len() == b.len() && a.iter().zip(b).all(|(x, y)| x.sem_eq(y)),
            (Json::Obj(a), Json::Obj(b)) => {
                a.len() == b.len()
                    && a.iter().all(|(k, v)| {
                        let mut it = b.iter().filter(|(kk, _)| kk == k);
                        match (it.next(), it.next()) {
                            (Some((_, w)), None) => v.sem_eq(w),
                            _ => false,
                        }
                    })
            }
            (a, b) => a == b,
        }
    }
}

fn is_int_text(s: &str) -> bool {
    let t = s.strip_prefix('-').unwrap_or(s);
    !t.is_empty() && t.bytes().all(|b| b.is_ascii_digit())
}

fn num_eq(a: &str, b: &str) -> bool {
    if is_int_text(a) && is_int_text(b) {
        let norm = |s: &str| -> (bool, String) {
            let neg = s.starts_with('-');
            let t = s.trim_start_matches('-').trim_start_matches('0').to_string();
            (neg && !t.is_empty(), t)
        };
        return norm(a) == norm(b);
    }
    match (a.parse::<f64>(), b.parse::<f64>()) {
        (Ok(x), Ok(y)) => x == y,
        _ => false,
    }
}

/// One decoded index record.
#[derive(Clone, Debug, PartialEq)]
pub struct Rec {
    pub key: String,
    /// `None` is a tombstone
    pub integrity: Option<String>,
    pub time: u128,
    pub size: u128,
    pub metadata: Json,
    pub raw_metadata: Option<Vec<u8>>,
}

pub fn sha1_hex(data: &[u8]) -> String {
    hexs(&sha1::Sha1::digest(data))
}
pub fn sha256_hex(data: &[u8]) -> String {
    hexs(&sha2::Sha256::digest(data))
}

pub fn bucket_rel(key: &str) -> String {
    let h = sha1_hex(key.as_bytes());
    format!("index-v5/{}/{}/{}", &h[0..2], &h[2..4], &h[4..])
}
pub fn bucket_path(cache: &Path, key: &str) -> PathBuf {
    cache.join(bucket_rel(key))
}
pub fn content_rel(algo: Algo, hex: &str) -> String {
    format!("content-v2/{}/{}/{}/{}", algo.name(), &hex[0..2], &hex[2..4], &hex[4..])
}
pub fn content_path(cache: &Path, algo: Algo, hex: &str) -> PathBuf {
    cache.join(content_rel(algo, hex))
}

/// Lines as `BufRead::lines` (std, futures and tokio agree): split at LF, a trailing CR of a
/// line is dropped, a final unterminated segment is a line, nothing follows a final LF.
pub fn split_lines(bytes: &[u8]) -> Vec<&[u8]> {
    let mut out = Vec::new();
    let mut st = 0;
    for (i, &b) in bytes.iter().enumerate() {
        if b == b'\n' {
            let mut l = &bytes[st..i];
            if l.last() == Some(&b'\r') {
                l = &l[..l.len() - 1];
            }
            out.push(l);
            st = i + 1;
        }
    }
    if st < bytes.len() {
        out.push(&bytes[st..]);
    }
    out
}

fn num_u128(j: &Json) -> Option<u128> {
    match j {
        Json::Num(s) if is_int_text(s) && !s.starts_with('-') => s.parse::<u128>().ok(),
        _ => None,
    }
}

/// Decodes one line (without its terminator). `None` when the line is not a valid record.
pub fn parse_line(line: &[u8]) -> Option<Rec> {
    let text = std::str::from_utf8(line).ok()?;
    let (h, rest) = text.split_once('\t')?;
    if rest.contains('\t') {
        return None;
    }
    if h.len() != 64 || !h.bytes().all(|b| matches!(b, b'0'..=b'9' | b'a'..=b'f')) {
        return None;
    }
    if sha256_hex(rest.as_bytes()) != h {
        return None;
    }
    let j = parse_json(rest)?;
    let obj = match &j {
        Json::Obj(v) => v,
        _ => return None,
    };
    // no duplicate field names
    for (i, (k, _)) in obj.iter().enumerate() {
        if obj[..i].iter().any(|(kk, _)| kk == k) {
            return None;
        }
    }
    let key = match j.get("key")? {
        Json::Str(s) => s.clone(),
        _ => return None,
    };
    let integrity = match j.get("integrity")? {
        Json::Null => None,
        Json::Str(s) => Some(s.clone()),
        _ => return None,
    };
    let time = num_u128(j.get("time")?)?;
    let size = num_u128(j.get("size")?)?;
    if size > u64::MAX as u128 {
        return None;
    }
    let metadata = j.get("metadata")?.clone();
    let raw_metadata = match j.get("raw_metadata") {
        None | Some(Json::Null) => None,
        Some(Json::Arr(a)) => {
            let mut v = Vec::new();
            for x in a {
                let n = num_u128(x)?;
                if n > 255 {
                    return None;
                }
                v.push(n as u8);
            }
            Some(v)
        }
        _ => return None,
    };
    Some(Rec { key, integrity, time, size, metadata, raw_metadata })
}

/// All valid records of a bucket file, in file order.
pub fn parse_bucket(bytes: &[u8]) -> Vec<Rec> {
    split_lines(bytes).into_iter().filter_map(parse_line).collect()
}

/// The entry a lookup of `key` must return given the bucket bytes (last record wins,
/// tombstone = absent). Records whose integrity string is not a well-formed SRI are not
/// produced by any stated damage class; they are skipped like the library does.
pub fn lookup(bytes: &[u8], key: &str) -> Option<Rec> {
    let mut cur = None;
    for r in parse_bucket(bytes) {
        if r.key == key {
            match &r.integrity {
                None => cur = None,
                Some(s) if crate::blob::sri_address(s).is_some() => cur = Some(r),
                Some(_) => {}
            }
        }
    }
    cur
}

/// Field order / escaping variants used when the *reference* writes (any of them is the
/// same JSON object).
#[derive(Clone, Copy, Debug, PartialEq, Eq)]
pub struct EmitStyle {
    pub ascii: bool,
    pub reversed: bool,
}

pub fn encode_json(r: &Rec, st: EmitStyle) -> String {
    let mut fields: Vec<(String, Json)> = vec![
        ("key".into(), Json::Str(r.key.clone())),
        (
            "integrity".into(),
            match &r.integrity {
                None => Json::Null,
                Some(s) => Json::Str(s.clone()),
            },
        ),
        ("time".into(), Json::Num(r.time.to_string())),
        ("size".into(), Json::Num(r.size.to_string())),
        ("metadata".into(), r.metadata.clone()),
        (
            "raw_metadata".into(),
            match &r.raw_metadata {
                None => Json::Null,
                Some(v) => Json::Arr(v.iter().map(|b| Json::Num(b.to_string())).collect()),
            },
        ),
    ];
    if st.reversed {
        fields.reverse();
    }
    let mut s = String::new();
    Json::Obj(fields).emit(st.ascii, &mut s);
    s
}

pub fn encode_record(r: &Rec, st: EmitStyle) -> Vec<u8> {
    let j = encode_json(r, st);
    format!("\n{}\t{}", sha256_hex(j.as_bytes()), j).into_bytes()
}

/// Walks `content-v2` and returns (relative path, is_symlink) of every non-directory.
pub fn walk_files(root: &Path) -> Vec<(String, std::fs::FileType)> {
    fn rec(base: &Path, dir: &Path, out: &mut Vec<(String, std::fs::FileType)>) {
        let rd = match std::fs::read_dir(dir) {
            Ok(r) => r,
            Err(_) => return,
        };
        let mut ents: Vec<_> = rd.flatten().collect();
        ents.sort_by_key(|e| e.file_name());
        for e in ents {
            let ft = match e.file_type() {
                Ok(f) => f,
                Err(_) => continue,
            };
            if ft.is_dir() {
                rec(base, &e.path(), out);
            } else {
                let rel = e.path().strip_prefix(base).unwrap().to_string_lossy().to_string();
                out.push((rel, ft));
            }
        }
    }
    let mut out = Vec::new();
    rec(root, root, &mut out);
    out
}

/// `ContentTreeValid`: every non-directory under `content-v2` sits at `<algo>/<2>/<2>/<rest>`
/// and the digest of its bytes under `<algo>` equals the hex spelled by the path.
/// Symlinks (link_to) are accepted when `allow_symlinks` and then judged through the link.
pub fn content_tree_violations(cache: &Path, allow_symlinks: bool) -> Vec<String> {
    content_tree_violations_ex(cache, allow_symlinks).into_iter().map(|x| x.1).collect()
}

/// Like `content_tree_violations`, each finding tagged with the address it concerns (when
/// the path spells one), so callers can discount files they damaged themselves.
pub fn content_tree_violations_ex(cache: &Path, allow_symlinks: bool) -> Vec<(Option<(Algo, String)>, String)> {
    let root = cache.join("content-v2");
    let mut bad: Vec<(Option<(Algo, String)>, String)> = Vec::new();
    for (rel, ft) in walk_files(&root) {
        let parts: Vec<&str> = rel.split('/').collect();
        let ok_shape = parts.len() == 4
            && Algo::from_name(parts[0]).is_some()
            && parts[1].len() == 2
            && parts[2].len() == 2;
        if !ok_shape {
            bad.push((None, format!("misplaced file content-v2/{rel}")));
            continue;
        }
        let algo = Algo::from_name(parts[0]).unwrap();
        let hex = format!("{}{}{}", parts[1], parts[2], parts[3]);
        if hex.len() != algo.digest_len() * 2 {
            bad.push((None, format!("bad name length content-v2/{rel}")));
            continue;
        }
        if ft.is_symlink() && !allow_symlinks {
            bad.push((Some((algo, hex.clone())), format!("unexpected symlink content-v2/{rel}")));
            continue;
        }
        if !ft.is_file() && !ft.is_symlink() {
            bad.push((Some((algo, hex.clone())), format!("special file content-v2/{rel}")));
            continue;
        }
        match std::fs::read(root.join(&rel)) {
            Ok(bytes) => {
                let d = hexs(&crate::blob::digest_raw(algo, &bytes));
                if d != hex {
                    bad.push((
                        Some((algo, hex.clone())),
                        format!("content-v2/{rel} holds {} bytes whose {} digest is {d}", bytes.len(), algo.name()),
                    ));
                }
            }
            Err(e) => {
                if !ft.is_symlink() {
                    bad.push((Some((algo, hex.clone())), format!("unreadable content-v2/{rel}: {e}")));
                }
            }
        }
    }
    bad
}

#[cfg(test)]
mod tests {
    use super::*;
    #[test]
    fn mock_entry() {
        let b = b"\n9cbbfe2553e7c7e1773f53f0f643fdd72008faa38da53ebcb055e5e20321ae47\t{\"key\":\"hello\",\"integrity\":\"sha1-deadbeef\",\"time\":1234567,\"size\":0,\"metadata\":null,\"raw_metadata\":null}";
        let r = parse_bucket(b);
        assert_eq!(r.len(), 1);
        assert_eq!(r[0].key, "hello");
        assert_eq!(r[0].time, 1234567);
        let e = encode_record(&r[0], EmitStyle { ascii: false, reversed: false });
        assert_eq!(&e[..], &b[..]);
    }
    #[test]
    fn lines() {
        assert_eq!(split_lines(b"\na\r\nb\n"), vec![&b""[..], b"a", b"b"]);
        assert_eq!(split_lines(b"a\nb"), vec![&b"a"[..], b"b"]);
    }
}
