//! Fatal signals (SIGSEGV, SIGBUS, SIGABRT, SIGILL, SIGFPE) inside a case: "aborts the process"
//! is a way to violate C20 that `catch_unwind` cannot see. Every worker publishes the case it
//! is running (already serialised); the handler — async-signal-safe: open/write/_exit only —
//! writes the case(s) as replay files, prints a `CRASHED` line and exits with code 5. The
//! front end re-runs each file and judges.

use std::cell::Cell;
use std::ffi::CString;
use std::sync::atomic::{AtomicPtr, AtomicUsize, Ordering};

const SLOTS: usize = 64;

#[allow(clippy::declare_interior_mutable_const)]
const NULL: AtomicPtr<u8> = AtomicPtr::new(std::ptr::null_mut());
#[allow(clippy::declare_interior_mutable_const)]
const ZERO: AtomicUsize = AtomicUsize::new(0);
static CASE_PTR: [AtomicPtr<u8>; SLOTS] = [NULL; SLOTS];
static CASE_LEN: [AtomicUsize; SLOTS] = [ZERO; SLOTS];
static PATHS: [AtomicPtr<libc::c_char>; SLOTS] = {
    #[allow(clippy::declare_interior_mutable_const)]
    const P: AtomicPtr<libc::c_char> = AtomicPtr::new(std::ptr::null_mut());
    [P; SLOTS]
};
static PREFIX: AtomicPtr<u8> = AtomicPtr::new(std::ptr::null_mut());
static PREFIX_LEN: AtomicUsize = AtomicUsize::new(0);
static LINES: [AtomicPtr<u8>; SLOTS] = [NULL; SLOTS];
static LINE_LEN: [AtomicUsize; SLOTS] = [ZERO; SLOTS];
static NSLOTS: AtomicUsize = AtomicUsize::new(0);

thread_local! {
    static SLOT: Cell<usize> = const { Cell::new(usize::MAX) };
}

/// Called by a worker thread once.
pub fn set_slot(w: usize) {
    SLOT.with(|s| s.set(w));
}

/// Publishes the serialised case a worker is about to run. `json` must stay alive (and
/// unmoved) until the next call for the same slot.
pub fn publish(w: usize, json: &str) {
    if w < SLOTS {
        CASE_LEN[w].store(0, Ordering::SeqCst);
        CASE_PTR[w].store(json.as_ptr() as *mut u8, Ordering::SeqCst);
        CASE_LEN[w].store(json.len(), Ordering::SeqCst);
    }
}

fn leak(b: Vec<u8>) -> (*mut u8, usize) {
    let b = b.into_boxed_slice();
    let len = b.len();
    (Box::leak(b).as_mut_ptr(), len)
}

unsafe fn wr(fd: i32, p: *const u8, n: usize) {
    let mut off = 0;
    while off < n {
        let k = libc::write(fd, p.add(off) as *const libc::c_void, n - off);
        if k <= 0 {
            break;
        }
        off += k as usize;
    }
}

unsafe fn dump(w: usize) {
    let p = CASE_PTR[w].load(Ordering::SeqCst);
    let n = CASE_LEN[w].load(Ordering::SeqCst);
    let path = PATHS[w].load(Ordering::SeqCst);
    if p.is_null() || n == 0 || path.is_null() {
        return;
    }
    let fd = libc::open(path, libc::O_CREAT | libc::O_WRONLY | libc::O_TRUNC, 0o644);
    if fd < 0 {
        return;
    }
    wr(fd, PREFIX.load(Ordering::SeqCst), PREFIX_LEN.load(Ordering::SeqCst));
    wr(fd, p, n);
    wr(fd, b"}\n".as_ptr(), 2);
    libc::close(fd);
    wr(1, LINES[w].load(Ordering::SeqCst), LINE_LEN[w].load(Ordering::SeqCst));
}

extern "C" fn on_fatal(_sig: libc::c_int) {
    unsafe {
        let me = SLOT.with(|s| s.get());
        if me < SLOTS {
            dump(me);
        } else {
            // a thread of the library's own pools: any worker's case may be the cause
            for w in 0..NSLOTS.load(Ordering::SeqCst).min(SLOTS) {
                dump(w);
            }
        }
        libc::_exit(5);
    }
}

/// Installs the handlers. `replay_stem`: `<verif>/replays/<P>-<seed>-crash-<pid>`.
pub fn install(prop: &str, build: &str, seed: u64, replay_stem: &str, nworkers: usize) {
    let prefix = format!(
        "{{\"property\":\"{prop}\",\"build\":\"{build}\",\"seed\":{seed},\"origin\":\"fatal signal\",\"message\":\"the process was killed by a fatal signal (SIGSEGV / SIGBUS / SIGABRT / SIGILL / SIGFPE) while this case was running\",\"case\":"
    );
    let (p, n) = leak(prefix.into_bytes());
    PREFIX.store(p, Ordering::SeqCst);
    PREFIX_LEN.store(n, Ordering::SeqCst);
    let n = nworkers.min(SLOTS);
    for w in 0..n {
        // (replay mode: the case is in a file already)
        let path = if replay_stem.is_empty() { "/dev/null".to_string() } else { format!("{replay_stem}-w{w}.json") };
        let line = format!("CRASHED property={prop} build={build} replay={path}\n");
        PATHS[w].store(CString::new(path).unwrap().into_raw(), Ordering::SeqCst);
        let (lp, ln) = leak(line.into_bytes());
        LINES[w].store(lp, Ordering::SeqCst);
        LINE_LEN[w].store(ln, Ordering::SeqCst);
    }
    NSLOTS.store(n, Ordering::SeqCst);
    unsafe {
        for sig in [libc::SIGSEGV, libc::SIGBUS, libc::SIGABRT, libc::SIGILL, libc::SIGFPE] {
            let mut sa: libc::sigaction = std::mem::zeroed();
            sa.sa_sigaction = on_fatal as *const () as usize;
            sa.sa_flags = libc::SA_ONSTACK;
            libc::sigemptyset(&mut sa.sa_mask);
            libc::sigaction(sig, &sa, std::ptr::null_mut());
        }
    }
}
