//! C06 — damage to an index file is contained to the damaged records.

use super::{hash_of, Engine, Stats, Tier, WorkerEnv};
use crate::blob::{self, Algo, Blob};
use crate::damage::damage_bucket_bytes;
use crate::exec::{norm_meta, Ctx};
use crate::gen;
use crate::model::json_to_value;
use crate::ops::*;
use crate::reffmt::{self, EmitStyle, Json, Rec};
use proptest::collection::vec;
use proptest::prelude::*;
use serde::{Deserialize, Serialize};
use serde_json::Value;

#[derive(Clone, Copy, Debug, Serialize, Deserialize, PartialEq)]
pub enum Via {
    LibSync,
    LibAsync,
    Ref { ascii: bool, reversed: bool },
}

#[derive(Clone, Debug, Serialize, Deserialize)]
pub struct RecSpec {
    /// 0 = the key owning the bucket; >0 = a foreign key (reference writer only)
    pub key: usize,
    pub tomb: bool,
    pub salt: u8,
    pub size: u32,
    pub time: u64,
    pub metadata: Option<Value>,
    pub raw: Option<Vec<u8>>,
    pub via: Via,
}

#[derive(Clone, Debug, Serialize, Deserialize)]
pub struct Case {
    pub keys: Vec<String>,
    pub recs: Vec<RecSpec>,
    pub damages: Vec<BDamage>,
    pub after: Vec<RecSpec>,
}

pub struct C06;

fn integrity_of(salt: u8) -> String {
    blob::sri(Algo::Sha256, &Blob::new(4, salt as u64).bytes())
}

fn to_rec(keys: &[String], r: &RecSpec) -> Rec {
    Rec {
        key: keys[r.key].clone(),
        integrity: if r.tomb { None } else { Some(integrity_of(r.salt)) },
        time: r.time as u128,
        size: r.size as u128,
        metadata: r.metadata.as_ref().map(Json::from_value).unwrap_or(Json::Null),
        raw_metadata: r.raw.clone(),
    }
}

fn rec_to_norm(r: &Rec) -> MetaNorm {
    MetaNorm {
        key: r.key.clone(),
        integrity: r.integrity.clone().unwrap_or_default(),
        time: r.time.to_string(),
        size: r.size as u64,
        metadata: json_to_value(&r.metadata),
        raw_metadata: r.raw_metadata.clone(),
    }
}

/// Writes one record into the bucket of keys[0]; returns the record as written.
fn write_rec(ctx: &Ctx, keys: &[String], r: &RecSpec) -> Result<Rec, String> {
    let rec = to_rec(keys, r);
    #[allow(unused_mut)]
    let mut rec = rec;
    let bucket = reffmt::bucket_path(&ctx.cache, &keys[0]);
    let via = if r.key != 0 { match r.via { Via::Ref { .. } => r.via, _ => Via::Ref { ascii: false, reversed: false } } } else { r.via };
    match via {
        Via::Ref { ascii, reversed } => {
            std::fs::create_dir_all(bucket.parent().unwrap()).map_err(|e| e.to_string())?;
            use std::io::Write;
            let mut f = std::fs::OpenOptions::new().create(true).append(true).open(&bucket).map_err(|e| e.to_string())?;
            f.write_all(&reffmt::encode_record(&rec, EmitStyle { ascii, reversed })).map_err(|e| e.to_string())?;
        }
        // removals go through the public removal calls half of the time (they choose their own
        // timestamp, which no lookup shows)
        Via::LibSync | Via::LibAsync if r.tomb && r.salt % 2 == 0 => {
            let res = if via == Via::LibSync { cacache::index::delete(&ctx.cache, &keys[0]) } else { crate::rt::block_on(cacache::index::delete_async(&ctx.cache, &keys[0])) };
            res.map_err(|e| format!("index delete failed: {e}"))?;
            // (the call chose timestamp and size itself: taken from what it wrote)
            let mut rec = rec;
            if let Some(last) = std::fs::read(&bucket).ok().and_then(|b| reffmt::parse_bucket(&b).pop()) {
                if last.integrity.is_none() && last.key == rec.key {
                    rec.time = last.time;
                    rec.size = last.size;
                    rec.metadata = last.metadata;
                    rec.raw_metadata = last.raw_metadata;
                }
            }
            return Ok(rec);
        }
        Via::LibSync | Via::LibAsync => {
            let mut o = cacache::WriteOpts::new().size(r.size as usize).time(r.time as u128);
            if !r.tomb {
                o = o.integrity(integrity_of(r.salt).parse().unwrap());
            }
            if let Some(m) = &r.metadata {
                o = o.metadata(m.clone());
            }
            if let Some(raw) = &r.raw {
                o = o.raw_metadata(raw.clone());
            }
            let res = if via == Via::LibSync {
                cacache::index::insert(&ctx.cache, &keys[0], o)
            } else {
                crate::rt::block_on(cacache::index::insert_async(&ctx.cache, &keys[0], o))
            };
            res.map_err(|e| format!("index insert failed: {e}"))?;
        }
    }
    Ok(rec)
}

/// Expected lookup of `key` from the reference fold.
fn ref_lookup(bytes: &[u8], key: &str) -> Option<MetaNorm> {
    reffmt::lookup(bytes, key).map(|r| rec_to_norm(&r))
}

fn ref_listing(bytes: &[u8]) -> Vec<MetaNorm> {
    let mut last: std::collections::BTreeMap<String, Option<Rec>> = Default::default();
    for r in reffmt::parse_bucket(bytes) {
        match &r.integrity {
            None => {
                last.insert(r.key.clone(), None);
            }
            Some(s) if blob::sri_address(s).is_some() => {
                last.insert(r.key.clone(), Some(r));
            }
            Some(_) => {}
        }
    }
    last.into_values().flatten().map(|r| rec_to_norm(&r)).collect()
}

fn observe_all(ctx: &Ctx, keys: &[String], st: &mut Stats) -> Result<(Option<MetaNorm>, Vec<MetaNorm>), String> {
    // (b) sync and async agree; panics are caught by the interpreter for steps, here the
    // calls are direct, so wrap
    let r = std::panic::catch_unwind(std::panic::AssertUnwindSafe(|| {
        let s = cacache::metadata_sync(&ctx.cache, &keys[0]).map(|m| m.as_ref().map(norm_meta));
        let a = crate::rt::block_on(cacache::metadata(&ctx.cache, &keys[0])).map(|m| m.as_ref().map(norm_meta));
        let f = cacache::index::find(&ctx.cache, &keys[0]).map(|m| m.as_ref().map(norm_meta));
        let fa = crate::rt::block_on(cacache::index::find_async(&ctx.cache, &keys[0])).map(|m| m.as_ref().map(norm_meta));
        let mut list = Vec::new();
        let mut errs = 0;
        for item in cacache::list_sync(&ctx.cache) {
            match item {
                Ok(m) => list.push(norm_meta(&m)),
                Err(_) => errs += 1,
            }
        }
        (s, a, f, fa, list, errs)
    }));
    st.eval(5);
    let (s, a, f, fa, mut list, errs) = r.map_err(|_| "a lookup or the listing panicked on the damaged bucket".to_string())?;
    let s = s.map_err(|e| format!("metadata_sync failed on the damaged bucket: {e}"))?;
    let a = a.map_err(|e| format!("metadata failed on the damaged bucket: {e}"))?;
    let f = f.map_err(|e| format!("index::find failed on the damaged bucket: {e}"))?;
    let fa = fa.map_err(|e| format!("index::find_async failed on the damaged bucket: {e}"))?;
    if s != a {
        return Err(format!("metadata_sync gives {:?} but async metadata gives {:?}", s.map(|m| (m.time, m.integrity)), a.map(|m| (m.time, m.integrity))));
    }
    if s != f || s != fa {
        return Err("index::find / find_async disagree with metadata".to_string());
    }
    if errs != 0 {
        return Err(format!("list_sync yielded {errs} error items on the damaged bucket"));
    }
    list.sort_by(|x, y| x.key.cmp(&y.key));
    Ok((s, list))
}

fn judge(ctx: &Ctx, keys: &[String], written: &[Rec], st: &mut Stats, phase: &str) -> Result<(), String> {
    let bucket = reffmt::bucket_path(&ctx.cache, &keys[0]);
    let bytes = std::fs::read(&bucket).unwrap_or_default();
    let (got, list) = observe_all(ctx, keys, st).map_err(|e| format!("{phase}: {e}"))?;
    // (c) verbatim clause, independent of the reference reader
    let verbatim = |m: &MetaNorm| written.iter().any(|w| w.integrity.is_some() && rec_to_norm(w) == *m);
    if let Some(m) = &got {
        if !verbatim(m) {
            return Err(format!("{phase}: lookup returned an entry no insert ever wrote: {m:?}"));
        }
    }
    for m in &list {
        if !verbatim(m) {
            return Err(format!("{phase}: listing returned an entry no insert ever wrote: {m:?}"));
        }
    }
    // (a) exactly what the undamaged records imply
    let exp = ref_lookup(&bytes, &keys[0]);
    if got != exp {
        return Err(format!(
            "{phase}: lookup gives {:?}, the undamaged records imply {:?}",
            got.as_ref().map(|m| (&m.time, &m.integrity)),
            exp.as_ref().map(|m| (&m.time, &m.integrity))
        ));
    }
    let exp_list = ref_listing(&bytes);
    if list != exp_list {
        return Err(format!(
            "{phase}: listing gives {:?}, the undamaged records imply {:?}",
            list.iter().map(|m| (&m.key, &m.time)).collect::<Vec<_>>(),
            exp_list.iter().map(|m| (&m.key, &m.time)).collect::<Vec<_>>()
        ));
    }
    Ok(())
}

fn rec_spec(nkeys: usize, lib_ok: bool) -> impl Strategy<Value = RecSpec> {
    (
        prop_oneof![5 => Just(0usize), 1 => 1..nkeys.max(2)],
        prop::bool::weighted(0.2),
        any::<u8>(),
        any::<u32>(),
        1u64..1_000_000,
        proptest::option::weighted(0.3, gen::json_value()),
        proptest::option::weighted(0.2, vec(any::<u8>(), 0..20)),
        prop_oneof![
            2 => Just(Via::LibSync),
            2 => Just(Via::LibAsync),
            2 => (any::<bool>(), any::<bool>()).prop_map(|(ascii, reversed)| Via::Ref { ascii, reversed }),
        ],
    )
        .prop_map(move |(key, tomb, salt, size, time, metadata, raw, via)| {
            let key = key.min(nkeys - 1);
            let via = if lib_ok { via } else { Via::Ref { ascii: false, reversed: false } };
            RecSpec { key, tomb, salt, size, time, metadata, raw, via }
        })
}

fn simple_rec(i: usize, tomb: bool, via: Via) -> RecSpec {
    RecSpec { key: 0, tomb, salt: i as u8, size: 10 + i as u32, time: 1000 + i as u64, metadata: None, raw: None, via }
}

impl Engine for C06 {
    type Case = Case;
    fn id(&self) -> &'static str {
        "C06"
    }
    fn rule(&self) -> String {
        "a bucket file built from a generated history (library index::insert / insert_async and an independent reference writer, several versions, tombstones, foreign \
         keys), then one or more damages (cut at byte j, single-bit flip, range overwritten with printable / NUL / invalid-UTF-8 garbage, garbage line inserted between \
         records or appended, fragment duplicated, separating newline stripped, torn tail), then further appends. Oracles: (a) metadata_sync, metadata, index::find, \
         find_async and list_sync equal the fold over the records an independent reference reader accepts in the damaged bytes; (b) sync == async; (c) verbatim clause \
         (independent of the reference reader): every returned entry is field-for-field one that some insert wrote; (d) a record appended after the damage is effective. \
         Exhaustive part: every cut length and every single-bit flip of small buckets, each followed by an append. Non-trivial = the damage invalidates >=1 record while \
         >=1 other record stays valid; distinct = distinct case"
            .into()
    }
    fn assumptions(&self) -> Vec<String> {
        vec![
            "the reference reader's notion of a valid record is DESIGN.md 4.3 (written from the C17 statement)".into(),
            "checksum-valid records with ill-formed content are not produced by any stated damage class and are not generated here".into(),
        ]
    }
    fn exhaustive(&self, tier: Tier) -> Vec<Case> {
        let keys = vec!["k".to_string(), "foreign".to_string()];
        let buckets: Vec<Vec<RecSpec>> = {
            let r = Via::Ref { ascii: false, reversed: false };
            let mut b = vec![
                vec![simple_rec(1, false, Via::LibSync), simple_rec(2, false, Via::LibAsync)],
                vec![simple_rec(1, false, Via::LibAsync), simple_rec(2, true, Via::LibSync), simple_rec(3, false, r)],
                vec![simple_rec(1, false, r), RecSpec { key: 1, ..simple_rec(9, false, r) }, simple_rec(2, false, Via::LibSync)],
                vec![
                    RecSpec { metadata: Some(serde_json::json!({"é": "ü\t"})), ..simple_rec(1, false, Via::LibSync) },
                    simple_rec(2, false, Via::LibAsync),
                    simple_rec(3, true, Via::LibAsync),
                    simple_rec(4, false, Via::LibSync),
                ],
            ];
            if tier == Tier::Thorough {
                for i in 0..8usize {
                    let mut v = Vec::new();
                    for j in 0..(2 + i % 3) {
                        let mut rs = simple_rec(i * 5 + j, (i + j) % 4 == 3, if (i + j) % 2 == 0 { Via::LibSync } else { Via::LibAsync });
                        if (i + j) % 3 == 0 {
                            rs.metadata = Some(serde_json::json!(["ø", i, j]));
                        }
                        v.push(rs);
                    }
                    b.push(v);
                }
            }
            b
        };
        let mut out = Vec::new();
        // a fragment of a record, starting at EVERY byte offset, appended as a line of its own;
        // the bucket has a non-ASCII key and metadata so that multi-byte characters land on
        // every column of the damaged line
        {
            let ukeys = vec!["ключ-данных-é😀".to_string(), "foreign".to_string()];
            let recs = vec![
                RecSpec { metadata: Some(serde_json::json!({"заметка": "привет мир 😀 — ünïcödé", "n": 1})), ..simple_rec(1, false, Via::LibSync) },
                RecSpec { metadata: Some(serde_json::json!(["ещё", "один"])), ..simple_rec(2, false, Via::LibAsync) },
            ];
            let len: usize = recs.iter().map(|r| reffmt::encode_record(&to_rec(&ukeys, r), EmitStyle { ascii: false, reversed: false }).len()).sum();
            for off in 0..len {
                let after = if off % 5 == 0 { vec![simple_rec(50, false, if off % 2 == 0 { Via::LibSync } else { Via::LibAsync })] } else { vec![] };
                out.push(Case { keys: ukeys.clone(), recs: recs.clone(), damages: vec![BDamage::AppendLineFrom(off)], after });
            }
        }
        // a replacement character that legitimately occurs in the data, overwritten by byte
        // sequences that are not UTF-8 (decoders that substitute U+FFFD must not "repair" it)
        {
            let fkeys = vec!["k\u{fffd}ey".to_string(), "foreign".to_string()];
            let recs = vec![
                RecSpec { metadata: Some(serde_json::json!({"note": "a\u{fffd}b", "\u{fffd}": 1})), ..simple_rec(1, false, Via::LibSync) },
                RecSpec { metadata: Some(serde_json::json!("\u{fffd}\u{fffd}")), ..simple_rec(2, false, Via::LibAsync) },
            ];
            let mut bytes = Vec::new();
            for r in &recs {
                bytes.extend(reffmt::encode_record(&to_rec(&fkeys, r), EmitStyle { ascii: false, reversed: false }));
            }
            for off in 0..bytes.len().saturating_sub(2) {
                if bytes[off..off + 3] == [0xEF, 0xBF, 0xBD] {
                    for bad in [[0xF0u8, 0x90, 0x80], [0xFF, 0xFE, 0xFD], [0xC0, 0x80, 0x80], [0xED, 0xA0, 0x80], [0xE2, 0x82, 0x28]] {
                        out.push(Case { keys: fkeys.clone(), recs: recs.clone(), damages: vec![BDamage::Overwrite { off, bytes: bad.to_vec() }], after: vec![] });
                    }
                }
            }
        }
        for (bi, recs) in buckets.iter().enumerate() {
            // every record CRLF-terminated in turn (and the last one at the end of the file)
            for n in 0..recs.len() {
                let after = if n % 2 == 0 { vec![simple_rec(120 + bi, false, if n % 2 == 0 { Via::LibAsync } else { Via::LibSync })] } else { vec![] };
                out.push(Case { keys: keys.clone(), recs: recs.clone(), damages: vec![BDamage::CrBeforeLf(n)], after });
                out.push(Case { keys: keys.clone(), recs: recs.clone(), damages: vec![BDamage::AppendRaw(b"\r\n".to_vec()), BDamage::CrBeforeLf(n)], after: vec![] });
            }
            // the file length is known by construction: encode with the reference writer
            let len: usize = recs.iter().map(|r| reffmt::encode_record(&to_rec(&keys, r), EmitStyle { ascii: false, reversed: false }).len()).sum();
            for j in 0..len {
                let after = vec![simple_rec(100 + bi, false, if j % 2 == 0 { Via::LibSync } else { Via::LibAsync })];
                out.push(Case { keys: keys.clone(), recs: recs.clone(), damages: vec![BDamage::CutAt(j)], after });
            }
            // long damaged tails behind the records (readers that look at the end of a big
            // bucket only must still find the records in front of it)
            for (gi, (total, line)) in [(70_000usize, 100usize), (300_000, 5000), (300_000, 400_000), (1_100_000, 100), (1_100_000, 65_536)].into_iter().enumerate() {
                let after = if gi % 2 == 0 { vec![] } else { vec![simple_rec(130 + bi, false, if gi % 4 == 1 { Via::LibSync } else { Via::LibAsync })] };
                out.push(Case { keys: keys.clone(), recs: recs.clone(), damages: vec![BDamage::GarbageTail { total, line, salt: (bi * 7 + gi) as u64 }], after });
            }
            // big records (the bucket passes 256 KiB and 1 MiB), a record of a foreign key deep
            // inside, a torn tail, then appends: nothing in front of the tear may be lost
            if bi == 0 {
                let r = Via::Ref { ascii: false, reversed: false };
                for (vi, raw_len) in [30_000usize, 120_000].into_iter().enumerate() {
                    let big = |i: usize, key: usize, via: Via| RecSpec { key, raw: Some(crate::gen::huge_raw_meta(raw_len + i, i as u8)), ..simple_rec(150 + i, false, via) };
                    let recs_big = vec![big(0, 0, Via::LibSync), big(1, 0, Via::LibAsync), big(2, 0, r), RecSpec { key: 1, ..big(3, 1, r) }, big(4, 0, Via::LibSync)];
                    for (ti, tail) in [BDamage::AppendRaw(b"\n0123456789abcdef\t{\"key\":\"k\",\"integ".to_vec()), BDamage::GarbageTail { total: 3000, line: 700, salt: 9 }, BDamage::AppendRaw(vec![0xff; 40])].into_iter().enumerate() {
                        let via = if (vi + ti) % 2 == 0 { Via::LibSync } else { Via::LibAsync };
                        out.push(Case { keys: keys.clone(), recs: recs_big.clone(), damages: vec![tail], after: vec![simple_rec(160 + ti, false, via), simple_rec(170 + ti, true, via)] });
                    }
                }
            }
            // one garbage line whose length sits on / next to a power of two, then a valid record
            if bi == 0 {
                for (gi, l) in [65535usize, 65536, 65537, (1 << 20) - 1, 1 << 20, (1 << 24) - 2, (1 << 24) - 1, 1 << 24, (1 << 24) + 1].into_iter().enumerate() {
                    let via = if gi % 2 == 0 { Via::LibSync } else { Via::LibAsync };
                    out.push(Case { keys: keys.clone(), recs: recs.clone(), damages: vec![BDamage::GarbageTail { total: l, line: l, salt: gi as u64 }], after: vec![simple_rec(140 + gi, gi % 3 == 2, via)] });
                }
            }
            // the last record written by the library once more, verbatim, after every
            // single-bit flip of the bytes around its start (a re-insert must be effective
            // whatever happened to the copy in front of it)
            if let Some(last) = recs.last().filter(|r| r.key == 0 && matches!(r.via, Via::LibSync | Via::LibAsync)) {
                let last_len = reffmt::encode_record(&to_rec(&keys, last), EmitStyle { ascii: false, reversed: false }).len();
                let start = len - last_len;
                for bit in start.saturating_sub(2) * 8..(start + 3).min(len) * 8 {
                    for via in [Via::LibSync, Via::LibAsync] {
                        out.push(Case { keys: keys.clone(), recs: recs.clone(), damages: vec![BDamage::FlipBit(bit)], after: vec![RecSpec { via, ..last.clone() }] });
                    }
                }
                for j in [start, start + 1, len - 1] {
                    out.push(Case { keys: keys.clone(), recs: recs.clone(), damages: vec![BDamage::CutAt(j)], after: vec![last.clone()] });
                }
            }
            for bit in 0..len * 8 {
                let after = if bit % 4 == 0 { vec![simple_rec(100 + bi, bit % 8 == 0, if bit % 3 == 0 { Via::LibSync } else { Via::LibAsync })] } else { vec![] };
                out.push(Case { keys: keys.clone(), recs: recs.clone(), damages: vec![BDamage::FlipBit(bit)], after });
            }
        }
        out
    }
    fn exhaustive_note(&self, tier: Tier) -> String {
        format!("{} buckets of 2-4 records: every cut length and every single-bit flip of the file, each followed by a library append; long garbage tails (70 KiB .. 1.1 MiB) behind the records; the last record re-inserted verbatim after damage around its start; one non-ASCII bucket with a record fragment starting at every byte offset appended as a line", tier.pick(4, 12))
    }
    fn random_cases(&self, tier: Tier) -> u32 {
        tier.pick(2000, 50000)
    }
    fn strategy(&self, _tier: Tier) -> BoxedStrategy<Case> {
        (gen::key_pool(2, 3), vec(rec_spec(3, true), 1..6), vec(gen::bdamage(), 1..4), vec(rec_spec(3, true), 0..3), prop::bool::weighted(0.25))
            .prop_map(|(keys, recs, damages, after, again)| {
                let n = keys.len();
                let fix = |mut r: RecSpec| {
                    r.key = r.key.min(n - 1);
                    r
                };
                let recs: Vec<RecSpec> = recs.into_iter().map(fix).collect();
                let mut after: Vec<RecSpec> = after.into_iter().map(fix).collect();
                if again {
                    // the last record once more, verbatim
                    after.insert(0, recs.last().unwrap().clone());
                }
                Case { keys, recs, damages, after }
            })
            .boxed()
    }
    fn run_case(&self, c: &Case, st: &mut Stats, env: &mut WorkerEnv) -> Result<(), String> {
        env.scratch.reset();
        let blobs: Vec<Blob> = vec![];
        let ctx = Ctx::new(env.scratch.cache.clone(), env.scratch.scratch.clone(), &c.keys, &blobs);
        let bucket = reffmt::bucket_path(&ctx.cache, &c.keys[0]);
        let mut written: Vec<Rec> = Vec::new();
        for r in &c.recs {
            written.push(write_rec(&ctx, &c.keys, r)?);
        }
        let before = std::fs::read(&bucket).map_err(|e| format!("harness: bucket unreadable: {e}"))?;
        // undamaged bucket: the reference reader must see exactly what was written
        let parsed = reffmt::parse_bucket(&before);
        if parsed.len() != written.len() || parsed.iter().zip(&written).any(|(a, b)| {
            a.key != b.key || a.integrity != b.integrity || a.time != b.time || a.size != b.size || !a.metadata.sem_eq(&b.metadata) || a.raw_metadata != b.raw_metadata
        }) {
            return Err(format!("the undamaged bucket does not decode to the {} records written (decoded {})", written.len(), parsed.len()));
        }
        judge(&ctx, &c.keys, &written, st, "undamaged bucket")?;
        let mut bytes = before.clone();
        for d in &c.damages {
            bytes = damage_bucket_bytes(&bytes, d);
            st.class(&format!("damage_{}", bdamage_name(d)));
        }
        // (same-length damage keeps the file's modification time, as bit rot does)
        crate::damage::write_keeping_mtime(&bucket, &bytes, bytes.len() == before.len());
        let survivors = reffmt::parse_bucket(&bytes).len();
        let nontrivial = survivors >= 1 && survivors < written.len();
        if bytes.iter().any(|&b| b >= 0x80) && std::str::from_utf8(&bytes).is_err() {
            st.class("bucket_has_invalid_utf8");
        }
        judge(&ctx, &c.keys, &written, st, &format!("after damage {:?}", c.damages))?;
        for (i, r) in c.after.iter().enumerate() {
            let before_append = std::fs::read(&bucket).unwrap_or_default();
            let rec = write_rec(&ctx, &c.keys, r)?;
            // an append adds one record: what the valid records in front of it implied stays
            // (an implementation may tidy garbage away, it may not lose a valid record)
            {
                let after_append = std::fs::read(&bucket).unwrap_or_default();
                let mut expect = before_append.clone();
                expect.extend(reffmt::encode_record(&rec, EmitStyle { ascii: false, reversed: false }));
                st.eval(1);
                // every successful insert or removal is a record of its own (a removal repeated is
                // recorded twice: damage to one of the two leaves the key removed)
                if r.key == 0 && matches!(r.via, Via::LibSync | Via::LibAsync) {
                    let (n0, n1) = (reffmt::parse_bucket(&before_append).len(), reffmt::parse_bucket(&after_append).len());
                    // (at least one more: the newline an append starts with may also complete a
                    // CR-terminated line in front of it, which then counts too)
                    if n1 < n0 + 1 {
                        return Err(format!(
                            "after damage {:?}, append #{i} {:?} (removal: {}): the call succeeded but the bucket holds {n1} valid records, {n0} before it",
                            c.damages, r.via, r.tomb
                        ));
                    }
                }
                if ref_listing(&expect) != ref_listing(&after_append) {
                    return Err(format!(
                        "after damage {:?}, append #{i} {:?}: the bucket file ({} -> {} bytes) lost or gained entries: it lists {:?}, its valid records plus the appended one imply {:?}",
                        c.damages,
                        r.via,
                        before_append.len(),
                        after_append.len(),
                        ref_listing(&after_append).iter().map(|m| (&m.key, &m.time)).collect::<Vec<_>>(),
                        ref_listing(&expect).iter().map(|m| (&m.key, &m.time)).collect::<Vec<_>>()
                    ));
                }
                for k in &c.keys {
                    let (want, got) = (ref_lookup(&expect, k), ref_lookup(&after_append, k));
                    if want != got {
                        return Err(format!(
                            "after damage {:?}, append #{i} {:?}: the bucket file ({} -> {} bytes) no longer implies what its valid records plus the appended one imply for key {k:?}: {:?} instead of {:?}",
                            c.damages,
                            r.via,
                            before_append.len(),
                            after_append.len(),
                            got.map(|m| (m.time, m.integrity)),
                            want.map(|m| (m.time, m.integrity))
                        ));
                    }
                }
            }
            written.push(rec.clone());
            let phase = format!("after damage {:?} and append #{i} {:?}", c.damages, r.via);
            judge(&ctx, &c.keys, &written, st, &phase)?;
            // (d) the appended record is effective, judged without the reference reader —
            // for appends made by the library (it owns the separator it writes)
            if r.key == 0 && matches!(r.via, Via::LibSync | Via::LibAsync) {
                let got = cacache::metadata_sync(&ctx.cache, &c.keys[0]).map_err(|e| e.to_string())?.as_ref().map(norm_meta);
                st.eval(1);
                let exp = if rec.integrity.is_some() { Some(rec_to_norm(&rec)) } else { None };
                if got != exp {
                    return Err(format!(
                        "{phase}: the record just appended is not effective: lookup gives {:?}, appended {:?}",
                        got.map(|m| (m.time, m.integrity)),
                        exp.map(|m| (m.time, m.integrity))
                    ));
                }
            }
        }
        if !c.after.is_empty() {
            st.class("appends_after_damage");
        }
        if nontrivial {
            st.class("nontrivial");
            st.nontrivial(hash_of(c));
        }
        st.sample(|| serde_json::to_value(c).unwrap());
        Ok(())
    }
    fn health(&self, st: &Stats, _tier: Tier) -> Result<(), String> {
        let nt = *st.classes.get("nontrivial").unwrap_or(&0);
        if st.cases >= 200 && nt * 100 < st.cases * 30 {
            return Err(format!("only {nt} of {} cases leave a surviving record next to a destroyed one", st.cases));
        }
        Ok(())
    }
}

fn bdamage_name(d: &BDamage) -> &'static str {
    match d {
        BDamage::CutAt(_) => "cut",
        BDamage::FlipBit(_) => "flip_bit",
        BDamage::Overwrite { .. } => "overwrite_range",
        BDamage::AppendLine(_) => "append_garbage_line",
        BDamage::InsertLine { .. } => "insert_garbage_line",
        BDamage::DuplicateRange { .. } => "duplicate_fragment",
        BDamage::StripNewline(_) => "strip_newline",
        BDamage::AppendRaw(_) => "torn_tail",
        BDamage::AppendLineFrom(_) => "duplicated_fragment_as_line",
        BDamage::BecomeDir => "become_dir",
        BDamage::CrBeforeLf(_) => "crlf_terminated_record",
        BDamage::GarbageTail { .. } => "long_garbage_tail",
        BDamage::BecomeSymlink => "bucket_is_a_symlink",
    }
}
