//! A configurable model-based program engine: run the program step by step, judge every
//! step with the reference model, sweep all keys / addresses / the listing after every step,
//! keep the content-tree invariant, then run property-specific end-of-case checks.

use super::basic::{self, ProgCfg};
use super::{hash_of, Engine, Stats, Tier, WorkerEnv};
use crate::exec::{run_step, Ctx, StepResult};
use crate::model::Model;
use crate::ops::*;
use proptest::prelude::*;

pub struct Trace<'a> {
    pub prog: &'a Program,
    pub results: Vec<StepResult>,
}

pub struct ProgEngine {
    pub id: &'static str,
    pub rule: &'static str,
    pub assumptions: &'static [&'static str],
    pub cfg: fn(Tier) -> ProgCfg,
    pub strategy: Option<fn(Tier) -> BoxedStrategy<Program>>,
    pub grid: fn(Tier) -> Vec<Program>,
    pub grid_note: &'static str,
    pub random: (u32, u32),
    /// classifies the executed case; returns whether it is non-trivial
    pub classify: fn(&Trace, &mut Stats) -> bool,
    /// sweep keys+addresses+listing after every step (else only after the last)
    pub sweep_every_step: bool,
    pub deep_sweep: bool,
    pub allow_symlinks: bool,
    /// extra checks after the step at index i was judged
    pub after_step: fn(&Ctx, &Program, usize, &StepResult, &Model, &mut Stats) -> Result<(), String>,
    /// extra checks at the end of the case
    pub post: fn(&Ctx, &Trace, &Model, &mut Stats) -> Result<(), String>,
    pub min_nontrivial_pct: u64,
}

pub fn no_after_step(_: &Ctx, _: &Program, _: usize, _: &StepResult, _: &Model, _: &mut Stats) -> Result<(), String> {
    Ok(())
}
pub fn no_post(_: &Ctx, _: &Trace, _: &Model, _: &mut Stats) -> Result<(), String> {
    Ok(())
}
pub fn no_grid(_: Tier) -> Vec<Program> {
    Vec::new()
}

impl Engine for ProgEngine {
    type Case = Program;
    fn id(&self) -> &'static str {
        self.id
    }
    fn rule(&self) -> String {
        self.rule.to_string()
    }
    fn assumptions(&self) -> Vec<String> {
        self.assumptions.iter().map(|s| s.to_string()).collect()
    }
    fn exhaustive(&self, tier: Tier) -> Vec<Program> {
        (self.grid)(tier)
    }
    fn exhaustive_note(&self, _tier: Tier) -> String {
        self.grid_note.to_string()
    }
    fn random_cases(&self, tier: Tier) -> u32 {
        tier.pick(self.random.0, self.random.1)
    }
    fn strategy(&self, tier: Tier) -> BoxedStrategy<Program> {
        match self.strategy {
            Some(f) => f(tier),
            None => basic::program((self.cfg)(tier)),
        }
    }
    fn run_case(&self, prog: &Program, st: &mut Stats, env: &mut WorkerEnv) -> Result<(), String> {
        env.scratch.reset();
        // the cache directory is spelled in different (equivalent) ways from case to case
        let ctx = Ctx::new(env.scratch.cache_alias(hash_of(prog) >> 3), env.scratch.scratch.clone(), &prog.keys, &prog.blobs);
        let mut model = Model::new();
        let addrs = basic::addr_universe(prog);
        let mut trace = Trace { prog, results: Vec::with_capacity(prog.steps.len()) };
        for (i, step) in prog.steps.iter().enumerate() {
            let r = run_step(&ctx, step);
            st.eval(1);
            model.step(&ctx, step, &r.out, r.t0, r.t1).map_err(|e| format!("{}: {e}", basic::describe_step(prog, i)))?;
            let after = |e: String| format!("after {}: {e}", basic::describe_step(prog, i));
            (self.after_step)(&ctx, prog, i, &r, &model, st).map_err(after)?;
            trace.results.push(r);
            if self.sweep_every_step || i + 1 == prog.steps.len() {
                basic::sweep_keys(&ctx, &mut model, st, self.deep_sweep, i).map_err(after)?;
                basic::sweep_addrs(&ctx, &mut model, st, &addrs, i).map_err(after)?;
                basic::sweep_list(&ctx, &mut model, st).map_err(after)?;
                basic::content_invariant(&ctx, &model, self.allow_symlinks).map_err(after)?;
                st.eval(1);
            }
        }
        (self.post)(&ctx, &trace, &model, st)?;
        if (self.classify)(&trace, st) {
            st.class("nontrivial");
            st.nontrivial(hash_of(prog));
        }
        st.sample(|| compact_program(prog));
        Ok(())
    }
    fn health(&self, st: &Stats, _tier: Tier) -> Result<(), String> {
        let nt = *st.classes.get("nontrivial").unwrap_or(&0);
        if st.cases >= 200 && nt * 100 < st.cases * self.min_nontrivial_pct {
            return Err(format!("only {nt} of {} cases are non-trivial (< {}%)", st.cases, self.min_nontrivial_pct));
        }
        Ok(())
    }
}

/// Programs as evidence samples: long keys abbreviated.
pub fn compact_program(p: &Program) -> serde_json::Value {
    let mut v = serde_json::to_value(p).unwrap();
    // long raw metadata abbreviated
    fn shorten(v: &mut serde_json::Value) {
        match v {
            serde_json::Value::Object(m) => {
                for (k, x) in m.iter_mut() {
                    if k == "raw_metadata" {
                        if let Some(a) = x.as_array() {
                            if a.len() > 64 {
                                *x = serde_json::Value::String(format!("({} bytes)", a.len()));
                                continue;
                            }
                        }
                    }
                    shorten(x);
                }
            }
            serde_json::Value::Array(a) => a.iter_mut().for_each(shorten),
            _ => {}
        }
    }
    shorten(&mut v);
    if let Some(keys) = v.get_mut("keys").and_then(|k| k.as_array_mut()) {
        for k in keys.iter_mut() {
            if let Some(s) = k.as_str() {
                if s.len() > 120 {
                    let mut end = 60;
                    while !s.is_char_boundary(end) {
                        end -= 1;
                    }
                    *k = serde_json::Value::String(format!("{}…(+{} bytes)", &s[..end], s.len() - end));
                }
            }
        }
    }
    v
}
