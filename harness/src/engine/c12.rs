//! C12 — sync, async-std and tokio flavours of the API are observationally equivalent.
//!
//! Each harness build contains two flavours (its `_sync` API and its async runtime); the
//! third one is the *other* build's `driver server`, spoken to over a pipe. So the async-std
//! build compares {sync, async-std, tokio(remote)} and the tokio build compares
//! {sync, tokio, async-std(remote)}.

use super::basic::{self, OpMix, ProgCfg};
use super::{hash_of, Engine, Stats, Tier, WorkerEnv};
use crate::exec::{run_step, Ctx, StepResult};
use crate::gen::{SizeMix, WriteMix};
use crate::model::{Model, TimeSpec};
use crate::ops::*;
use crate::reffmt;
use proptest::collection::vec;
use proptest::prelude::*;
use serde::{Deserialize, Serialize};
use std::cell::RefCell;
use std::io::{BufRead, BufReader, Write};
use std::path::Path;
use std::process::{Child, ChildStdin, ChildStdout, Command, Stdio};

#[derive(Clone, Debug, Serialize, Deserialize)]
pub struct ProgCase {
    pub prog: Program,
    /// executor of each step in the mixed execution: 0 sync, 1 local async, 2 remote async
    pub assign: Vec<u8>,
}

#[derive(Clone, Debug, Serialize, Deserialize)]
pub enum Case {
    Prog(ProgCase),
    /// checksum-valid index records with odd fields (possibly on top of good ones) planted
    /// identically in three caches; every read-side call must then agree across the flavours
    /// (no model: the statement is equivalence "whatever the cache holds")
    Hostile { keys: Vec<String>, good_first: bool, recs: Vec<super::c20::HostileRec> },
    /// the program runs in three single-threaded driver processes (sync / async-std / tokio), each
    /// with its own working directory and the cache given as the RELATIVE path `cache`; steps may
    /// change the working directory, also between the last chunk of a write and its commit. No
    /// model (what a relative path means across a chdir is the implementation's choice): the
    /// three flavours must make the same choice.
    RelCwd { prog: Program },
}

pub struct C12;

struct Remote {
    child: Child,
    stdin: ChildStdin,
    stdout: BufReader<ChildStdout>,
}

impl Drop for Remote {
    fn drop(&mut self) {
        let _ = self.child.kill();
        let _ = self.child.wait();
    }
}

thread_local! {
    static REMOTE: RefCell<Option<Remote>> = const { RefCell::new(None) };
}

fn other_driver() -> std::path::PathBuf {
    let other = if crate::rt::BUILD == "tokio" { "as" } else { "tk" };
    std::path::PathBuf::from(std::env::var("CVH_TARGET").unwrap_or_else(|_| "/verif/target".into())).join(other).join("debug").join("driver")
}

fn remote_step(ctx: &Ctx, step: &Step) -> Result<StepResult, String> {
    REMOTE.with(|cell| {
        let mut g = cell.borrow_mut();
        if g.is_none() {
            let mut child = Command::new(other_driver())
                .arg("server")
                .stdin(Stdio::piped())
                .stdout(Stdio::piped())
                .stderr(Stdio::null())
                .spawn()
                .map_err(|e| format!("INFRA: cannot start the other build's driver ({}): {e}", other_driver().display()))?;
            let stdin = child.stdin.take().unwrap();
            let stdout = BufReader::new(child.stdout.take().unwrap());
            *g = Some(Remote { child, stdin, stdout });
        }
        let r = g.as_mut().unwrap();
        let req = serde_json::json!({
            "cache": ctx.cache, "scratch": ctx.scratch, "keys": ctx.keys, "blobs": ctx.blobs, "step": step, "dest_n": ctx.dest_n.get(),
        });
        ctx.dest_n.set(ctx.dest_n.get() + 1);
        let mut text = req.to_string();
        text.push('\n');
        let io = (|| -> std::io::Result<String> {
            r.stdin.write_all(text.as_bytes())?;
            r.stdin.flush()?;
            let mut line = String::new();
            r.stdout.read_line(&mut line)?;
            Ok(line)
        })();
        match io {
            Ok(line) if !line.trim().is_empty() => {
                let v: serde_json::Value = serde_json::from_str(&line).map_err(|e| format!("INFRA: bad server answer: {e}"))?;
                let out: Out = serde_json::from_value(v["out"].clone()).map_err(|e| format!("INFRA: bad server out: {e}"))?;
                Ok(StepResult { out, t0: v["t0"].as_str().unwrap_or("0").parse().unwrap_or(0), t1: v["t1"].as_str().unwrap_or("0").parse().unwrap_or(0) })
            }
            _ => {
                // the server died: that is an abort of the library call it was running
                *g = None;
                Ok(StepResult { out: Out::Panic("the remote executor process died during the call".into()), t0: 0, t1: 0 })
            }
        }
    })
}

#[derive(Clone, Copy, Debug, PartialEq)]
enum Exe {
    Sync,
    Local,
    Remote,
}

fn exe_name(e: Exe) -> &'static str {
    match e {
        Exe::Sync => "sync",
        Exe::Local => crate::rt::BUILD,
        Exe::Remote => {
            if crate::rt::BUILD == "tokio" {
                "async-std"
            } else {
                "tokio"
            }
        }
    }
}

fn exec_with(ctx: &Ctx, step: &Step, e: Exe) -> Result<StepResult, String> {
    if step.op.is_harness_side() {
        return Ok(run_step(ctx, step));
    }
    match e {
        Exe::Sync => Ok(run_step(ctx, &Step { op: step.op.clone(), fl: Fl::Sync })),
        Exe::Local => Ok(run_step(ctx, &Step { op: step.op.clone(), fl: Fl::Async })),
        Exe::Remote => {
            if let Op::LinkTo(l) = &step.op {
                crate::exec::prep_link_target(ctx, l);
            }
            remote_step(ctx, &Step { op: step.op.clone(), fl: Fl::Async })
        }
    }
}

/// Strips what legitimately differs between executions: messages (they contain paths) and
/// library-assigned timestamps (already judged against the clock window by the model).
fn normalise(out: &Out, model: &Model, explicit_times: &[String]) -> Out {
    let fix = |m: &MetaNorm| {
        let mut m = m.clone();
        // a timestamp the program did not supply was assigned by the library (the model has
        // judged it against the clock window of its call)
        let auto_by_model = model.entry(&m.key).map(|e| matches!(e.time, TimeSpec::Window(..))).unwrap_or(false);
        if auto_by_model || !explicit_times.contains(&m.time) {
            m.time = "auto".into();
        }
        m
    };
    match out {
        Out::Err(k, _) => Out::Err(k.clone(), String::new()),
        Out::ExtractErr { kind, dest, .. } => Out::ExtractErr { kind: kind.clone(), dest: dest.clone(), msg: String::new() },
        Out::Meta(Some(m)) => Out::Meta(Some(fix(m))),
        Out::List(v, n) => Out::List(v.iter().map(fix).collect(), *n),
        Out::Panic(_) => Out::Panic(String::new()),
        o => o.clone(),
    }
}

/// Decoded view of a cache directory: per bucket the record sequence (auto timestamps
/// blanked by the caller), and the content set.
fn decode_tree(cache: &Path) -> (Vec<(String, Vec<String>)>, Vec<(String, String)>) {
    let mut buckets = Vec::new();
    for (rel, ft) in reffmt::walk_files(&cache.join("index-v5")) {
        if !ft.is_file() {
            continue;
        }
        let bytes = std::fs::read(cache.join("index-v5").join(&rel)).unwrap_or_default();
        let recs: Vec<String> = reffmt::parse_bucket(&bytes)
            .into_iter()
            .map(|r| {
                let mut s = String::new();
                r.metadata.emit(true, &mut s);
                // timestamps are compared separately (explicit ones through lookups)
                format!("{:?}|{:?}|{}|{}|{:?}", r.key, r.integrity, r.size, s, r.raw_metadata)
            })
            .collect();
        buckets.push((rel, recs));
    }
    let mut content = Vec::new();
    for (rel, ft) in reffmt::walk_files(&cache.join("content-v2")) {
        let p = cache.join("content-v2").join(&rel);
        let desc = if ft.is_symlink() {
            format!("symlink:{}", std::fs::read(&p).map(|b| crate::exec::sha256_hex(&b)).unwrap_or_else(|_| "dangling".into()))
        } else {
            std::fs::read(&p).map(|b| crate::exec::sha256_hex(&b)).unwrap_or_default()
        };
        content.push((rel, desc));
    }
    (buckets, content)
}

fn cfg(tier: Tier) -> ProgCfg {
    ProgCfg {
        mix: OpMix {
            write: 14,
            read: 4,
            read_hash: 2,
            stream: 3,
            meta: 3,
            exists: 1,
            list: 2,
            extract: 5,
            remove: 3,
            remove_hash: 2,
            remove_fully: 2,
            clear: 1,
            idx_insert: 2,
            idx_find: 1,
            idx_delete: 1,
            link_to: 2,
            abandon: 1,
            commit_dropped: 0,
            damage_content: 4,
            damage_bucket: 3,
            foreign: 1,
            two_writers: 2,
            switch_cache: 0,
            cancel_commit: 0,
        },
        wmix: WriteMix { bad_decls: true, meta: true, by_hash: true, rich_matching: false, interfere: false },
        sizes: SizeMix::Normal,
        keys: (1, 5),
        blobs: (1, 4),
        max_steps: tier.pick(20, 60),
    }
}

impl C12 {
    fn run_hostile(&self, case: &Case, keys: &[String], good_first: bool, recs: &[super::c20::HostileRec], st: &mut Stats, env: &mut WorkerEnv) -> Result<(), String> {
        env.scratch.reset();
        let blobs = vec![crate::blob::Blob::new(9, 1)];
        let exes = [Exe::Sync, Exe::Local, Exe::Remote];
        let mut ctxs = Vec::new();
        for i in 0..3 {
            let r = env.scratch.root.join(format!("pure{i}"));
            let _ = std::fs::remove_dir_all(&r);
            std::fs::create_dir_all(r.join("cache")).map_err(|e| format!("INFRA: {e}"))?;
            std::fs::create_dir_all(r.join("scratch")).map_err(|e| format!("INFRA: {e}"))?;
            ctxs.push(Ctx::new(r.join("cache"), r.join("scratch"), keys, &blobs));
        }
        for (e, ctx) in ctxs.iter().enumerate() {
            if good_first {
                for k in 0..keys.len() {
                    let s = Step { op: Op::Write(WriteSpec::simple(Some(k), 0)), fl: Fl::Sync };
                    let _ = exec_with(ctx, &s, exes[e])?;
                }
            }
            for r in recs {
                super::c20::plant(ctx, r);
            }
        }
        for k in 0..keys.len() {
            for op in [
                Op::Meta { key: k },
                Op::IdxFind { key: k },
                Op::Read { key: k },
                Op::Stream { by: By::Key(k), bufs: vec![] },
                Op::Extract { kind: XKind::Copy, checked: true, by: By::Key(k), dest: Dest::Absent },
            ] {
                let s = Step { op, fl: Fl::Sync };
                let mut outs = Vec::new();
                for e in 0..3 {
                    let r = exec_with(&ctxs[e], &s, exes[e])?;
                    st.eval(1);
                    if let Out::Panic(m) = &r.out {
                        return Err(format!("{:?} through {} on planted records {:?} panicked: {m}", s.op, exe_name(exes[e]), recs.iter().map(|r| &r.integrity).collect::<Vec<_>>()));
                    }
                    // timestamps here are all explicit (planted or written with the default clock):
                    // blank the ones the library assigned
                    let n = match normalise(&r.out, &Model::new(), &recs.iter().map(|r| r.time.clone()).collect::<Vec<_>>()) {
                        o => o,
                    };
                    outs.push((n, r.out));
                }
                for e in 1..3 {
                    if outs[e].0 != outs[0].0 {
                        return Err(format!(
                            "{:?} on a cache holding planted records {:?} (good entries first: {good_first}): the flavours disagree: {} gives {} but {} gives {}",
                            s.op,
                            recs.iter().map(|r| &r.integrity).collect::<Vec<_>>(),
                            exe_name(exes[0]),
                            outs[0].1.short(),
                            exe_name(exes[e]),
                            outs[e].1.short()
                        ));
                    }
                }
            }
        }
        st.class("hostile_records_differential");
        st.class("nontrivial");
        st.nontrivial(hash_of(case));
        st.sample(|| serde_json::to_value(case).unwrap());
        Ok(())
    }
}

fn rel_tree(root: &std::path::Path) -> Vec<(String, u64)> {
    let mut v: Vec<(String, u64)> = reffmt::walk_files(root)
        .into_iter()
        .filter(|(rel, _)| !rel.contains("/tmp/") && !rel.ends_with(".json") && !rel.ends_with(".jsonl"))
        .map(|(rel, _)| {
            let len = std::fs::symlink_metadata(root.join(&rel)).map(|m| m.len()).unwrap_or(0);
            (rel, len)
        })
        .collect();
    v.sort();
    v
}

impl C12 {
    fn run_relcwd(&self, case: &Case, prog: &Program, st: &mut Stats, env: &mut WorkerEnv) -> Result<(), String> {
        env.scratch.reset();
        let own = crate::sup::driver_path();
        let other = other_driver();
        let (as_drv, tk_drv) = if crate::rt::BUILD == "tokio" { (other.clone(), own.clone()) } else { (own.clone(), other.clone()) };
        let flav: [(&str, &std::path::Path, Fl); 3] = [("sync", &as_drv, Fl::Sync), ("async-std", &as_drv, Fl::Async), ("tokio", &tk_drv, Fl::Async)];
        let mut outs: Vec<Vec<Out>> = Vec::new();
        let mut trees = Vec::new();
        for (i, (name, drv, fl)) in flav.iter().enumerate() {
            let root = env.scratch.root.join(format!("rel{i}"));
            let _ = std::fs::remove_dir_all(&root);
            std::fs::create_dir_all(root.join("scratch")).map_err(|e| format!("INFRA: {e}"))?;
            let p = Program { keys: prog.keys.clone(), blobs: prog.blobs.clone(), steps: prog.steps.iter().map(|s| Step { op: s.op.clone(), fl: if s.op.is_harness_side() { Fl::Sync } else { *fl } }).collect() };
            let pf = root.join("prog.json");
            std::fs::write(&pf, serde_json::to_string(&p).unwrap()).map_err(|e| format!("INFRA: {e}"))?;
            let of = root.join("out.jsonl");
            let o = Command::new(drv)
                .args(["exec", "--cache", "cache", "--scratch"])
                .arg(root.join("scratch"))
                .arg("--prog")
                .arg(&pf)
                .args(["--from", "0", "--to", &p.steps.len().to_string(), "--out"])
                .arg(&of)
                .current_dir(&root)
                .stdin(Stdio::null())
                .stdout(Stdio::null())
                .stderr(Stdio::piped())
                .output()
                .map_err(|e| format!("INFRA: cannot run {}: {e}", drv.display()))?;
            if !o.status.success() {
                return Err(format!("the {name} driver process ended abnormally: {:?} {}", o.status, String::from_utf8_lossy(&o.stderr)));
            }
            let v = crate::sup::read_outs(&of)?;
            st.eval(v.len() as u64);
            for (k, out, _, _) in &v {
                if out.is_panic() {
                    return Err(format!("{} through {name} (relative cache path): {}", basic::describe_step(prog, *k), out.short()));
                }
            }
            outs.push(v.into_iter().map(|(_, o, _, _)| normalise(&o, &Model::new(), &["7".to_string()])).collect());
            trees.push(rel_tree(&root));
        }
        for e in 1..3 {
            for (k, (a, b)) in outs[0].iter().zip(&outs[e]).enumerate() {
                if a != b {
                    return Err(format!(
                        "relative cache path, working directory changing: {}: {} gives {} but {} gives {}",
                        basic::describe_step(prog, k),
                        flav[0].0,
                        a.short(),
                        flav[e].0,
                        b.short()
                    ));
                }
            }
            if trees[e] != trees[0] {
                let d: Vec<_> = trees[e].iter().filter(|x| !trees[0].contains(x)).chain(trees[0].iter().filter(|x| !trees[e].contains(x))).take(6).collect();
                return Err(format!("relative cache path, working directory changing: {} and {} leave different trees behind, e.g. {:?}", flav[0].0, flav[e].0, d));
            }
        }
        st.class("relative_cache_path_with_chdir");
        st.class("nontrivial");
        st.nontrivial(hash_of(case));
        st.sample(|| serde_json::to_value(case).unwrap());
        Ok(())
    }
}

fn relcwd_family() -> Vec<Program> {
    let keys = vec!["rel".to_string(), "other".to_string()];
    let blobs = vec![crate::blob::Blob::new(50, 1), crate::blob::Blob::new(9, 2)];
    let mut out = Vec::new();
    for keyed in [true, false] {
        for declare in [Declare::None, Declare::Exact] {
            for mid in [Some(3usize), None] {
                let mut w = WriteSpec::simple(if keyed { Some(0) } else { None }, 0);
                w.entry = WEntry::Opts;
                w.chunks = vec![10];
                w.declare = declare;
                w.chdir_mid = mid;
                let a = AddrRef { algo: crate::blob::Algo::Sha256, blob: 0 };
                let mut steps = vec![Step { op: Op::Write(WriteSpec::simple(Some(1), 1)), fl: Fl::Sync }, Step { op: Op::Write(w), fl: Fl::Sync }];
                let look = |steps: &mut Vec<Step>| {
                    steps.push(Step { op: Op::Meta { key: 0 }, fl: Fl::Sync });
                    steps.push(Step { op: Op::Read { key: 0 }, fl: Fl::Sync });
                    steps.push(Step { op: Op::ReadHash { addr: a }, fl: Fl::Sync });
                    steps.push(Step { op: Op::Read { key: 1 }, fl: Fl::Sync });
                };
                look(&mut steps);
                steps.push(Step { op: Op::Chdir { dir: 4 }, fl: Fl::Sync });
                look(&mut steps);
                steps.push(Step { op: Op::Write(WriteSpec::simple(Some(0), 1)), fl: Fl::Sync });
                look(&mut steps);
                out.push(Program { keys: keys.clone(), blobs: blobs.clone(), steps });
            }
        }
    }
    // a linker opened in one working directory and committed in another (the cache path is relative)
    for keyed in [true, false] {
        for pre in [vec![crate::exec::LINK_CHDIR], vec![3, crate::exec::LINK_CHDIR, 5]] {
            let l = LinkSpec { key: if keyed { Some(0) } else { None }, blob: 0, target: 0, relative: false, algo: crate::blob::Algo::Sha256, oneshot: false, pre_reads: pre, declare: Declare::Exact, integ: IntegDecl::None, dotdot_via_symlink: false, vectored_reads: false };
            let a = AddrRef { algo: crate::blob::Algo::Sha256, blob: 0 };
            let mut steps = vec![Step { op: Op::Write(WriteSpec::simple(Some(1), 1)), fl: Fl::Sync }, Step { op: Op::LinkTo(l), fl: Fl::Sync }];
            for _ in 0..2 {
                if keyed {
                    steps.push(Step { op: Op::Meta { key: 0 }, fl: Fl::Sync });
                    steps.push(Step { op: Op::Read { key: 0 }, fl: Fl::Sync });
                }
                steps.push(Step { op: Op::ReadHash { addr: a }, fl: Fl::Sync });
                steps.push(Step { op: Op::Read { key: 1 }, fl: Fl::Sync });
                steps.push(Step { op: Op::Chdir { dir: 4 }, fl: Fl::Sync });
            }
            out.push(Program { keys: keys.clone(), blobs: blobs.clone(), steps });
        }
    }
    out
}

impl Engine for C12 {
    type Case = Case;
    fn id(&self) -> &'static str {
        "C12"
    }
    fn rule(&self) -> String {
        "programs over the whole operation language (writes with every option combination incl. mismatching declarations, reads, streams, extraction, link_to, removals, clear, raw \
         index calls, abandoned writers) including steps that damage content files and bucket files between calls. Executions: the same program in three fresh caches through (1) \
         the _sync API, (2) the async API of this build's runtime, (3) the async API of the other runtime (the other build's driver process, spoken to step by step), and (4) a mixed \
         execution in one cache where every step is assigned a generated executor. Oracle: at every step the normalised results of the three pure executions are equal (variant and \
         payload; for I/O errors the not-found bit; library-assigned timestamps blanked after the model judged them against the clock window) and each is admitted by the reference \
         model; at the end the three directory trees decode (independent reference reader) to the same record sequence per bucket and the same content set; the mixed execution \
         follows the model step by step and a final sweep reads every key and address through all three flavours. A second case kind plants checksum-valid index records with odd fields (on top of good entries or not) identically in \
         three caches and demands that metadata, index::find, read, stream and checked copy agree across the three flavours (no model). Non-trivial = >=1 state-changing step \
         and >=1 step that returns an error or follows a damage step, or a planted-record case; distinct = distinct case"
            .into()
    }
    fn assumptions(&self) -> Vec<String> {
        vec![
            "operations that exist in one flavour only (list_sync, by-address / unchecked hard links, unchecked by-address reflink) run through that flavour in every execution".into(),
            "the remote executor is the other build's driver binary under /verif/target (built by the same check)".into(),
        ]
    }
    fn exhaustive(&self, _tier: Tier) -> Vec<Case> {
        let mut out: Vec<Case> = relcwd_family().into_iter().map(|prog| Case::RelCwd { prog }).collect();
        // every extraction entry point x destination class on a pristine, then damaged entry
        for (di, dmg) in [CDamage::FlipBit(9), CDamage::Truncate(4), CDamage::OtherBlob(1), CDamage::Delete].into_iter().enumerate() {
            let keys = vec!["entry".to_string(), "other".to_string()];
            let blobs = vec![crate::blob::Blob::new(3000 + di, 1), crate::blob::Blob::new(40, 2)];
            let a = AddrRef { algo: crate::blob::Algo::Sha256, blob: 0 };
            let mut steps = vec![Step { op: Op::Write(WriteSpec::simple(Some(0), 0)), fl: Fl::Sync }, Step { op: Op::Write(WriteSpec::simple(Some(1), 1)), fl: Fl::Sync }];
            for round in 0..2 {
                for kind in [XKind::Copy, XKind::HardLink, XKind::Reflink] {
                    for checked in [true, false] {
                        for by in [By::Key(0), By::Addr(a)] {
                            for dest in [Dest::Absent, Dest::Existing, Dest::ExistingSuperset, Dest::LinkOfContent, Dest::SymlinkToContent, Dest::Directory, Dest::WithSiblings] {
                                steps.push(Step { op: Op::Extract { kind, checked, by, dest }, fl: Fl::Sync });
                            }
                        }
                    }
                }
                if round == 0 {
                    steps.push(Step { op: Op::DamageContent { addr: a, dmg: dmg.clone() }, fl: Fl::Sync });
                }
            }
            let assign = vec![0u8; 60];
            out.push(Case::Prog(ProgCase { prog: Program { keys, blobs, steps }, assign }));
        }
        // a linked file is deleted, then another file with the same bytes is linked (the address
        // holds a dangling link), then the entries are read
        for oneshot in [true, false] {
            let keys = vec!["first".to_string(), "second".to_string()];
            let blobs = vec![crate::blob::Blob::new(500, 3), crate::blob::Blob::new(40, 2)];
            let link = |key: usize, target: usize| Op::LinkTo(LinkSpec { key: Some(key), blob: 0, target, relative: false, algo: crate::blob::Algo::Sha256, oneshot, pre_reads: vec![], declare: Declare::Exact, integ: IntegDecl::None, dotdot_via_symlink: false, vectored_reads: false });
            let a = AddrRef { algo: crate::blob::Algo::Sha256, blob: 0 };
            let steps = vec![
                Step { op: link(0, 0), fl: Fl::Sync },
                Step { op: Op::RemoveTarget { target: 0 }, fl: Fl::Sync },
                Step { op: Op::Exists { addr: a }, fl: Fl::Sync },
                Step { op: link(1, 1), fl: Fl::Sync },
                Step { op: Op::Read { key: 0 }, fl: Fl::Sync },
                Step { op: Op::Read { key: 1 }, fl: Fl::Sync },
                Step { op: Op::Write(WriteSpec::simple(Some(1), 0)), fl: Fl::Sync },
                Step { op: Op::Read { key: 0 }, fl: Fl::Sync },
            ];
            out.push(Case::Prog(ProgCase { prog: Program { keys, blobs, steps }, assign: vec![0u8; 60] }));
        }
        out
    }
    fn exhaustive_note(&self, _tier: Tier) -> String {
        "fixed families: 8 programs run in three driver processes with the cache given as a relative path and the working directory changing; every extraction entry point x 7 destination classes on a pristine and then damaged entry (4 damages); a deleted link target followed by a link of another file with the same bytes".into()
    }
    fn random_cases(&self, tier: Tier) -> u32 {
        tier.pick(800, 25000)
    }
    fn strategy(&self, tier: Tier) -> BoxedStrategy<Case> {
        prop_oneof![
            6 => (basic::program(cfg(tier)), vec(0u8..3, 60)).prop_map(|(prog, assign)| Case::Prog(ProgCase { prog, assign })),
            1 => (crate::gen::key_pool(2, 3), any::<bool>(), vec(super::c20::hostile_rec(3), 1..4)).prop_map(|(keys, good_first, recs)| Case::Hostile { keys, good_first, recs }),
        ]
        .boxed()
    }
    fn max_shrink_iters(&self) -> u32 {
        1500
    }
    fn run_case(&self, c: &Case, st: &mut Stats, env: &mut WorkerEnv) -> Result<(), String> {
        let c = match c {
            Case::Prog(p) => p,
            Case::Hostile { keys, good_first, recs } => return self.run_hostile(c, keys, *good_first, recs, st, env),
            Case::RelCwd { prog } => return self.run_relcwd(c, prog, st, env),
        };
        let prog = &c.prog;
        let addrs = basic::addr_universe(prog);
        // three pure executions, each in its own cache, advanced in lock step
        env.scratch.reset();
        let exes = [Exe::Sync, Exe::Local, Exe::Remote];
        let roots: Vec<std::path::PathBuf> = (0..3).map(|i| env.scratch.root.join(format!("pure{i}"))).collect();
        let mut ctxs = Vec::new();
        for r in &roots {
            let _ = std::fs::remove_dir_all(r);
            std::fs::create_dir_all(r.join("cache")).map_err(|e| format!("INFRA: {e}"))?;
            std::fs::create_dir_all(r.join("scratch")).map_err(|e| format!("INFRA: {e}"))?;
            ctxs.push(Ctx::new(r.join("cache"), r.join("scratch"), &prog.keys, &prog.blobs));
        }
        let mut explicit_times: Vec<String> = vec!["7".to_string()];
        for s in &prog.steps {
            match &s.op {
                Op::Write(w) | Op::Abandon { spec: w, .. } => explicit_times.extend(w.time.clone()),
                Op::IdxInsert { fields, .. } => explicit_times.extend(fields.time.clone()),
                _ => {}
            }
        }
        let mut models = vec![Model::new(), Model::new(), Model::new()];
        let mut had_change = false;
        let mut had_err_or_damage = false;
        for (i, step) in prog.steps.iter().enumerate() {
            let mut norm = Vec::new();
            for e in 0..3 {
                let r = exec_with(&ctxs[e], step, exes[e])?;
                st.eval(1);
                models[e]
                    .step(&ctxs[e], step, &r.out, r.t0, r.t1)
                    .map_err(|x| format!("{} executed through {}: {x}", basic::describe_step(prog, i), exe_name(exes[e])))?;
                norm.push((normalise(&r.out, &models[e], &explicit_times), r.out));
            }
            // (how many bytes ONE read delivers is the runtime's business: streams that stop after
            // one read are not compared)
            let one_read = matches!(&step.op, Op::Stream { bufs, .. } if matches!(bufs.first(), Some(&m) if m == usize::MAX - 2 || m == usize::MAX - 3));
            for e in 1..3 {
                if norm[e].0 != norm[0].0 && !one_read {
                    return Err(format!(
                        "{}: the flavours disagree: {} gives {} but {} gives {}",
                        basic::describe_step(prog, i),
                        exe_name(exes[0]),
                        norm[0].1.short(),
                        exe_name(exes[e]),
                        norm[e].1.short()
                    ));
                }
            }
            if norm[0].1.is_err() || step.op.is_harness_side() {
                had_err_or_damage = true;
            }
            if matches!(step.op, Op::Write(_) | Op::Remove { .. } | Op::RemoveHash { .. } | Op::RemoveOpts { .. } | Op::Clear | Op::IdxInsert { .. } | Op::IdxDelete { .. } | Op::LinkTo(_)) {
                had_change = true;
            }
        }
        crate::rt::quiesce();
        let trees: Vec<_> = ctxs.iter().map(|c| decode_tree(&c.cache)).collect();
        st.eval(3);
        for e in 1..3 {
            if trees[e].0 != trees[0].0 {
                return Err(format!("the index written through {} decodes differently from the one written through {}: {:?} vs {:?}", exe_name(exes[e]), exe_name(exes[0]), trees[e].0, trees[0].0));
            }
            if trees[e].1 != trees[0].1 {
                return Err(format!("the content area written through {} differs from the one written through {}: {:?} vs {:?}", exe_name(exes[e]), exe_name(exes[0]), trees[e].1, trees[0].1));
            }
        }
        // mixed execution in one cache: written by any flavour, read identically by the others
        env.scratch.reset();
        let ctx = Ctx::new(env.scratch.cache.clone(), env.scratch.scratch.clone(), &prog.keys, &prog.blobs);
        let mut model = Model::new();
        let mut used = [false; 3];
        for (i, step) in prog.steps.iter().enumerate() {
            let e = exes[(c.assign.get(i).copied().unwrap_or(0) % 3) as usize];
            let r = exec_with(&ctx, step, e)?;
            st.eval(1);
            used[e as usize] = true;
            model.step(&ctx, step, &r.out, r.t0, r.t1).map_err(|x| format!("mixed execution, {} through {}: {x}", basic::describe_step(prog, i), exe_name(e)))?;
        }
        for (ei, e) in exes.iter().enumerate() {
            for k in 0..prog.keys.len() {
                for op in [Op::Meta { key: k }, Op::Read { key: k }] {
                    let s = Step { op, fl: Fl::Sync };
                    let r = exec_with(&ctx, &s, *e)?;
                    st.eval(1);
                    model.step(&ctx, &s, &r.out, r.t0, r.t1).map_err(|x| format!("mixed execution, final sweep through {}: {x}", exe_name(*e)))?;
                }
            }
            for a in &addrs {
                let s = Step { op: Op::ReadHash { addr: *a }, fl: Fl::Sync };
                let r = exec_with(&ctx, &s, *e)?;
                st.eval(1);
                model.step(&ctx, &s, &r.out, r.t0, r.t1).map_err(|x| format!("mixed execution, final sweep through {}: {x}", exe_name(*e)))?;
            }
            let _ = ei;
        }
        basic::sweep_list(&ctx, &mut model, st).map_err(|x| format!("mixed execution, final listing: {x}"))?;
        if had_err_or_damage {
            st.class("has_error_or_damage_step");
        }
        if prog.steps.iter().any(|s| matches!(s.op, Op::DamageBucket { .. })) {
            st.class("damages_a_bucket");
        }
        if prog.steps.iter().any(|s| matches!(s.op, Op::DamageContent { .. })) {
            st.class("damages_content");
        }
        if used.iter().all(|u| *u) {
            st.class("mixed_run_used_all_three_flavours");
        }
        if had_change && had_err_or_damage {
            st.class("nontrivial");
            st.nontrivial(hash_of(&c.prog));
        }
        st.sample(|| super::progeng::compact_program(prog));
        Ok(())
    }
    fn health(&self, st: &Stats, _tier: Tier) -> Result<(), String> {
        let nt = *st.classes.get("nontrivial").unwrap_or(&0);
        if st.cases >= 100 && nt * 2 < st.cases {
            return Err(format!("only {nt} of {} programs are non-trivial", st.cases));
        }
        Ok(())
    }
}
