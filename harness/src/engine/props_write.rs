//! C02, C08, C11, C16: write-centric properties as instances of the program engine.

use super::basic::{OpMix, ProgCfg};
use super::progeng::*;
use super::{Stats, Tier};
use crate::blob::{Fill, self, Algo, Blob, ALGOS};
use crate::exec::{Ctx, StepResult};
use crate::gen::{SizeMix, WriteMix, MIB};
use crate::model::Model;
use crate::ops::*;
use serde_json::json;

// ------------------------------------------------------------------------------------ C02

fn c02_cfg(tier: Tier) -> ProgCfg {
    ProgCfg {
        mix: OpMix { write: 8, two_writers: 1, ..OpMix::NONE },
        wmix: WriteMix { bad_decls: false, meta: true, by_hash: true, rich_matching: false, interfere: false },
        sizes: SizeMix::Boundary,
        keys: (1, 3),
        blobs: (1, 2),
        max_steps: tier.pick(2, 3),
    }
}

fn chunkings(len: usize) -> Vec<Vec<usize>> {
    vec![
        vec![],
        // single bytes and empty calls first, then halves
        vec![1, 0, 1, 7, len / 2],
        // decreasing
        vec![len / 2 + 1, len / 4, len / 8, 3, 1, 0],
    ]
}

fn c02_grid(tier: Tier) -> Vec<Program> {
    let lens: Vec<usize> = match tier {
        Tier::Quick => vec![0, 1, 2, 63, 8192, 8193, MIB - 1, MIB, MIB + 1],
        Tier::Thorough => vec![0, 1, 2, 63, 1024, 1025, 8191, 8192, 8193, 16385, MIB - 1, MIB, MIB + 1, 2 * MIB + 5],
    };
    let keys = vec!["grid-key".to_string(), "sp ace\t\"q\"\n/../é".to_string()];
    let mut out = Vec::new();
    let mut n = 0usize;
    for &algo in ALGOS.iter() {
        for &len in &lens {
            let blobs = vec![Blob::new(len, 1 + algo as u64)];
            for fl in [Fl::Sync, Fl::Async] {
                for (entry, keyed) in [
                    (WEntry::OneShotAlgo, true),
                    (WEntry::OneShotAlgo, false),
                    (WEntry::CreateAlgo, true),
                    (WEntry::Opts, true),
                    (WEntry::Opts, false),
                ] {
                    let decls: &[Declare] = if entry == WEntry::Opts { &[Declare::None, Declare::Exact] } else { &[Declare::None] };
                    let chs = if entry == WEntry::OneShotAlgo { vec![vec![]] } else { chunkings(len) };
                    for &declare in decls {
                        for ch in &chs {
                            n += 1;
                            let mut s = WriteSpec::simple(if keyed { Some(n % 2) } else { None }, 0);
                            s.algo = algo;
                            s.entry = entry;
                            s.chunks = ch.clone();
                            s.declare = declare;
                            s.flush = n % 3 == 0 && s.streamed();
                            if s.streamed() {
                                s.vectored = [0u16, 0, 2, 0, 1025, 0, 3, 0][n % 8];
                            }
                            out.push(Program { keys: keys.clone(), blobs: blobs.clone(), steps: vec![Step { op: Op::Write(s), fl }] });
                        }
                    }
                }
            }
        }
    }
    // values with long zero runs (what sparse-file tricks key on), cut so that whole chunks are zero
    for (zi, (len, fill)) in [(65536usize, Fill::Zero), (131072, Fill::Zero), (262144, Fill::ZeroTail), (393216, Fill::ZeroTail), (393216, Fill::ZeroHead), (MIB + 65536, Fill::ZeroTail)].into_iter().enumerate() {
        let blobs = vec![Blob { len, salt: 7, fill }];
        for fl in [Fl::Sync, Fl::Async] {
            for (ci, ch) in [vec![], vec![1], vec![len - 65536], vec![len - len / 3 + 10, 4096, 65536], vec![len / 3, len / 3]].into_iter().enumerate() {
                for declare in [Declare::None, Declare::Exact] {
                    n += 1;
                    let mut s = WriteSpec::simple(if n % 3 == 0 { None } else { Some(0) }, 0);
                    s.entry = if ch.is_empty() && declare == Declare::None { WEntry::OneShotAlgo } else { WEntry::Opts };
                    s.algo = ALGOS[(zi + ci) % 5];
                    s.chunks = ch.clone();
                    s.declare = declare;
                    out.push(Program { keys: keys.clone(), blobs: blobs.clone(), steps: vec![Step { op: Op::Write(s), fl }] });
                }
            }
        }
    }
    // many generations of one key (buckets of hundreds of records), read back after each write
    for variant in 0..2usize {
        let n = 140 + variant * 150;
        let steps: Vec<Step> = (0..n)
            .map(|i| {
                let mut s = WriteSpec::simple(Some(0), i % 3);
                if i % 5 == variant {
                    s.entry = WEntry::Opts;
                    s.chunks = vec![1, 2];
                    s.metadata = Some(json!({"gen": i}));
                }
                Step { op: Op::Write(s), fl: if (i / 2 + variant) % 2 == 0 { Fl::Sync } else { Fl::Async } }
            })
            .collect();
        out.push(Program { keys: vec![format!("generations-{variant}"), "idle".into()], blobs: vec![Blob::new(3, 1), Blob::new(4, 2), Blob::new(5, 3)], steps });
    }
    // values whose digest starts with three zero bytes (`AAAA…` in base64, `000000…` in hex),
    // stored under the algorithm in question through every entry point
    for mi in 0..blob::MINED.len() {
        let (mb, malgo) = Blob::mined(mi);
        for fl in [Fl::Sync, Fl::Async] {
            for (entry, keyed, chunks) in [(WEntry::OneShotAlgo, true, vec![]), (WEntry::OneShotAlgo, false, vec![]), (WEntry::Opts, true, vec![3, 4]), (WEntry::CreateAlgo, true, vec![1])] {
                let mut s = WriteSpec::simple(if keyed { Some(0) } else { None }, 0);
                s.entry = entry;
                s.algo = malgo;
                s.chunks = chunks;
                // the key held another value before
                out.push(Program { keys: keys.clone(), blobs: vec![mb.clone(), Blob::new(5, 3)], steps: vec![Step { op: Op::Write(WriteSpec::simple(Some(0), 1)), fl: Fl::Sync }, Step { op: Op::Write(s), fl }] });
            }
        }
    }
    // single chunks of tens of MiB (more than any sensible per-call cap of an I/O layer)
    let big = tier.pick((1usize << 25) + 4097, (1usize << 27) + 1);
    for (bi, (entry, chunks, fl)) in [(WEntry::OneShotAlgo, vec![], Fl::Sync), (WEntry::OneShotAlgo, vec![], Fl::Async), (WEntry::Opts, vec![5, big - 5], Fl::Sync), (WEntry::Opts, vec![big], Fl::Async)].into_iter().enumerate() {
        let mut s = WriteSpec::simple(if bi % 2 == 0 { Some(0) } else { None }, 0);
        s.entry = entry;
        s.chunks = chunks;
        s.algo = if bi < 2 { Algo::Sha256 } else { Algo::Sha1 };
        out.push(Program { keys: keys.clone(), blobs: vec![Blob::new(big, 91)], steps: vec![Step { op: Op::Write(s), fl }] });
    }
    // the SHA-256-only entry points
    for &len in &lens {
        for fl in [Fl::Sync, Fl::Async] {
            for (entry, keyed) in [(WEntry::OneShot, true), (WEntry::OneShot, false), (WEntry::Create, true)] {
                let mut s = WriteSpec::simple(if keyed { Some(0) } else { None }, 0);
                s.entry = entry;
                if entry == WEntry::Create {
                    s.chunks = vec![3, 0, len / 3];
                }
                out.push(Program { keys: keys.clone(), blobs: vec![Blob::new(len, 77)], steps: vec![Step { op: Op::Write(s), fl }] });
            }
        }
    }
    out
}

fn c02_after(ctx: &Ctx, prog: &Program, i: usize, r: &StepResult, model: &Model, st: &mut Stats) -> Result<(), String> {
    // round trip through every read entry point, by key and by the *returned* address
    let step = &prog.steps[i];
    let w = match &step.op {
        Op::Write(w) => w,
        _ => return Ok(()),
    };
    let sri = match &r.out {
        Out::Int(s) => s.clone(),
        o => return Err(format!("write did not succeed: {}", o.short())),
    };
    let data = ctx.blob(w.blob);
    let algo = if matches!(w.entry, WEntry::OneShot | WEntry::Create) { Algo::Sha256 } else { w.algo };
    if w.integ == IntegDecl::None || w.integ == IntegDecl::Correct {
        if sri != blob::sri(algo, &data) {
            return Err(format!("returned address {sri} is not the {} digest of the data", algo.name()));
        }
    }
    if !(w.integ == IntegDecl::None || w.integ == IntegDecl::Correct) {
        // a declared multi-hash integrity is returned (and recorded) as declared; how such an
        // entry resolves is the model's business (sweeps), not part of C02's statement
        return Ok(());
    }
    let want = crate::exec::bytes_out(&data);
    let integ: cacache::Integrity = sri.parse().map_err(|e| format!("returned address does not parse: {e}"))?;
    let cache = &ctx.cache;
    let mut got: Vec<(&str, Out)> = Vec::new();
    let conv = |r: cacache::Result<Vec<u8>>| match r {
        Ok(b) => crate::exec::bytes_out(&b),
        Err(e) => Out::Err(crate::exec::norm_err(&e).0, e.to_string()),
    };
    got.push(("read_hash_sync(returned address)", conv(cacache::read_hash_sync(cache, &integ))));
    got.push(("read_hash(returned address)", conv(crate::rt::block_on(cacache::read_hash(cache, &integ)))));
    if !cacache::exists_sync(cache, &integ) {
        return Err("exists_sync(returned address) is false".into());
    }
    if let Some(k) = w.key {
        let key = ctx.key(k);
        got.push(("read_sync(key)", conv(cacache::read_sync(cache, key))));
        got.push(("read(key)", conv(crate::rt::block_on(cacache::read(cache, key)))));
        // (the way the stream is consumed rotates: small reads, one read_to_end into a vector
        // that is not empty — after no / one plain read —, one read_exact, default reads)
        let bufs: Vec<usize> = match (data.len() + w.chunks.len() + i) % 5 {
            0 => vec![7, 8192, 1],
            1 => vec![usize::MAX - 4, 0],
            2 => vec![usize::MAX - 4, 1 + data.len() / 3],
            3 => vec![usize::MAX - 1],
            _ => vec![],
        };
        for fl in [Fl::Sync, Fl::Async] {
            let s = crate::exec::run_step(ctx, &Step { op: Op::Stream { by: By::Key(k), bufs: bufs.clone() }, fl });
            got.push((if fl == Fl::Sync { "SyncReader(key)+check" } else { "Reader(key)+check" }, s.out));
        }
        match cacache::metadata_sync(cache, key) {
            Ok(Some(_)) => {}
            o => return Err(format!("metadata_sync after keyed write: {:?}", o.map(|m| m.map(|m| m.key)))),
        }
    }
    for (name, o) in got {
        st.eval(1);
        if o != want {
            return Err(format!("{name} after write of {} bytes: {} (expected {})", data.len(), o.short(), want.short()));
        }
    }
    let _ = model;
    Ok(())
}

fn c02_classify(t: &Trace, st: &mut Stats) -> bool {
    let mut nt = false;
    for s in &t.prog.steps {
        if let Op::Write(w) = &s.op {
            let len = t.prog.blobs[w.blob].len;
            let multi = w.streamed() && crate::exec::cut_chunks(&vec![0u8; len.min(1 << 16)], &w.chunks).len() >= 2;
            if multi {
                st.class("multi_chunk");
            }
            if w.declare != Declare::None {
                st.class("declared_size");
            }
            if [0, 1, MIB - 1, MIB, MIB + 1].contains(&len) || len > MIB {
                st.class("boundary_length");
            }
            if (MIB - 1..=MIB + 1).contains(&len) {
                st.class("mmap_threshold");
            }
            let key_odd = w.key.map(|k| !t.prog.keys[k].chars().all(|c| c.is_ascii_alphanumeric())).unwrap_or(false);
            if key_odd {
                st.class("non_alphanumeric_key");
            }
            if w.algo != Algo::Sha256 {
                st.class("non_sha256");
            }
            st.class(&format!("entry_{:?}_{}", w.entry, if w.key.is_some() { "keyed" } else { "by_hash" }));
            nt |= multi || w.declare != Declare::None || [0, 1, MIB - 1, MIB, MIB + 1].contains(&len) || len > MIB || key_odd || w.algo != Algo::Sha256;
        }
    }
    nt
}

pub fn c02() -> ProgEngine {
    ProgEngine {
        id: "C02",
        rule: "a fixed grid (5 algorithms x boundary lengths incl. 0, 1, 8 KiB±1 and the 1 MiB mmap threshold -1/0/+1 x every write entry point x \
               declared/undeclared size x 3 chunkings with empty, single-byte and decreasing chunks), values with long zero runs, mined values whose digest starts with three zero bytes, single chunks of 32 MiB+ (128 MiB+ in the thorough tier), hundreds of generations of one key, plus random writes with hostile keys; oracle: the call \
               succeeds and returns the model digest (sha1/sha2/xxhash crates, own base64), then read_sync, read, SyncReader/Reader+check (consumed by small reads / one read_to_end into a non-empty vector / one read_exact) by key and \
               read_hash_sync, read_hash, exists by the RETURNED address all give back exactly the bytes. Non-trivial = >=2 chunks, or declared size, or \
               length in {0,1,2^20-1,2^20,2^20+1,>2^20}, or a non-alphanumeric key, or algorithm != SHA-256; distinct = distinct case",
        assumptions: &["healthy filesystem (tmpfs scratch)", "declared sizes / integrities are correct in this property (mismatches belong to C08)"],
        cfg: c02_cfg,
        strategy: None,
        grid: c02_grid,
        grid_note: "full factor grid over algorithm x length x entry point x flavour x declaration x chunking (fixed, not seed dependent)",
        random: (1500, 60000),
        classify: c02_classify,
        sweep_every_step: true,
        deep_sweep: false,
        allow_symlinks: false,
        after_step: c02_after,
        post: no_post,
        min_nontrivial_pct: 40,
    }
}

// ------------------------------------------------------------------------------------ C08

fn c08_cfg(tier: Tier) -> ProgCfg {
    ProgCfg {
        mix: OpMix { write: 10, remove: 2, two_writers: 2, ..OpMix::NONE },
        wmix: WriteMix { bad_decls: true, meta: true, by_hash: true, rich_matching: false, interfere: false },
        sizes: SizeMix::Boundary,
        keys: (1, 3),
        blobs: (1, 3),
        max_steps: tier.pick(5, 8),
    }
}

fn c08_grid(tier: Tier) -> Vec<Program> {
    let lens: Vec<usize> = tier.pick(vec![7, 4097, MIB - 1, MIB + 1], vec![1, 7, 4097, 8193, MIB - 1, MIB, MIB + 1]);
    let decls = [Declare::None, Declare::Exact, Declare::Off(-1), Declare::Off(1), Declare::Off(-(1 << 40)), Declare::Off(1 << 32), Declare::Off(3 << 32)];
    let integs = [
        IntegDecl::None,
        IntegDecl::Correct,
        IntegDecl::WrongDigest,
        IntegDecl::OtherAlgoCorrect,
        IntegDecl::MultiWithCorrect,
        IntegDecl::MultiAllWrong,
        IntegDecl::DigestOfOtherBlob,
        IntegDecl::WrongTail,
        IntegDecl::CaseToggled,
        IntegDecl::MultiThree,
        IntegDecl::MultiRightInTheMiddle,
    ];
    let keys = vec!["k".to_string(), "other".to_string()];
    let mut out = Vec::new();
    let mut n = 0usize;
    for &len in &lens {
        for &declare in &decls {
            for &integ in &integs {
                for prior in 0..3 {
                    for keyed in [true, false] {
                        if !keyed && prior > 0 {
                            continue;
                        }
                        for fl in [Fl::Sync, Fl::Async] {
                            n += 1;
                            let algo = ALGOS[n % 5];
                            let blobs = vec![Blob::new(len, 3), Blob::new(9, 4)];
                            let mut steps = Vec::new();
                            // an unrelated live key so that "nothing else changes" is observable
                            steps.push(Step { op: Op::Write(WriteSpec::simple(Some(1), 1)), fl: Fl::Sync });
                            if integ == IntegDecl::DigestOfOtherBlob {
                                // the other value is stored under the writer's algorithm: its digest is an existing address
                                let mut o = WriteSpec::simple(None, 1);
                                o.entry = WEntry::OneShotAlgo;
                                o.algo = algo;
                                steps.push(Step { op: Op::Write(o), fl: Fl::Sync });
                            }
                            if prior >= 1 {
                                steps.push(Step { op: Op::Write(WriteSpec::simple(Some(0), 1)), fl: if n % 2 == 0 { Fl::Sync } else { Fl::Async } });
                            }
                            if prior == 2 {
                                steps.push(Step { op: Op::Remove { key: 0 }, fl: Fl::Sync });
                            }
                            let mut s = WriteSpec::simple(if keyed { Some(0) } else { None }, 0);
                            s.entry = WEntry::Opts;
                            s.algo = algo;
                            s.declare = declare;
                            s.integ = integ;
                            s.chunks = match n % 3 {
                                0 => vec![],
                                1 => vec![1, 0, 2, len / 2],
                                _ => vec![len / 2 + 1, len / 3, 1],
                            };
                            s.vectored = [0u16, 0, 0, 2, 0, 0, 1025][n % 7];
                            s.decoy_opts = n % 4 == 1;
                            steps.push(Step { op: Op::Write(s), fl });
                            out.push(Program { keys: keys.clone(), blobs, steps });
                        }
                    }
                }
            }
        }
    }
    // declared sizes far above the data (9 MiB .. 300 MiB more) for bytes another key already
    // holds: the commit is rejected and the stored copy is not disturbed
    for off in [9i64 << 20, 100 << 20, 300 << 20] {
        for (fl, keyed) in [(Fl::Sync, true), (Fl::Sync, false), (Fl::Async, false), (Fl::Async, true)] {
            let mut s = WriteSpec::simple(if keyed { Some(0) } else { None }, 0);
            s.entry = WEntry::Opts;
            s.declare = Declare::Off(off);
            s.chunks = vec![100];
            let blobs = vec![Blob::new(5000, 21), Blob::new(9, 4)];
            let steps = vec![Step { op: Op::Write(WriteSpec::simple(Some(1), 0)), fl: Fl::Sync }, Step { op: Op::Write(s), fl }, Step { op: Op::Read { key: 1 }, fl }];
            out.push(Program { keys: keys.clone(), blobs, steps });
        }
    }
    // over-long and short streams of values with long zero runs: the surplus (or the missing
    // part) consists of whole zero chunks
    for (len, fill) in [(262144usize, Fill::ZeroTail), (393216, Fill::ZeroTail), (131072, Fill::Zero), (MIB + 131072, Fill::ZeroTail)] {
        for off in [-65536i64, -4096, -8192, 4096, 65536] {
            for fl in [Fl::Sync, Fl::Async] {
                for keyed in [true, false] {
                    n += 1;
                    let cut = len - len / 3;
                    let declared = (len as i64 + off) as usize;
                    let mut s = WriteSpec::simple(if keyed { Some(0) } else { None }, 0);
                    s.entry = WEntry::Opts;
                    s.algo = ALGOS[n % 5];
                    s.declare = Declare::Off(off);
                    // a chunk boundary inside the zero run, before the declared end
                    s.chunks = match n % 3 {
                        0 => vec![cut + 16],
                        1 => vec![cut + 16, declared.saturating_sub(cut + 16 + 100).max(1), 4096],
                        _ => vec![declared.min(len) - 4096, 4096, 4096, 8192],
                    };
                    let blobs = vec![Blob { len, salt: 11, fill }, Blob::new(9, 4)];
                    let steps = vec![Step { op: Op::Write(WriteSpec::simple(Some(1), 1)), fl: Fl::Sync }, Step { op: Op::Write(s), fl }];
                    out.push(Program { keys: keys.clone(), blobs, steps });
                }
            }
        }
    }
    out
}

fn c08_classify(t: &Trace, st: &mut Stats) -> bool {
    let mut nt = false;
    let mut written: std::collections::HashSet<usize> = Default::default();
    for (s, r) in t.prog.steps.iter().zip(&t.results) {
        match &s.op {
            Op::Write(w) if w.entry == WEntry::Opts => {
                let len = t.prog.blobs[w.blob].len;
                let ds = crate::exec::declared_size(w.declare, len);
                let size_bad = ds.map(|d| d != len).unwrap_or(false);
                let int_bad = !matches!(w.integ, IntegDecl::None | IntegDecl::Correct | IntegDecl::MultiWithCorrect);
                if size_bad {
                    st.class("size_mismatch");
                    if ds.unwrap() <= MIB {
                        st.class("size_mismatch_on_mmap_path");
                    }
                }
                if int_bad {
                    st.class("integrity_mismatch");
                }
                if !size_bad && !int_bad && (w.declare != Declare::None || w.integ != IntegDecl::None) {
                    st.class("matching_declaration");
                }
                let prior = w.key.map(|k| written.contains(&k)).unwrap_or(false);
                if r.out.is_err() {
                    st.class("rejected_commit");
                }
                nt |= size_bad || int_bad || ((w.declare != Declare::None || w.integ != IntegDecl::None) && prior);
                if let Some(k) = w.key {
                    written.insert(k);
                }
            }
            Op::Write(WriteSpec { key: Some(k), .. }) | Op::Remove { key: k } => {
                written.insert(*k);
            }
            _ => {}
        }
    }
    nt
}

pub fn c08() -> ProgEngine {
    ProgEngine {
        id: "C08",
        rule: "factor grid over data length (both sides of the 1 MiB mmap threshold) x declared size {none, =, -1, +1, 0} x declared integrity {none, correct, \
               wrong digest, correct digest of another algorithm, multi-hash containing the correct one, multi-hash all wrong} x prior state of the key {absent, \
               present, removed} x keyed/by-address x sync/async (algorithm and chunking rotated), plus random programs; oracle: mismatching size => \
               SizeMismatch(declared, written), wrong integrity => the integrity error, matching => Ok and the key maps to the new entry; after a rejected commit \
               metadata* of every key, the listing, exists/read_hash of every address are identical to the model state before the call. Non-trivial = any \
               mismatching declaration, or a matching one on a key with prior state; distinct = distinct program",
        assumptions: &[
            "healthy filesystem (tmpfs scratch)",
            "a declared integrity that is correct but only for another algorithm than the writer computes is left undecided by the statement: rejection with the integrity error or acceptance are both admitted, provided nothing is mapped on rejection",
            "when both declarations mismatch either error is accepted",
        ],
        cfg: c08_cfg,
        strategy: None,
        grid: c08_grid,
        grid_note: "full grid over length x declared size x declared integrity x prior state x keyed/by-address x flavour (fixed)",
        random: (1000, 40000),
        classify: c08_classify,
        sweep_every_step: true,
        deep_sweep: false,
        allow_symlinks: false,
        after_step: no_after_step,
        post: no_post,
        min_nontrivial_pct: 40,
    }
}

// ------------------------------------------------------------------------------------ C11

fn c11_cfg(tier: Tier) -> ProgCfg {
    ProgCfg {
        mix: OpMix { write: 10, idx_insert: 3, remove: 1, ..OpMix::NONE },
        wmix: WriteMix { bad_decls: false, meta: true, by_hash: false, rich_matching: true, interfere: false },
        sizes: SizeMix::Small,
        keys: (1, 4),
        blobs: (1, 3),
        max_steps: tier.pick(4, 6),
    }
}

fn c11_grid(tier: Tier) -> Vec<Program> {
    // boundary timestamps x entry points, and every hostile key once
    let times: Vec<u128> = vec![0, 1, 1 << 63, u64::MAX as u128, 1 << 64, (1 << 64) + 1, u128::MAX - 1, u128::MAX];
    let mut out = Vec::new();
    let metas = [
        json!(null),
        json!({"a": [1, 2.5, -3, 1e-7, 123456e3], "s": "tab\t nl\n q\" bs\\ nul\u{0} é 😀 \u{2028}", "n": null, "b": [true, false], "o": {"": {}}}),
        json!([u64::MAX, i64::MIN, i64::MAX, 0, -0.5, 0.000001, 999999e9]),
        json!("just a string"),
        json!(12345),
        json!("{\"etag\":\"abc\",\"n\":[1,2]}"),
        json!({"s": "[1,2,3]", "t": "null", "u": "{\"x\":1}"}),
        json!("[\"a\"]"),
    ];
    let mut n = 0;
    for &t in &times {
        for fl in [Fl::Sync, Fl::Async] {
            for via_index in [false, true] {
                n += 1;
                let keys = vec![format!("k{n}"), "second".to_string()];
                let blobs = vec![Blob::new(10 + n, 5)];
                let meta = metas[n % metas.len()].clone();
                let raw = if n % 3 == 0 { None } else { Some((0..=255u8).cycle().take(n * 7 % 600).collect::<Vec<u8>>()) };
                let step = if via_index {
                    Step {
                        op: Op::IdxInsert {
                            key: 0,
                            fields: IdxFields { integrity: Some(AddrRef { algo: ALGOS[n % 5], blob: 0 }), size: Some(n * 1000), time: Some(t.to_string()), metadata: Some(meta), raw_metadata: raw },
                        },
                        fl,
                    }
                } else {
                    let mut s = WriteSpec::simple(Some(0), 0);
                    s.entry = WEntry::Opts;
                    s.algo = ALGOS[n % 5];
                    s.time = Some(t.to_string());
                    s.metadata = Some(meta);
                    s.raw_metadata = raw;
                    s.declare = if n % 2 == 0 { Declare::Exact } else { Declare::None };
                    s.chunks = vec![3, 4];
                    Step { op: Op::Write(s), fl }
                };
                out.push(Program { keys, blobs, steps: vec![step, Step { op: Op::Write(WriteSpec::simple(Some(1), 0)), fl: Fl::Sync }] });
            }
        }
    }
    // default timestamp = time of the COMMIT: streamed writers that wait between open and commit
    for fl in [Fl::Sync, Fl::Async] {
        for (ei, entry) in [WEntry::Opts, WEntry::Create, WEntry::CreateAlgo].into_iter().enumerate() {
            for keyed_opts_declared in [false, true] {
                let mut s = WriteSpec::simple(Some(0), 0);
                s.entry = entry;
                s.algo = ALGOS[ei];
                s.chunks = vec![2, 3];
                s.pause_ms = 5;
                if entry == WEntry::Opts && keyed_opts_declared {
                    s.declare = Declare::Exact;
                    s.metadata = Some(json!({"waited": true}));
                }
                crate::gen::normalise_write(&mut s);
                out.push(Program { keys: vec![format!("late-commit-{ei}"), "x".into()], blobs: vec![Blob::new(40, 3)], steps: vec![Step { op: Op::Write(s), fl }] });
            }
        }
    }
    // a key written twice with the same bytes where exactly ONE attribute differs (or none):
    // the second commit's record is what lookups return
    {
        let base = |fl: Fl| {
            let mut s = WriteSpec::simple(Some(0), 0);
            s.entry = WEntry::Opts;
            s.time = Some("424242".into());
            s.metadata = Some(json!({"a": 1}));
            s.raw_metadata = Some(vec![1, 2, 3]);
            s.declare = Declare::Exact;
            Step { op: Op::Write(s), fl }
        };
        let variants: Vec<(&str, Box<dyn Fn(&mut WriteSpec)>)> = vec![
            ("nothing", Box::new(|_s: &mut WriteSpec| {})),
            ("raw_metadata changed", Box::new(|s: &mut WriteSpec| s.raw_metadata = Some(vec![1, 2, 4]))),
            ("raw_metadata dropped", Box::new(|s: &mut WriteSpec| s.raw_metadata = None)),
            ("metadata changed", Box::new(|s: &mut WriteSpec| s.metadata = Some(json!({"a": 2})))),
            ("metadata dropped", Box::new(|s: &mut WriteSpec| s.metadata = None)),
            ("time changed", Box::new(|s: &mut WriteSpec| s.time = Some("424243".into()))),
            ("time left to the clock", Box::new(|s: &mut WriteSpec| s.time = None)),
            ("size undeclared", Box::new(|s: &mut WriteSpec| s.declare = Declare::None)),
            ("integrity declared", Box::new(|s: &mut WriteSpec| s.integ = IntegDecl::Correct)),
            ("two-hash integrity declared", Box::new(|s: &mut WriteSpec| s.integ = IntegDecl::MultiTwoAlgos)),
            ("data changed", Box::new(|s: &mut WriteSpec| s.blob = 1)),
        ];
        for (vi, (_name, f)) in variants.iter().enumerate() {
            for (fl1, fl2) in [(Fl::Sync, Fl::Sync), (Fl::Async, Fl::Async), (Fl::Sync, Fl::Async), (Fl::Async, Fl::Sync)] {
                let first = base(fl1);
                let mut second = base(fl2);
                if let Op::Write(w) = &mut second.op {
                    f(w);
                }
                // ... and the other way round (the changed one first)
                let steps = if vi % 2 == 0 { vec![first, second] } else { vec![second, first] };
                out.push(Program { keys: vec![format!("rewritten-{vi}"), "x".into()], blobs: vec![Blob::new(40, 3), Blob::new(40, 4)], steps });
            }
        }
    }
    // thorough tier: one index record of more than 64 MiB (nothing bounds the size of metadata)
    if tier == Tier::Thorough {
        for fl in [Fl::Sync, Fl::Async] {
            let mut s = WriteSpec::simple(Some(0), 0);
            s.entry = WEntry::Opts;
            s.raw_metadata = Some(crate::gen::huge_raw_meta(19_500_000, 5));
            s.time = Some("79".into());
            out.push(Program { keys: vec!["record-of-70-MB".into(), "z".into()], blobs: vec![Blob::new(3, 1)], steps: vec![Step { op: Op::Write(WriteSpec::simple(Some(0), 0)), fl: Fl::Sync }, Step { op: Op::Write(s), fl }] });
        }
    }
    // an index record of more than 2 MiB (raw metadata of 600 KB spelled as a JSON array)
    for fl in [Fl::Sync, Fl::Async] {
        for (i, entry_is_index) in [false, true].into_iter().enumerate() {
            let raw = crate::gen::huge_raw_meta(610_000 + i * 1000, 7);
            let step = if entry_is_index {
                Step { op: Op::IdxInsert { key: 0, fields: IdxFields { integrity: Some(AddrRef { algo: Algo::Sha256, blob: 0 }), size: Some(3), time: Some("77".into()), metadata: None, raw_metadata: Some(raw) } }, fl }
            } else {
                let mut s = WriteSpec::simple(Some(0), 0);
                s.entry = WEntry::Opts;
                s.raw_metadata = Some(raw);
                s.time = Some("78".into());
                Step { op: Op::Write(s), fl }
            };
            out.push(Program { keys: vec!["huge-record".into(), "z".into()], blobs: vec![Blob::new(3, 1)], steps: vec![step, Step { op: Op::Write(WriteSpec::simple(Some(1), 0)), fl }] });
        }
    }
    // declared integrities with several hashes are metadata too: returned as supplied
    for fl in [Fl::Sync, Fl::Async] {
        for integ in [IntegDecl::Correct, IntegDecl::MultiWithCorrect, IntegDecl::MultiTwoAlgos] {
            for (ai, &algo) in ALGOS.iter().enumerate() {
                for len in [10usize, 11] {
                    let mut s = WriteSpec::simple(Some(0), 0);
                    s.entry = WEntry::Opts;
                    s.algo = algo;
                    s.integ = integ;
                    s.chunks = vec![4];
                    out.push(Program { keys: vec![format!("multi-{ai}"), "y".into()], blobs: vec![Blob::new(len, 9 + ai as u64)], steps: vec![Step { op: Op::Write(s), fl }] });
                }
            }
        }
    }
    for (i, k) in crate::gen::hostile_keys().into_iter().enumerate() {
        let fl = if i % 2 == 0 { Fl::Sync } else { Fl::Async };
        let mut s = WriteSpec::simple(Some(0), 0);
        if i % 3 == 0 {
            s.entry = WEntry::Opts;
            s.metadata = Some(json!({"k": k.chars().take(20).collect::<String>()}));
        } else if i % 3 == 1 {
            s.entry = WEntry::Create;
            s.chunks = vec![1, 2];
        }
        out.push(Program { keys: vec![k, "plain".into()], blobs: vec![Blob::new(6, i as u64)], steps: vec![Step { op: Op::Write(s), fl }, Step { op: Op::Write(WriteSpec::simple(Some(1), 0)), fl }] });
    }
    out
}

fn c11_classify(t: &Trace, st: &mut Stats) -> bool {
    let mut nt = false;
    for s in &t.prog.steps {
        match &s.op {
            Op::Write(w) => {
                let nondefault = w.time.is_some() || w.metadata.is_some() || w.raw_metadata.is_some() || w.declare != Declare::None;
                if w.entry != WEntry::Opts || !nondefault {
                    st.class("default_path_write");
                } else {
                    st.class("explicit_fields_write");
                }
                if w.time.as_ref().map(|t| t.parse::<u128>().unwrap() > u64::MAX as u128).unwrap_or(false) {
                    st.class("time_above_u64");
                }
                let hostile = w.key.map(|k| !t.prog.keys[k].chars().all(|c| c.is_ascii_alphanumeric() || c == '-')).unwrap_or(false);
                if hostile {
                    st.class("hostile_key");
                }
                nt |= nondefault || hostile;
            }
            Op::IdxInsert { fields, .. } => {
                st.class("raw_index_insert");
                nt |= fields.time.is_some() || fields.metadata.is_some() || fields.raw_metadata.is_some();
            }
            _ => {}
        }
    }
    nt
}

pub fn c11() -> ProgEngine {
    ProgEngine {
        id: "C11",
        rule: "writes through every keyed entry point of both flavours and raw index::insert*, with generated key (hostile classes), explicit time \
               (0, 1, 2^63, 2^64-1, 2^64, 2^128-1, uniform u128), JSON metadata trees (depth <=4, control/non-ASCII strings, i64/u64 extremes, decimals of <=6 \
               significant digits), raw metadata (0..4 KiB of arbitrary bytes) and declared size; after every step metadata_sync, metadata, index::find, \
               index::find_async of every key and the list_sync items must return key, integrity, time, size, metadata, raw_metadata identical to what was supplied; \
               defaults: t0 <= time <= t1 (Unix ms clock reads bracketing the call), size == bytes written, metadata == null, raw_metadata == None. \
               Non-trivial = >=1 non-default field or a hostile key (default-path cases are their own class); distinct = distinct program",
        assumptions: &[
            "healthy filesystem (tmpfs scratch)",
            "the system clock does not step backwards during a call (default-timestamp window)",
            "binary64 metadata numbers are restricted to short decimals as the property states",
        ],
        cfg: c11_cfg,
        strategy: None,
        grid: c11_grid,
        grid_note: "boundary timestamps x {WriteOpts, index::insert} x {sync, async}, and every key of the hostile pool once (fixed)",
        random: (3000, 60000),
        classify: c11_classify,
        sweep_every_step: true,
        deep_sweep: true,
        allow_symlinks: false,
        after_step: no_after_step,
        post: no_post,
        min_nontrivial_pct: 30,
    }
}

// ------------------------------------------------------------------------------------ C16

fn c16_cfg(tier: Tier) -> ProgCfg {
    ProgCfg {
        mix: OpMix { write: 16, read: 2, read_hash: 2, damage_content: 2, remove: 1, link_to: 3, two_writers: 2, ..OpMix::NONE },
        wmix: WriteMix { bad_decls: true, meta: false, by_hash: true, rich_matching: false, interfere: false },
        sizes: SizeMix::Small,
        keys: (2, 5),
        blobs: (1, 3),
        max_steps: tier.pick(14, 30),
    }
}

fn c16_grid(_tier: Tier) -> Vec<Program> {
    // the same blob under all five algorithms in one cache, through different entry points,
    // each written twice under different keys, then one copy damaged
    let mut out = Vec::new();
    for (bi, len) in [0usize, 1, 55, 56, 64, 111, 112, 4096, 70000].into_iter().enumerate() {
        let keys: Vec<String> = (0..6).map(|i| format!("key{i}")).collect();
        let blobs = vec![Blob::new(len, 40 + bi as u64)];
        let mut steps = Vec::new();
        for (ai, &algo) in ALGOS.iter().enumerate() {
            let mut a = WriteSpec::simple(Some(ai), 0);
            a.entry = WEntry::OneShotAlgo;
            a.algo = algo;
            steps.push(Step { op: Op::Write(a), fl: if (ai + bi) % 2 == 0 { Fl::Sync } else { Fl::Async } });
            let mut b = WriteSpec::simple(Some(5), 0);
            b.entry = WEntry::Opts;
            b.algo = algo;
            b.chunks = vec![1, len / 2];
            b.declare = if ai % 2 == 0 { Declare::Exact } else { Declare::None };
            steps.push(Step { op: Op::Write(b), fl: if (ai + bi) % 2 == 0 { Fl::Async } else { Fl::Sync } });
            let mut c = WriteSpec::simple(None, 0);
            c.entry = WEntry::OneShotAlgo;
            c.algo = algo;
            steps.push(Step { op: Op::Write(c), fl: Fl::Sync });
        }
        // ... and the same bytes once more as a linked file (builder API, read in different
        // ways before the commit) and through the one-shot call
        for (li, pre) in [vec![], vec![usize::MAX], vec![3, usize::MAX], vec![7, 20000]].into_iter().enumerate() {
            let algo = ALGOS[(bi + li) % 5];
            steps.push(Step {
                op: Op::LinkTo(LinkSpec { key: Some(li % 5), blob: 0, target: li, relative: false, algo, oneshot: false, pre_reads: pre, declare: if li % 2 == 0 { Declare::Exact } else { Declare::None }, integ: IntegDecl::None, dotdot_via_symlink: false, vectored_reads: li == 3 }),
                fl: if (li + bi) % 2 == 0 { Fl::Async } else { Fl::Sync },
            });
        }
        let victim = ALGOS[bi % 5];
        steps.push(Step { op: Op::DamageContent { addr: AddrRef { algo: victim, blob: 0 }, dmg: CDamage::FlipBit(bi * 13) }, fl: Fl::Sync });
        out.push(Program { keys, blobs, steps });
    }
    out
}

fn external_digests(ctx: &Ctx, prog: &Program, st: &mut Stats) -> Result<(), String> {
    // coreutils as the independent implementation for SHA-1/256/384/512
    let dir = ctx.scratch.join("ext");
    let _ = std::fs::create_dir_all(&dir);
    let mut files = Vec::new();
    for i in 0..prog.blobs.len() {
        let p = dir.join(format!("blob{i}"));
        std::fs::write(&p, &ctx.blob(i)[..]).map_err(|e| format!("harness: {e}"))?;
        files.push(p);
    }
    for (tool, algo) in [("sha1sum", Algo::Sha1), ("sha256sum", Algo::Sha256), ("sha384sum", Algo::Sha384), ("sha512sum", Algo::Sha512)] {
        let used = prog.steps.iter().any(|s| match &s.op {
            Op::Write(w) => (if matches!(w.entry, WEntry::OneShot | WEntry::Create) { Algo::Sha256 } else { w.algo }) == algo,
            _ => false,
        });
        if !used {
            continue;
        }
        let out = std::process::Command::new(tool).args(&files).output().map_err(|e| format!("harness: cannot run {tool}: {e}"))?;
        let text = String::from_utf8_lossy(&out.stdout);
        for (i, line) in text.lines().enumerate() {
            let hex = line.split_whitespace().next().unwrap_or("").trim_start_matches('\\');
            let mine = blob::hexs(&blob::digest_raw(algo, &ctx.blob(i)));
            st.eval(1);
            if hex != mine {
                return Err(format!("{tool} says {hex} for blob {i}, the model digest (which the library's addresses were compared with) is {mine}"));
            }
        }
    }
    Ok(())
}

fn c16_post(ctx: &Ctx, t: &Trace, model: &Model, st: &mut Stats) -> Result<(), String> {
    external_digests(ctx, t.prog, st)?;
    // one file per distinct (algorithm, data) that is stored
    let files = crate::reffmt::walk_files(&ctx.cache.join("content-v2"));
    st.eval(1);
    if files.len() != model.content.len() {
        return Err(format!(
            "content area holds {} files but {} distinct (algorithm, data) pairs are stored: {:?}",
            files.len(),
            model.content.len(),
            files.iter().map(|f| f.0.clone()).collect::<Vec<_>>()
        ));
    }
    Ok(())
}

fn c16_after(ctx: &Ctx, prog: &Program, i: usize, r: &StepResult, _model: &Model, st: &mut Stats) -> Result<(), String> {
    // purity: the address depends only on (algorithm, bytes)
    if let (Op::Write(w), Out::Int(s)) = (&prog.steps[i].op, &r.out) {
        let algo = if matches!(w.entry, WEntry::OneShot | WEntry::Create) { Algo::Sha256 } else { w.algo };
        st.eval(1);
        let want = blob::sri(algo, &ctx.blob(w.blob));
        // a keyed commit with a declared (possibly multi-hash) integrity returns the declaration
        let declared_multi = w.entry == WEntry::Opts && w.key.is_some() && !matches!(w.integ, IntegDecl::None | IntegDecl::Correct);
        if *s != want && !declared_multi {
            return Err(format!("address {s} != {want}"));
        }
        if algo == Algo::Xxh3 && !declared_multi {
            // 128-bit big-endian convention
            let raw = xxhash_rust::xxh3::xxh3_128(&ctx.blob(w.blob)).to_be_bytes();
            if *s != format!("xxh3-{}", blob::b64(&raw)) {
                return Err(format!("xxh3 address {s} is not the big-endian 128-bit XXH3"));
            }
        }
    }
    // link_to is an entry point too: the address of a linked file is the digest of its bytes
    if let (Op::LinkTo(l), Out::Int(a)) = (&prog.steps[i].op, &r.out) {
        let algo = if l.oneshot { Algo::Sha256 } else { l.algo };
        st.eval(1);
        let want = blob::sri(algo, &ctx.blob(l.blob));
        let declared_multi = l.key.is_some() && !matches!(l.integ, IntegDecl::None | IntegDecl::Correct);
        if *a != want && !declared_multi {
            return Err(format!("address {a} of the linked file != {want}"));
        }
    }
    Ok(())
}

fn c16_classify(t: &Trace, st: &mut Stats) -> bool {
    let mut seen: std::collections::HashMap<(Algo, usize), Vec<(Option<usize>, WEntry, Fl)>> = Default::default();
    for s in &t.prog.steps {
        if let Op::Write(w) = &s.op {
            let algo = if matches!(w.entry, WEntry::OneShot | WEntry::Create) { Algo::Sha256 } else { w.algo };
            seen.entry((algo, w.blob)).or_default().push((w.key, w.entry, s.fl));
        }
    }
    for s in &t.prog.steps {
        if let Op::LinkTo(l) = &s.op {
            let algo = if l.oneshot { Algo::Sha256 } else { l.algo };
            seen.entry((algo, l.blob)).or_default().push((l.key, WEntry::Opts, s.fl));
            st.class("stored_through_link_to");
        }
    }
    let rewritten = seen.values().any(|v| v.len() >= 2 && v.iter().any(|x| *x != v[0]));
    let mut per_blob: std::collections::HashMap<usize, std::collections::HashSet<Algo>> = Default::default();
    for (a, b) in seen.keys() {
        per_blob.entry(*b).or_default().insert(*a);
    }
    let multi_algo = per_blob.values().any(|s| s.len() >= 2);
    if rewritten {
        st.class("same_data_rewritten_via_other_key_or_entry");
    }
    if multi_algo {
        st.class("one_blob_under_several_algorithms");
    }
    if t.prog.steps.iter().any(|s| matches!(s.op, Op::DamageContent { .. })) {
        st.class("one_copy_damaged");
    }
    rewritten || multi_algo
}

pub fn c16() -> ProgEngine {
    ProgEngine {
        id: "C16",
        rule: "histories that write equal data under the same and different keys through different entry points, flavours and all five algorithms (random), plus a \
               fixed family storing one blob under all five algorithms three times each and then damaging one copy; oracle: returned address == model digest and, \
               per case, == sha1sum/sha256sum/sha384sum/sha512sum (coreutils) over the dumped blobs (XXH3: purity and the 128-bit big-endian convention against \
               xxhash-rust only); number of files under content-v2 == number of distinct (algorithm, data) stored; after every step every key resolves to the \
               stored bytes, every address reads back, and damaging the copy under one algorithm fails reads through that algorithm only. Non-trivial = the same \
               (algorithm, data) written >=2 times through a different key / entry point / flavour, or one blob under >=2 algorithms; distinct = distinct history",
        assumptions: &["healthy filesystem (tmpfs scratch)", "coreutils sha*sum as the independent digest implementation", "no independent XXH3 tool exists in the sandbox"],
        cfg: c16_cfg,
        strategy: None,
        grid: c16_grid,
        grid_note: "fixed family: 9 lengths (incl. SHA block boundaries 55/56/64/111/112) x 5 algorithms x 3 entry points, then 4 link_to commits of the same bytes (read to the end / partly / not at all before the commit), one copy damaged at the end",
        random: (1500, 30000),
        classify: c16_classify,
        sweep_every_step: true,
        deep_sweep: true,
        allow_symlinks: true,
        after_step: c16_after,
        post: c16_post,
        min_nontrivial_pct: 40,
    }
}
