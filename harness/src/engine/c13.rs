//! C13 — a failing filesystem operation surfaces as an error and never corrupts the cache.

use super::basic;
use super::{hash_of, Engine, Stats, Tier, WorkerEnv};
use crate::blob::{Algo, Blob};
use crate::exec::{run_step, Ctx};
use crate::gen::{self, pick, SizeMix, WriteMix, MIB};
use crate::model::{entry_matches, Model};
use crate::ops::*;
use crate::ptrun::{run_supervised, Decision, Paths};
use crate::scratch::Scratch;
use crate::sup::Gate;
use proptest::collection::vec;
use proptest::prelude::*;
use serde::{Deserialize, Serialize};

pub const EIO: i32 = 5;
pub const EACCES: i32 = 13;
pub const EMFILE: i32 = 24;
pub const ENOSPC: i32 = 28;
pub const EDQUOT: i32 = 122;

#[derive(Clone, Debug, Serialize, Deserialize, PartialEq)]
pub enum FaultKind {
    Errno(i32),
    /// a write of n bytes stores only k (0<k<n); the next write to the same file fails with ENOSPC
    ShortThenFail(u16),
}

#[derive(Clone, Debug, Serialize, Deserialize, PartialEq)]
pub struct Fault {
    /// index of the filesystem system call (within the victim's window) that fails
    pub gate: usize,
    pub kind: FaultKind,
}

#[derive(Clone, Debug, Serialize, Deserialize)]
pub struct Case {
    pub prog: Program,
    pub victim: usize,
    pub faults: Vec<Fault>,
    /// Some(n): no injection — the whole program runs in a driver process whose cache directory
    /// is a tmpfs of n KiB mounted in a private mount namespace (the disk really is full)
    #[serde(default)]
    pub tiny_fs_kib: Option<u32>,
}

pub struct C13;

fn creating(g: &Gate) -> bool {
    matches!(
        g.name.as_str(),
        "write" | "pwrite64" | "writev" | "mkdir" | "mkdirat" | "rename" | "renameat" | "renameat2" | "link" | "linkat" | "symlink" | "symlinkat" | "fallocate" | "ftruncate" | "copy_file_range" | "sendfile" | "creat"
    ) || (matches!(g.name.as_str(), "open" | "openat") && g.get("flags").and_then(|f| f.parse::<u64>().ok()).map(|f| f & 0o100 != 0).unwrap_or(false))
}

fn path_call(g: &Gate) -> bool {
    g.kv.contains_key("path") || g.kv.contains_key("path2")
}

/// The errno actually injected at this call: inapplicable codes fall back to EIO.
fn applicable(g: &Gate, e: i32) -> i32 {
    match e {
        ENOSPC | EDQUOT if creating(g) => e,
        EACCES if path_call(g) => e,
        EMFILE if matches!(g.name.as_str(), "open" | "openat" | "openat2" | "creat") => e,
        _ => EIO,
    }
}

fn victims() -> Vec<(&'static str, Op, bool)> {
    // (name, operation, needs the victim key to exist beforehand)
    let a = AddrRef { algo: Algo::Sha256, blob: 1 };
    let w = |key: Option<usize>, entry: WEntry, declare: Declare, chunks: Vec<usize>| {
        let mut s = WriteSpec::simple(key, 0);
        s.entry = entry;
        s.declare = declare;
        s.chunks = chunks;
        Op::Write(s)
    };
    vec![
        ("write_oneshot_keyed", w(Some(0), WEntry::OneShot, Declare::None, vec![]), false),
        ("write_hash_oneshot_mmap", w(None, WEntry::OneShot, Declare::None, vec![]), false),
        ("write_streamed_commit", w(Some(0), WEntry::Opts, Declare::None, vec![7, 9]), false),
        ("write_streamed_declared_mmap", w(Some(0), WEntry::Opts, Declare::Exact, vec![10]), false),
        ("overwrite_keyed", w(Some(1), WEntry::OneShot, Declare::None, vec![]), true),
        // the value written is one another key already holds (shared content file)
        ("write_shared_content", {
            let mut s = WriteSpec::simple(Some(0), 1);
            s.entry = WEntry::OneShot;
            Op::Write(s)
        }, true),
        ("write_shared_content_streamed", {
            let mut s = WriteSpec::simple(Some(0), 1);
            s.entry = WEntry::Opts;
            s.chunks = vec![100];
            Op::Write(s)
        }, true),
        // fewer bytes than declared (the commit is rejected anyway): whatever cleaning up the
        // writer does may fail too
        ("write_short_of_declared_mmap", w(Some(0), WEntry::Opts, Declare::Off(40), vec![10]), false),
        ("write_hash_short_of_declared", w(None, WEntry::Opts, Declare::Off(4096), vec![5, 5]), false),
        ("read", Op::Read { key: 1 }, true),
        ("read_hash", Op::ReadHash { addr: a }, true),
        ("stream_check", Op::Stream { by: By::Key(1), bufs: vec![5, 100] }, true),
        ("copy", Op::Extract { kind: XKind::Copy, checked: true, by: By::Key(1), dest: Dest::Absent }, true),
        ("copy_hash_unchecked", Op::Extract { kind: XKind::Copy, checked: false, by: By::Addr(a), dest: Dest::Absent }, true),
        ("hard_link", Op::Extract { kind: XKind::HardLink, checked: true, by: By::Key(1), dest: Dest::Absent }, true),
        // onto an existing file of exactly the entry's length (other bytes): a failure to open or
        // write it leaves a file that has the right size and the wrong bytes
        // the destination already is a hard link of the entry's content file (the second of two
        // identical calls): whatever the failing call falls back to must not empty that file
        ("hard_link_onto_own_link", Op::Extract { kind: XKind::HardLink, checked: true, by: By::Key(1), dest: Dest::LinkOfContent }, true),
        ("copy_onto_own_link", Op::Extract { kind: XKind::Copy, checked: true, by: By::Key(1), dest: Dest::LinkOfContent }, true),
        ("copy_onto_same_length_file", Op::Extract { kind: XKind::Copy, checked: true, by: By::Key(1), dest: Dest::ExistingSameLength }, true),
        ("copy_hash_unchecked_onto_same_length_file", Op::Extract { kind: XKind::Copy, checked: false, by: By::Addr(a), dest: Dest::ExistingSameLength }, true),
        ("remove", Op::Remove { key: 1 }, true),
        ("remove_hash", Op::RemoveHash { addr: a }, true),
        ("remove_fully", Op::RemoveOpts { key: 1, fully: true }, true),
        ("list", Op::List, true),
        ("metadata", Op::Meta { key: 1 }, true),
        (
            "link_to",
            Op::LinkTo(LinkSpec { key: Some(0), blob: 2, target: 0, relative: false, algo: Algo::Sha256, oneshot: true, pre_reads: vec![], declare: Declare::Exact, integ: IntegDecl::None, dotdot_via_symlink: false, vectored_reads: false }),
            false,
        ),
        ("index_find_async", Op::IdxFind { key: 1 }, true),
        ("index_insert", Op::IdxInsert { key: 0, fields: IdxFields { integrity: Some(a), size: Some(3), time: Some("5".into()), metadata: None, raw_metadata: None } }, false),
    ]
}

fn scenario(op: &Op, fl: Fl, blob_len: usize) -> (Program, usize) {
    // key 0: multi-byte characters on every even byte offset (nothing may slice it blindly)
    // key 2 (a bystander): its bucket file is in the same index sub-directory as key 0's
    let k0 = format!("a{}", "é".repeat(200));
    let keys = vec![k0.clone(), "présent".to_string(), super::c09::bucket_dir_neighbour(&k0, "bystander"), "afterwards".to_string()];
    // (blobs 3 and 4 belong to the continuation alone: it must not re-create what the faulty call may have destroyed)
    // blob 2 (the bystander's value): its content file is in the same content sub-directory as blob 0's
    let b0 = Blob::new(blob_len, 41);
    let blobs = vec![b0.clone(), Blob::new(300, 42), super::c09::content_dir_neighbour(Algo::Sha256, &b0, 17), Blob::new(23, 44), Blob::new(29, 45)];
    let steps = vec![
        Step { op: Op::Write(WriteSpec::simple(Some(1), 1)), fl: Fl::Sync },
        Step { op: Op::Write(WriteSpec::simple(Some(2), 2)), fl: Fl::Async },
        Step { op: op.clone(), fl },
        // the SAME process carries on after the faulty call (faults are over by then): whatever
        // the failed call left behind in the process must not leak into later calls
        Step { op: Op::Write(WriteSpec::simple(Some(3), 3)), fl },
        Step { op: Op::Meta { key: 3 }, fl },
        Step { op: Op::Remove { key: 3 }, fl: Fl::Sync },
        Step { op: Op::Meta { key: 3 }, fl: Fl::Sync },
        Step { op: Op::Write(WriteSpec::simple(Some(3), 4)), fl: if fl == Fl::Sync { Fl::Async } else { Fl::Sync } },
        Step { op: Op::Meta { key: 3 }, fl },
        Step { op: Op::Meta { key: 1 }, fl },
    ];
    (Program { keys, blobs, steps }, 2)
}

/// Fault-free traced run: the filesystem system calls of the victim's window.
fn trace_gates(prog: &Program, victim: usize) -> Result<Vec<Gate>, String> {
    let sc = Scratch::new();
    let ctx = Ctx::new(sc.cache.clone(), sc.scratch.clone(), &prog.keys, &prog.blobs);
    for s in &prog.steps[..victim] {
        let _ = run_step(&ctx, s);
    }
    let paths = Paths::new(&sc.root, &sc.cache, &sc.scratch, prog);
    let run = run_supervised(&paths, victim, victim + 1, true, None, |_, _| Decision::Continue)?;
    Ok(run.gates.into_iter().map(|g| g.gate).collect())
}

fn is_mutating(op: &Op) -> bool {
    matches!(op, Op::Write(_) | Op::LinkTo(_) | Op::Remove { .. } | Op::RemoveHash { .. } | Op::RemoveOpts { .. } | Op::IdxInsert { .. } | Op::IdxDelete { .. })
}

fn op_key(op: &Op) -> Option<usize> {
    match op {
        Op::Write(w) => w.key,
        Op::LinkTo(l) => l.key,
        Op::Remove { key } | Op::RemoveOpts { key, .. } | Op::IdxInsert { key, .. } | Op::IdxDelete { key } => Some(*key),
        _ => None,
    }
}

fn op_addr(ctx: &Ctx, model: &Model, op: &Op) -> Vec<(Algo, String)> {
    match op {
        Op::Write(w) => {
            let algo = if matches!(w.entry, WEntry::OneShot | WEntry::Create) { Algo::Sha256 } else { w.algo };
            vec![Model::addr_of(ctx, AddrRef { algo, blob: w.blob })]
        }
        Op::LinkTo(l) => vec![Model::addr_of(ctx, AddrRef { algo: if l.oneshot { Algo::Sha256 } else { l.algo }, blob: l.blob })],
        Op::RemoveHash { addr } => vec![Model::addr_of(ctx, *addr)],
        Op::RemoveOpts { key, fully: true } => {
            model.entry(ctx.key(*key)).and_then(|e| crate::blob::sri_address(&e.integrity)).into_iter().collect()
        }
        _ => vec![],
    }
}

impl C13 {
    /// Judges the victim's outcome under the fault and brings the model in line with the
    /// (old-or-new) state that resulted.
    fn judge(&self, ctx: &Ctx, model: &mut Model, step: &Step, out: &Out, t0: u128, t1: u128, what: &str, st: &mut Stats) -> Result<(), String> {
        if let Out::Panic(m) = out {
            return Err(format!("{what}: the call panicked: {m}"));
        }
        if let Out::Hang = out {
            return Err(format!("{what}: the call did not return"));
        }
        // an outcome that is right even without any fault is always acceptable
        let mut trial = model.clone();
        if trial.step(ctx, step, out, t0, t1).is_ok() {
            *model = trial;
            st.class("outcome_as_without_fault");
            return Ok(());
        }
        // a listing that reports the failure as error items is truthful when everything else it
        // yields is a live entry (it may be incomplete)
        if let (Op::List | Op::IdxLs, Out::List(ents, errs)) = (&step.op, out) {
            if *errs > 0 {
                for (i, m) in ents.iter().enumerate() {
                    if ents[..i].iter().any(|x| x.key == m.key) {
                        return Err(format!("{what}: the listing yields key {:?} twice", m.key));
                    }
                    match model.entry(&m.key) {
                        Some(e) => entry_matches(e, &m.key, m).map_err(|x| format!("{what}: listing item {:?}: {x}", m.key))?,
                        None => return Err(format!("{what}: the listing yields {:?}, which is not a live entry", m.key)),
                    }
                }
                st.class("error_surfaced");
                return Ok(());
            }
        }
        let is_err = out.is_err();
        if !is_err {
            // a success the model rejects is an untruthful success
            let why = model.clone().step(ctx, step, out, t0, t1).err().unwrap_or_default();
            return Err(format!("{what}: untruthful success: {why}"));
        }
        st.class("error_surfaced");
        match &step.op {
            Op::Read { key } | Op::Stream { by: By::Key(key), .. } | Op::Extract { by: By::Key(key), .. } => {
                let kind = match out {
                    Out::Err(k, _) => k.clone(),
                    Out::ExtractErr { kind, .. } => kind.clone(),
                    _ => unreachable!(),
                };
                if kind == ErrKind::EntryNotFound && model.entry(ctx.key(*key)).is_some() {
                    return Err(format!("{what}: reported 'entry not found' for a key that is present (the failure was swallowed): {}", out.short()));
                }
                Ok(())
            }
            Op::Meta { .. } | Op::IdxFind { .. } | Op::ReadHash { .. } | Op::Stream { .. } | Op::Extract { .. } | Op::List | Op::IdxLs => Ok(()),
            op if is_mutating(op) => {
                // the victim's key is in its old or its new state; its address may or may not have changed
                if let Some(k) = op_key(op) {
                    let key = ctx.key(k).to_string();
                    let old = model.entry(&key).cloned();
                    let new = match op {
                        Op::Write(w) => Some(Model::expected_entry(ctx, w, t0, t1)),
                        Op::LinkTo(l) => Some(crate::model::Entry {
                            integrity: crate::blob::sri(if l.oneshot { Algo::Sha256 } else { l.algo }, &ctx.blob(l.blob)),
                            size: ctx.blobs[l.blob].len as u64,
                            time: crate::model::TimeSpec::Window(t0, t1),
                            metadata: serde_json::Value::Null,
                            raw_metadata: None,
                        }),
                        Op::IdxInsert { fields, .. } => fields.integrity.map(|a| crate::model::Entry {
                            integrity: ctx.sri_of(a),
                            size: fields.size.unwrap_or(0) as u64,
                            time: match &fields.time {
                                Some(t) => crate::model::TimeSpec::Exact(t.parse().unwrap()),
                                None => crate::model::TimeSpec::Window(t0, t1),
                            },
                            metadata: fields.metadata.clone().unwrap_or(serde_json::Value::Null),
                            raw_metadata: fields.raw_metadata.clone(),
                        }),
                        _ => None,
                    };
                    let r = run_step(ctx, &Step { op: Op::Meta { key: k }, fl: Fl::Sync });
                    st.eval(1);
                    let got = match r.out {
                        Out::Meta(m) => m,
                        o => return Err(format!("{what}: after the failed call a fault-free lookup of the key fails: {}", o.short())),
                    };
                    let matches = |e: &Option<crate::model::Entry>| match (&got, e) {
                        (None, None) => true,
                        (Some(m), Some(e)) => entry_matches(e, &key, m).is_ok(),
                        _ => false,
                    };
                    if matches(&old) {
                        // unchanged (the bucket file may have been created)
                        if ctx.cache.join("index-v5").exists() {
                            model.index_dir = true;
                        }
                        if crate::reffmt::bucket_path(&ctx.cache, &key).exists() {
                            model.index.entry(key.clone()).or_default().bucket_exists = true;
                        }
                    } else if matches(&new) {
                        let e = new.map(|mut e| {
                            if let Some(m) = &got {
                                e.time = crate::model::TimeSpec::Exact(m.time.parse().unwrap());
                            }
                            e
                        });
                        model.set_entry(&key, e);
                    } else if matches!(op, Op::RemoveOpts { fully: true, .. }) && got.is_none() {
                        // the bucket file is gone
                        model.index.insert(key.clone(), crate::model::KeyState { bucket_exists: crate::reffmt::bucket_path(&ctx.cache, &key).exists(), entry: None });
                    } else {
                        return Err(format!("{what}: after the failed call the key maps to {:?}, neither its old nor its new state", got));
                    }
                }
                if let Op::Write(w) = &step.op {
                    if (w.aged_hours != 0 || w.crowd > 0) && w.streamed() {
                        let other = crate::exec::other_blob(ctx, w.blob);
                        let o = (Algo::Sha256, crate::blob::hexs(&crate::blob::digest_raw(Algo::Sha256, &other)));
                        model.adopt_content(ctx, &o);
                    }
                }
                for a in op_addr(ctx, model, &step.op) {
                    // a write or link never takes valid content away that was there before it
                    // (other keys may hold it); only the removals may
                    let was_valid = matches!(model.read_exp(&a), crate::model::ReadExp::Bytes(_));
                    model.adopt_content(ctx, &a);
                    if was_valid && matches!(step.op, Op::Write(_) | Op::LinkTo(_) | Op::IdxInsert { .. }) && !matches!(model.read_exp(&a), crate::model::ReadExp::Bytes(_)) {
                        return Err(format!(
                            "{what}: the content at {} was complete and valid before the call and is {} after it",
                            crate::reffmt::content_rel(a.0, &a.1),
                            crate::model::cshort(&model.content.get(&a).cloned())
                        ));
                    }
                }
                if ctx.cache.join("index-v5").exists() {
                    model.index_dir = true;
                }
                Ok(())
            }
            _ => Ok(()),
        }
    }
}

impl Engine for C13 {
    type Case = Case;
    fn id(&self) -> &'static str {
        "C13"
    }
    fn level(&self) -> &'static str {
        "fault_enumeration"
    }
    fn rule(&self) -> String {
        "(scenario, i, fault): a victim operation (write one-shot / streamed / memory-mapped / overwrite, read, read_hash, stream+check, copy, unchecked copy, hard link, remove, \
         remove_hash, full removal, list, metadata, raw index insert; sync and async, both builds) after a two-entry preamble runs in a driver process under the ptrace \
         supervisor (read-side and mutating system calls gated); a fault-free traced run lists the N filesystem system calls of the operation, then for EVERY i the i-th call \
         is not executed and returns an injected errno (EIO everywhere; ENOSPC/EDQUOT on creating/extending calls; EACCES on path calls; EMFILE on open), or a write is made \
         short and the next write to the same file fails with ENOSPC; pairs of faults in the thorough tier. Oracle: (1) the call returns — no panic, hang or abnormal exit; (2) \
         truthfulness: an outcome the reference model rejects as a success is a violation, 'not found' for a key that is present is a violation, after an error the victim key \
         is in its old or new state; (3) fault-free sweep: every other key and address equals the model, the content tree is valid, the listing is exact; (4) the same operation \
         re-run without faults behaves per the model. Non-trivial = the selected call was reached and the fault delivered; distinct = distinct (scenario, call, fault)"
            .into()
    }
    fn assumptions(&self) -> Vec<String> {
        vec![
            "only the fault classes the statement lists are injected; a short write that is not followed by a failure is not treated as a failing operation".into(),
            "partial index records left by a failed append are legal as long as lookups stay correct".into(),
            "leftover temp files after a failed call are legal (the statement constrains the content and index areas)".into(),
            "after a failed extraction the destination is not judged (C18 covers verification failures)".into(),
            "exists() returns a bare bool and cannot surface an error; it is not a victim".into(),
        ]
    }
    fn exhaustive(&self, tier: Tier) -> Vec<Case> {
        let mut out = Vec::new();
        out.extend(tiny_fs_cases());
        // the temp area on another filesystem: publication by rename is impossible there; whatever
        // the implementation does instead must stay truthful under a fault
        for fl in [Fl::Sync, Fl::Async] {
            for keyed in [true, false] {
                let mut w = WriteSpec::simple(if keyed { Some(0) } else { None }, 0);
                w.entry = WEntry::Opts;
                w.chunks = vec![20000];
                let (mut prog, _) = scenario(&Op::Write(w), fl, 70000);
                prog.steps.insert(2, Step { op: Op::TmpElsewhere, fl: Fl::Sync });
                let victim = 3;
                if let Ok(gates) = trace_gates(&prog, victim) {
                    for (i, g) in gates.iter().enumerate() {
                        out.push(Case { prog: prog.clone(), victim, faults: vec![Fault { gate: i, kind: FaultKind::Errno(applicable(g, if i % 2 == 0 { EIO } else { ENOSPC })) }], tiny_fs_kib: None });
                        if g.is_write_class() && g.count().unwrap_or(0) >= 2 {
                            out.push(Case { prog: prog.clone(), victim, faults: vec![Fault { gate: i, kind: FaultKind::ShortThenFail(20000) }], tiny_fs_kib: None });
                        }
                    }
                }
            }
        }
        // the victim's key has a bucket of more than 1 MiB (three records of ~390 KB): whatever
        // an implementation does to big buckets when it appends, a failing call keeps the old entry
        for fl in [Fl::Sync, Fl::Async] {
            for vop in [Op::Write(WriteSpec::simple(Some(0), 0)), Op::Remove { key: 0 }] {
                let (mut prog, _) = scenario(&vop, fl, 50);
                for i in 0..3usize {
                    let mut big = WriteSpec::simple(Some(0), 1 + i % 2);
                    big.entry = WEntry::Opts;
                    big.raw_metadata = Some(crate::gen::huge_raw_meta(100_000 + i, i as u8));
                    prog.steps.insert(2 + i, Step { op: Op::Write(big), fl: if i % 2 == 0 { Fl::Sync } else { Fl::Async } });
                }
                let victim = 5;
                if let Ok(gates) = trace_gates(&prog, victim) {
                    for (i, g) in gates.iter().enumerate() {
                        out.push(Case { prog: prog.clone(), victim, faults: vec![Fault { gate: i, kind: FaultKind::Errno(applicable(g, if i % 2 == 0 { EIO } else { ENOSPC })) }], tiny_fs_kib: None });
                        if g.is_write_class() && g.count().unwrap_or(0) >= 2 {
                            out.push(Case { prog: prog.clone(), victim, faults: vec![Fault { gate: i, kind: FaultKind::ShortThenFail(7) }], tiny_fs_kib: None });
                        }
                    }
                }
            }
        }
        let errnos_quick = [EIO, ENOSPC];
        let errnos_full = [EIO, ENOSPC, EDQUOT, EACCES, EMFILE];
        for (vi, (_name, op, _)) in victims().into_iter().enumerate() {
            for fl in [Fl::Sync, Fl::Async] {
                let lens: Vec<usize> = if matches!(op, Op::Write(_)) { tier.pick(vec![20], vec![20, 70000, MIB + 5]) } else { vec![20] };
                for len in lens {
                    let (prog, victim) = scenario(&op, fl, len);
                    let gates = match trace_gates(&prog, victim) {
                        Ok(g) => g,
                        Err(_) => continue,
                    };
                    for (i, g) in gates.iter().enumerate() {
                        let errs: Vec<i32> = match tier {
                            Tier::Quick => {
                                // EIO everywhere; a second, class-specific errno per call
                                let second = if creating(g) { ENOSPC } else if matches!(g.name.as_str(), "open" | "openat") { EMFILE } else if path_call(g) { EACCES } else { EIO };
                                let mut v = vec![EIO];
                                if second != EIO {
                                    v.push(second);
                                }
                                // extractions: the destination may be somebody's the caller cannot write
                                if matches!(op, Op::Extract { .. }) && path_call(g) && second != EACCES {
                                    v.push(EACCES);
                                }
                                let _ = errnos_quick;
                                v
                            }
                            Tier::Thorough => {
                                let mut v: Vec<i32> = errnos_full.iter().map(|&e| applicable(g, e)).collect();
                                v.sort();
                                v.dedup();
                                v
                            }
                        };
                        for e in errs {
                            out.push(Case { prog: prog.clone(), victim, faults: vec![Fault { gate: i, kind: FaultKind::Errno(e) }], tiny_fs_kib: None });
                        }
                        if g.is_write_class() && g.count().unwrap_or(0) >= 2 {
                            for sel in [1u16, 30000] {
                                out.push(Case { prog: prog.clone(), victim, faults: vec![Fault { gate: i, kind: FaultKind::ShortThenFail(sel) }], tiny_fs_kib: None });
                            }
                        }
                    }
                    if tier == Tier::Thorough {
                        // pairs of faults i<j (the second only matters when the call survives the first)
                        let n = gates.len();
                        for i in 0..n {
                            for j in (i + 1)..n {
                                if (i * 7 + j * 3 + vi) % 4 == 0 {
                                    out.push(Case {
                                        prog: prog.clone(),
                                        victim,
                                        faults: vec![Fault { gate: i, kind: FaultKind::Errno(EIO) }, Fault { gate: j, kind: FaultKind::Errno(applicable(&gates[j], ENOSPC)) }],
                                        tiny_fs_kib: None,
                                    });
                                }
                            }
                        }
                    }
                }
            }
        }
        out
    }
    fn exhaustive_note(&self, tier: Tier) -> String {
        format!(
            "really full disks (tmpfs of 256 KiB / 1 MiB in a private mount namespace) x 6 write shapes x 2 flavours; writes with the temp area on another filesystem x every call x EIO; {} victim operations x 2 flavours: every filesystem system call of the operation x {} (plus short-write-then-ENOSPC on every data / index write{})",
            victims().len(),
            tier.pick("EIO and one class-specific errno", "every applicable errno of {EIO, ENOSPC, EDQUOT, EACCES, EMFILE}"),
            tier.pick("", "; a quarter of all fault pairs i<j")
        )
    }
    fn random_cases(&self, tier: Tier) -> u32 {
        tier.pick(400, 8000)
    }
    fn strategy(&self, _tier: Tier) -> BoxedStrategy<Case> {
        let wm = WriteMix { bad_decls: false, meta: true, by_hash: true, rich_matching: false, interfere: false };
        let nv = victims().len();
        (
            gen::blob(SizeMix::Normal),
            gen::fl(),
            prop_oneof![
                2 => gen::write_spec(wm, 2, 1).prop_map(Op::Write),
                3 => (0..nv).prop_map(|i| victims()[i].1.clone()),
            ],
            vec(
                (0usize..45, prop_oneof![
                    4 => prop_oneof![Just(EIO), Just(ENOSPC), Just(EDQUOT), Just(EACCES), Just(EMFILE)].prop_map(FaultKind::Errno),
                    1 => any::<u16>().prop_map(FaultKind::ShortThenFail),
                ]),
                1..3,
            ),
        )
            .prop_map(|(blob, fl, op, faults)| {
                let (mut prog, victim) = scenario(&op, fl, 20);
                prog.blobs[0] = blob;
                if prog.blobs[0].bytes() == prog.blobs[1].bytes() || prog.blobs[0].bytes() == prog.blobs[2].bytes() {
                    prog.blobs[0].len += 1;
                }
                let mut faults: Vec<Fault> = faults.into_iter().map(|(gate, kind)| Fault { gate, kind }).collect();
                faults.sort_by_key(|f| f.gate);
                faults.dedup_by_key(|f| f.gate);
                Case { prog, victim, faults, tiny_fs_kib: None }
            })
            .boxed()
    }
    fn max_shrink_iters(&self) -> u32 {
        300
    }
    fn run_case(&self, c: &Case, st: &mut Stats, env: &mut WorkerEnv) -> Result<(), String> {
        if let Some(kib) = c.tiny_fs_kib {
            return run_tiny_fs(c, kib, st, env);
        }
        env.scratch.reset();
        let prog = &c.prog;
        let ctx = Ctx::new(env.scratch.cache.clone(), env.scratch.scratch.clone(), &prog.keys, &prog.blobs);
        let mut model = Model::new();
        for (i, s) in prog.steps[..c.victim].iter().enumerate() {
            let r = run_step(&ctx, s);
            model.step(&ctx, s, &r.out, r.t0, r.t1).map_err(|e| format!("preamble {}: {e}", basic::describe_step(prog, i)))?;
        }
        let vstep = &prog.steps[c.victim];
        let paths = Paths::new(&env.scratch.root, &env.scratch.cache, &env.scratch.scratch, prog);
        let mut delivered: Vec<String> = Vec::new();
        let mut fail_next_write_on: Option<String> = None;
        // the traced process runs the victim and whatever the program holds after it; faults
        // are delivered inside the victim's window only (gates counted there)
        let run = run_supervised(&paths, c.victim, prog.steps.len(), true, None, |g, idx| {
            if crate::ptrun::current_step() != c.victim {
                return Decision::Continue;
            }
            if let Some(p) = &fail_next_write_on {
                if g.is_write_class() && g.get("fdpath") == Some(p.as_str()) {
                    delivered.push(format!("#{idx} {} -> ENOSPC (after the short write)", g.short()));
                    fail_next_write_on = None;
                    return Decision::Errno(ENOSPC);
                }
            }
            for f in &c.faults {
                if f.gate == idx {
                    match &f.kind {
                        FaultKind::Errno(e) => {
                            let e = applicable(g, *e);
                            delivered.push(format!("#{idx} {} -> errno {e}", g.short()));
                            return Decision::Errno(e);
                        }
                        FaultKind::ShortThenFail(sel) => {
                            let n = g.count().unwrap_or(0);
                            if g.is_write_class() && n >= 2 {
                                let k = 1 + pick(*sel, (n - 1) as usize) as u64;
                                delivered.push(format!("#{idx} {} -> short write of {k}", g.short()));
                                fail_next_write_on = g.get("fdpath").map(|s| s.to_string());
                                return Decision::Short(k.clamp(1, n - 1));
                            } else {
                                delivered.push(format!("#{idx} {} -> errno {EIO}", g.short()));
                                return Decision::Errno(EIO);
                            }
                        }
                    }
                }
            }
            Decision::Continue
        })?;
        let what = format!("{} [{:?}] with fault(s) {}", vstep.op.name(), vstep.fl, if delivered.is_empty() { "none delivered".to_string() } else { delivered.join(", ") });
        if run.status != "e0" {
            return Err(format!("{what}: the process ended abnormally ({})", run.status));
        }
        let (_, out, t0, t1) = run.outs.first().cloned().ok_or_else(|| format!("{what}: the call produced no result"))?;
        st.eval(1);
        self.judge(&ctx, &mut model, vstep, &out, t0, t1, &what, st)?;
        // the calls the same process made after the faulty one
        for (k, (i, o, a, b)) in run.outs.iter().enumerate().skip(1) {
            let _ = k;
            if let Some(s) = prog.steps.get(*i) {
                st.eval(1);
                model.step(&ctx, s, o, *a, *b).map_err(|e| format!("{what}; later in the same process, {}: {e}", basic::describe_step(prog, *i)))?;
            }
        }
        // (3) everything else is as the model says; files in the content / index areas are complete and valid
        let addrs = basic::addr_universe(prog);
        basic::sweep_keys(&ctx, &mut model, st, true, 0).map_err(|e| format!("{what}; afterwards: {e}"))?;
        basic::sweep_addrs(&ctx, &mut model, st, &addrs, 0).map_err(|e| format!("{what}; afterwards: {e}"))?;
        basic::sweep_list(&ctx, &mut model, st).map_err(|e| format!("{what}; afterwards: {e}"))?;
        // strict: nothing in these cases is harness damage, so every file must be complete and valid
        let bad = crate::reffmt::content_tree_violations(&ctx.cache, false);
        if !bad.is_empty() {
            return Err(format!("{what}; afterwards the content area is invalid: {}", bad.join("; ")));
        }
        // (4) once the fault is gone the same call behaves normally
        let r = run_step(&ctx, vstep);
        st.eval(1);
        model.step(&ctx, vstep, &r.out, r.t0, r.t1).map_err(|e| format!("{what}; the same call re-run without faults: {e}"))?;
        basic::sweep_keys(&ctx, &mut model, st, true, 1).map_err(|e| format!("{what}; after the fault-free re-run: {e}"))?;
        basic::sweep_list(&ctx, &mut model, st).map_err(|e| format!("{what}; after the fault-free re-run: {e}"))?;
        st.class(&format!("victim_{}", vstep.op.name()));
        st.class(if vstep.fl == Fl::Sync { "victim_sync" } else { "victim_async" });
        if !delivered.is_empty() {
            st.class("fault_delivered");
            st.class("nontrivial");
            st.nontrivial(hash_of(c));
            if delivered.iter().any(|d| d.contains("short write")) {
                st.class("short_write_then_failure");
            }
            if c.faults.len() >= 2 && delivered.len() >= 2 {
                st.class("two_faults_delivered");
            }
        } else {
            st.class("fault_point_beyond_end");
        }
        st.sample(|| serde_json::json!({"victim": vstep, "faults": c.faults, "delivered": delivered, "outcome": out.short()}));
        Ok(())
    }
    fn health(&self, st: &Stats, _tier: Tier) -> Result<(), String> {
        let d = *st.classes.get("fault_delivered").unwrap_or(&0);
        if st.cases >= 200 && d * 2 < st.cases {
            return Err(format!("faults delivered in only {d} of {} cases", st.cases));
        }
        Ok(())
    }
}

/// Programs for a really full disk: a small write, the victim (larger than the filesystem), then
/// lookups and another small write.
fn tiny_fs_cases() -> Vec<Case> {
    let mut out = Vec::new();
    for (kib, len) in [(256u32, 300_000usize), (1024, 1_500_000)] {
        for fl in [Fl::Sync, Fl::Async] {
            for (entry, keyed, declare) in [
                (WEntry::OneShot, true, Declare::None),
                (WEntry::OneShot, false, Declare::None),
                (WEntry::Opts, true, Declare::Exact),
                (WEntry::Opts, false, Declare::Exact),
                (WEntry::Opts, true, Declare::None),
                (WEntry::CreateAlgo, true, Declare::None),
            ] {
                let mut v = WriteSpec::simple(if keyed { Some(0) } else { None }, 0);
                v.entry = entry;
                v.declare = declare;
                if v.streamed() {
                    v.chunks = vec![len / 3, len / 3];
                }
                let keys = vec!["too-big".to_string(), "small-before".to_string(), "small-after".to_string()];
                let blobs = vec![Blob::new(len, 5), Blob::new(100, 6), Blob::new(50, 7)];
                let steps = vec![
                    Step { op: Op::Write(WriteSpec::simple(Some(1), 1)), fl: Fl::Sync },
                    Step { op: Op::Write(v), fl },
                    Step { op: Op::Meta { key: 0 }, fl: Fl::Sync },
                    Step { op: Op::Read { key: 1 }, fl },
                    Step { op: Op::Write(WriteSpec::simple(Some(2), 2)), fl },
                    Step { op: Op::Read { key: 2 }, fl: Fl::Sync },
                    Step { op: Op::List, fl: Fl::Sync },
                ];
                out.push(Case { prog: Program { keys, blobs, steps }, victim: 1, faults: vec![], tiny_fs_kib: Some(kib) });
            }
        }
    }
    out
}

fn run_tiny_fs(c: &Case, kib: u32, st: &mut Stats, env: &mut WorkerEnv) -> Result<(), String> {
    env.scratch.reset();
    let prog = &c.prog;
    let pf = env.scratch.root.join("prog.json");
    std::fs::write(&pf, serde_json::to_string(prog).unwrap()).map_err(|e| format!("INFRA: {e}"))?;
    let of = env.scratch.root.join("out.jsonl");
    let _ = std::fs::remove_file(&of);
    let mut cmd = crate::sup::driver_cmd(&env.scratch.cache, &env.scratch.scratch, &pf, 0, prog.steps.len(), &of);
    cmd.pop(); // no markers
    // unshare -m sh -c 'mount -t tmpfs -o size=Nk tmpfs "$0" && exec "$@"' <cache> driver exec ...
    let script = format!("mount -t tmpfs -o size={kib}k tmpfs \"$0\" && exec \"$@\"");
    let o = std::process::Command::new("unshare")
        .arg("-m")
        .arg("sh")
        .arg("-c")
        .arg(&script)
        .arg(&env.scratch.cache)
        .args(&cmd)
        .stdin(std::process::Stdio::null())
        .stdout(std::process::Stdio::null())
        .stderr(std::process::Stdio::piped())
        .output();
    let o = match o {
        Ok(o) => o,
        Err(_) => {
            st.class("tiny_fs_unavailable");
            return Ok(());
        }
    };
    let err = String::from_utf8_lossy(&o.stderr).to_string();
    if err.contains("unshare") && err.contains("Operation not permitted") || err.contains("mount:") {
        // no privilege for a private mount: this family cannot run here
        st.class("tiny_fs_unavailable");
        return Ok(());
    }
    let what = format!("on a really full {kib} KiB filesystem, {:?} [{:?}]", prog.steps[1].op, prog.steps[1].fl);
    if !o.status.success() {
        return Err(format!("{what}: the process ended abnormally ({:?}) {}", o.status, err.chars().take(300).collect::<String>()));
    }
    let outs = crate::sup::read_outs(&of)?;
    let keys = prog.keys.clone();
    let ctx = Ctx::new(env.scratch.cache.clone(), env.scratch.scratch.clone(), &keys, &prog.blobs);
    let mut model = Model::new();
    model.pure = true;
    for (i, o, t0, t1) in &outs {
        st.eval(1);
        if *i == c.victim {
            // larger than the filesystem: it cannot succeed; it must fail with an error
            match o {
                Out::Err(ErrKind::Io { .. }, _) => continue,
                other => return Err(format!("{what}: expected an I/O error, got {}", other.short())),
            }
        }
        model.step(&ctx, &prog.steps[*i], o, *t0, *t1).map_err(|e| format!("{what}; then {}: {e}", basic::describe_step(prog, *i)))?;
    }
    if outs.len() != prog.steps.len() {
        return Err(format!("{what}: only {} of {} steps produced a result", outs.len(), prog.steps.len()));
    }
    st.class("really_full_disk");
    st.class("fault_delivered");
    st.class("nontrivial");
    st.nontrivial(hash_of(c));
    st.sample(|| serde_json::json!({"tiny_fs_kib": kib, "victim": prog.steps[1]}));
    Ok(())
}
