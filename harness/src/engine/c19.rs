//! C19 — linked entries (link_to) read back verified target bytes, never copy or clobber.

use super::basic;
use super::{hash_of, Engine, Stats, Tier, WorkerEnv};
use crate::blob::{self, Algo, Blob, ALGOS};
use crate::exec::{run_step, Ctx};
use crate::gen::{self, SizeMix};
use crate::model::Model;
use crate::ops::*;
use crate::sup::run_fresh;
use proptest::collection::vec;
use proptest::prelude::*;
use serde::{Deserialize, Serialize};
use std::os::unix::fs::MetadataExt;

#[derive(Clone, Copy, Debug, Serialize, Deserialize, PartialEq)]
pub enum Post {
    None,
    Modify,
    Truncate,
    Remove,
    Replace,
    /// same length, other bytes, and the modification time put back (`cp -p`, `rsync -t`)
    ModifyKeepMtime,
    /// the cache's temp area moves to another filesystem, then the same bytes are stored
    /// through an ordinary write: whatever publishes that content does not touch the target
    WriteSameTmpElsewhere,
    /// the target is changed (the link reads other bytes now), then the original bytes are stored
    /// through an ordinary write: that write succeeds and the entry reads back again
    ModifyThenWriteSame,
    /// the entry is removed through the cache in every way there is (remove_hash, full removal
    /// of the key, clear): the link goes, the user's file stays as it is
    RemoveThroughCache,
}

#[derive(Clone, Debug, Serialize, Deserialize)]
pub struct Case {
    pub blob: Blob,
    pub link: LinkSpec,
    pub fl: Fl,
    /// relative target path: depth of the working directory below the sandbox root
    pub cwd_depth: u8,
    /// the address already exists as regular content before linking
    pub preexisting: bool,
    pub post: Post,
    /// the same target file was linked successfully before, under the other key (the link
    /// under test — which may be rejected — must leave that entry alone)
    #[serde(default)]
    pub prior_link: bool,
}

pub struct C19;

fn mk_link(key: Option<usize>, relative: bool, oneshot: bool, algo: Algo, pre_reads: Vec<usize>, declare: Declare, integ: IntegDecl) -> LinkSpec {
    LinkSpec { key, blob: 0, target: 0, relative, algo: if oneshot { Algo::Sha256 } else { algo }, oneshot, pre_reads, declare, integ, dotdot_via_symlink: false, vectored_reads: false }
}

impl Engine for C19 {
    type Case = Case;
    fn id(&self) -> &'static str {
        "C19"
    }
    fn rule(&self) -> String {
        "link_to / link_to_hash / WriteOpts::link_to* (sync and async, both builds) over target contents of 0 B, around the 8-byte probe and the 16 KiB read buffer, and larger; \
         target given absolute or relative (relative cases run in a driver process whose working directory is 0-3 levels below the sandbox root); 0-3 partial reads through the linker \
         before commit (for relative targets also a change of the working directory between opening the linker and its commit); the address may already exist as regular content; declared size / integrity matching or not; after linking the target is left alone, modified in place, \
         truncated, removed or replaced, or the entry is removed through the cache (remove_hash, full removal, clear: the user's file stays). Oracle: returned address == model digest of the target; reads by key and by address, streams and metadata.size give the target's bytes / \
         length as of link time; the content path is a symlink resolving to the target (or the untouched pre-existing regular file); no regular file holding the data appears under \
         the cache; target bytes, inode and mtime are unchanged by the library; after a post-link change reads give an integrity or I/O error, never other bytes; mismatching \
         declarations are rejected and nothing is mapped. Non-trivial = relative path, partial read, post-link change, or pre-existing address; distinct = distinct case"
            .into()
    }
    fn assumptions(&self) -> Vec<String> {
        vec![
            "built with the link_to feature (always on in the harness builds)".into(),
            "relative paths are resolved against the working directory at link time".into(),
        ]
    }
    fn exhaustive(&self, tier: Tier) -> Vec<Case> {
        let lens: Vec<usize> = tier.pick(vec![0, 5, 8, 9, 16384, 16393, 70000], vec![0, 1, 7, 8, 9, 100, 16383, 16384, 16385, 16392, 16393, 32768 + 9, 70000, (1 << 20) + 3]);
        let mut out = Vec::new();
        let mut n = 0usize;
        for &len in &lens {
            for relative in [false, true] {
                for oneshot in [true, false] {
                    for keyed in [true, false] {
                        for fl in [Fl::Sync, Fl::Async] {
                            n += 1;
                            let pre_reads = if oneshot { vec![] } else { [vec![], vec![1], vec![7], vec![9, 20000], vec![len + 10], vec![usize::MAX], vec![3, usize::MAX], vec![usize::MAX - 1]][n % 8].clone() };
                            // relative target through the builder: every third case changes the working directory between opening the linker and its commit
                            let pre_reads = if !oneshot && relative && (n / 8) % 3 == 0 {
                                let mut p = pre_reads;
                                let at = if p.is_empty() { 0 } else { 1 };
                                p.insert(at, crate::exec::LINK_CHDIR);
                                p
                            } else {
                                pre_reads
                            };
                            let post = [Post::None, Post::Modify, Post::Truncate, Post::Remove, Post::Replace, Post::ModifyKeepMtime, Post::WriteSameTmpElsewhere, Post::ModifyThenWriteSame, Post::RemoveThroughCache][(n / 2) % 9];
                            let mut link = mk_link(if keyed { Some(0) } else { None }, relative, oneshot, ALGOS[n % 5], pre_reads, if n % 3 == 0 { Declare::Exact } else { Declare::None }, if n % 4 == 0 { IntegDecl::Correct } else { IntegDecl::None });
                            // the relative target spelled through a symlinked directory and `..`
                            link.dotdot_via_symlink = relative && (n / 4) % 2 == 1;
                            link.vectored_reads = !oneshot && n % 3 == 1;
                            out.push(Case { blob: Blob::new(len, 70 + n as u64), link, fl, cwd_depth: (n % 4) as u8, preexisting: n % 6 == 0, post, prior_link: n % 5 == 2 && !relative });
                        }
                    }
                }
            }
        }
        // mismatching declarations
        for (i, (declare, integ)) in [(Declare::Off(1), IntegDecl::None), (Declare::Off(-1), IntegDecl::None), (Declare::None, IntegDecl::WrongDigest), (Declare::Exact, IntegDecl::MultiAllWrong), (Declare::None, IntegDecl::MultiWithCorrect)].into_iter().enumerate() {
            for fl in [Fl::Sync, Fl::Async] {
                for keyed in [true, false] {
                    let link = mk_link(if keyed { Some(0) } else { None }, false, false, ALGOS[i % 5], if keyed { vec![3] } else { vec![usize::MAX - 1] }, declare, integ);
                    out.push(Case { blob: Blob::new(50 + i, 90), link, fl, cwd_depth: 0, preexisting: false, post: Post::None, prior_link: keyed });
                }
            }
        }
        out
    }
    fn exhaustive_note(&self, _tier: Tier) -> String {
        "fixed grid: target length x absolute/relative x one-shot/builder x keyed/by-hash x flavour, with partial reads, post-link changes, working-directory depth, pre-existing address and declarations rotated; plus mismatching declarations".into()
    }
    fn random_cases(&self, tier: Tier) -> u32 {
        tier.pick(1000, 25000)
    }
    fn strategy(&self, _tier: Tier) -> BoxedStrategy<Case> {
        (
            gen::blob(SizeMix::Normal),
            basic::link_spec(1, 1, true),
            gen::fl(),
            (0u8..4, prop::bool::weighted(0.35), prop::bool::weighted(0.2)),
            prop_oneof![3 => Just(Post::None), 1 => Just(Post::Modify), 1 => Just(Post::Truncate), 1 => Just(Post::Remove), 1 => Just(Post::Replace), 1 => Just(Post::ModifyKeepMtime), 1 => Just(Post::WriteSameTmpElsewhere), 1 => Just(Post::ModifyThenWriteSame), 1 => Just(Post::RemoveThroughCache)],
            vec(prop_oneof![Just(1usize), 1usize..9, 9usize..20000], 0..3),
        )
            .prop_map(|(blob, mut link, fl, (cwd_depth, relative, preexisting), post, pre)| {
                link.blob = 0;
                link.target = 0;
                link.relative = relative;
                if let Some(k) = &mut link.key {
                    *k = 0;
                }
                if !link.oneshot && link.pre_reads != vec![usize::MAX] {
                    link.pre_reads = pre;
                }
                if !link.oneshot && relative && cwd_depth % 2 == 0 {
                    let at = link.pre_reads.len().min(1);
                    link.pre_reads.insert(at, crate::exec::LINK_CHDIR);
                }
                link.dotdot_via_symlink = relative && cwd_depth % 2 == 1 && preexisting == (link.blob == 0);
                let prior_link = !relative && !preexisting && cwd_depth == 2;
                Case { blob, link, fl, cwd_depth, preexisting, post, prior_link }
            })
            .boxed()
    }
    fn run_case(&self, c: &Case, st: &mut Stats, env: &mut WorkerEnv) -> Result<(), String> {
        env.scratch.reset();
        let keys = vec!["linked".to_string(), "unrelated".to_string()];
        let blobs = vec![c.blob.clone(), Blob::new(11, 999)];
        let ctx = Ctx::new(env.scratch.cache.clone(), env.scratch.scratch.clone(), &keys, &blobs);
        let data = ctx.blob(0);
        let mut model = Model::new();
        let algo = if c.link.oneshot { Algo::Sha256 } else { c.link.algo };
        let addr = AddrRef { algo, blob: 0 };
        // an unrelated entry that must stay as it is
        let pre0 = Step { op: Op::Write(WriteSpec::simple(Some(1), 1)), fl: Fl::Sync };
        let r = run_step(&ctx, &pre0);
        model.step(&ctx, &pre0, &r.out, r.t0, r.t1)?;
        if c.preexisting {
            let mut w = WriteSpec::simple(None, 0);
            w.entry = WEntry::OneShotAlgo;
            w.algo = algo;
            let s = Step { op: Op::Write(w), fl: Fl::Sync };
            let r = run_step(&ctx, &s);
            model.step(&ctx, &s, &r.out, r.t0, r.t1)?;
        }
        if c.prior_link && !c.link.relative {
            // an earlier, successful link of the very same target file under the other key
            let prior = LinkSpec { key: Some(1), blob: 0, target: 0, relative: false, algo, oneshot: false, pre_reads: vec![], declare: Declare::Exact, integ: IntegDecl::None, dotdot_via_symlink: false, vectored_reads: false };
            let s = Step { op: Op::LinkTo(prior), fl: if c.fl == Fl::Sync { Fl::Async } else { Fl::Sync } };
            let r = run_step(&ctx, &s);
            model.step(&ctx, &s, &r.out, r.t0, r.t1).map_err(|e| format!("earlier link of the same target: {e}"))?;
            st.class("same_target_linked_before");
        }
        // the target, created by the harness before the call
        let target = ctx.target_path(0);
        std::fs::write(&target, &data[..]).map_err(|e| format!("INFRA: {e}"))?;
        if hash_of(c) % 3 == 0 {
            // a file its owner made read-only
            use std::os::unix::fs::PermissionsExt;
            std::fs::set_permissions(&target, std::fs::Permissions::from_mode(0o444)).map_err(|e| format!("INFRA: {e}"))?;
            st.class("read_only_target");
        }
        let tmeta0 = std::fs::metadata(&target).map_err(|e| format!("INFRA: {e}"))?;
        let step = Step { op: Op::LinkTo(c.link.clone()), fl: c.fl };
        let what = format!("{:?} [{:?}] target of {} bytes, cwd depth {}", c.link, c.fl, data.len(), c.cwd_depth);
        let (out, t0, t1) = if c.link.relative {
            // a driver process with its own working directory; in the same process, before the
            // link under test: another relative link made from a different working directory
            // (anything the implementation remembers about the working directory is stale by then)
            let mut cwd = env.scratch.root.join("cwd");
            for d in 0..c.cwd_depth {
                cwd = cwd.join(format!("d{d}"));
            }
            std::fs::create_dir_all(&cwd).map_err(|e| format!("INFRA: {e}"))?;
            let warm = LinkSpec { key: Some(1), blob: 1, target: 1, relative: true, algo: Algo::Sha256, oneshot: c.cwd_depth % 2 == 0, pre_reads: vec![], declare: Declare::Exact, integ: IntegDecl::None, dotdot_via_symlink: false, vectored_reads: false };
            let two_links = c.cwd_depth % 2 == 1 || c.post == Post::None;
            let steps = if two_links {
                vec![Step { op: Op::LinkTo(warm.clone()), fl: c.fl }, Step { op: Op::Chdir { dir: 7 + c.cwd_depth as usize }, fl: Fl::Sync }, step.clone()]
            } else {
                vec![step.clone()]
            };
            let prog = Program { keys: keys.clone(), blobs: blobs.clone(), steps };
            let pf = env.scratch.root.join("prog.json");
            std::fs::write(&pf, serde_json::to_string(&prog).unwrap()).map_err(|e| format!("INFRA: {e}"))?;
            let of = env.scratch.root.join("out.jsonl");
            let n = prog.steps.len();
            let v = run_fresh(&env.scratch.cache, &env.scratch.scratch, &pf, 0, n, &of, Some(&cwd))?;
            if two_links {
                // the first link (key "unrelated" re-linked to its own target file) is judged too
                let (_, o, a, b) = v.first().cloned().ok_or("INFRA: no driver output")?;
                model.step(&ctx, &prog.steps[0], &o, a, b).map_err(|e| format!("{what}: earlier relative link in the same process: {e}"))?;
                st.class("two_relative_links_with_chdir_between");
            }
            let (_, o, a, b) = v.into_iter().last().ok_or("INFRA: no driver output")?;
            (o, a, b)
        } else {
            let r = run_step(&ctx, &step);
            (r.out, r.t0, r.t1)
        };
        st.eval(1);
        model.step(&ctx, &step, &out, t0, t1).map_err(|e| format!("{what}: {e}"))?;
        let linked_ok = matches!(out, Out::Int(_));
        // the target is never modified
        let check_target = |when: &str| -> Result<(), String> {
            let m = std::fs::metadata(&target).map_err(|e| format!("{what}: {when}: the target is gone: {e}"))?;
            let b = std::fs::read(&target).map_err(|e| format!("{what}: {when}: the target is unreadable: {e}"))?;
            if b != data[..] {
                return Err(format!("{what}: {when}: the target's bytes changed"));
            }
            if m.ino() != tmeta0.ino() || m.mtime() != tmeta0.mtime() || m.mtime_nsec() != tmeta0.mtime_nsec() || m.len() != tmeta0.len() {
                return Err(format!("{what}: {when}: the target's inode / mtime / size changed"));
            }
            if m.mode() != tmeta0.mode() || m.uid() != tmeta0.uid() {
                return Err(format!("{what}: {when}: the target's mode / owner changed ({:o} -> {:o})", tmeta0.mode(), m.mode()));
            }
            Ok(())
        };
        st.eval(1);
        check_target("after linking")?;
        // no copy of the data as a regular file inside the cache (other than a pre-existing one)
        if !data.is_empty() {
            for (rel, ft) in crate::reffmt::walk_files(&ctx.cache) {
                if ft.is_file() && !rel.starts_with("index-v5") {
                    if let Ok(b) = std::fs::read(ctx.cache.join(&rel)) {
                        let is_preexisting_copy = c.preexisting && rel.starts_with("content-v2");
                        if b == data[..] && !is_preexisting_copy {
                            return Err(format!("{what}: the data was copied into the cache as a regular file: {rel}"));
                        }
                    }
                }
            }
        }
        // reads by key and by address, streams, metadata, listing
        let addrs = vec![addr];
        basic::sweep_keys(&ctx, &mut model, st, true, 0).map_err(|e| format!("{what}: after linking: {e}"))?;
        basic::sweep_addrs(&ctx, &mut model, st, &addrs, 0).map_err(|e| format!("{what}: after linking: {e}"))?;
        for fl in [Fl::Sync, Fl::Async] {
            let by = if c.link.key.is_some() { By::Key(0) } else { By::Addr(addr) };
            let s = Step { op: Op::Stream { by, bufs: vec![3, 20000] }, fl };
            let r = run_step(&ctx, &s);
            st.eval(1);
            model.step(&ctx, &s, &r.out, r.t0, r.t1).map_err(|e| format!("{what}: after linking: {e}"))?;
        }
        basic::sweep_list(&ctx, &mut model, st).map_err(|e| format!("{what}: after linking: {e}"))?;
        check_target("after reading through the cache")?;
        // post-link change of the target
        if c.post != Post::None && linked_ok {
            // (from here on it is the harness that changes the user's file)
            if !matches!(c.post, Post::WriteSameTmpElsewhere | Post::RemoveThroughCache) {
                model.live_targets.clear();
            }
            match c.post {
                Post::Modify => {
                    let mut b = data.to_vec();
                    if b.is_empty() {
                        b.push(1);
                    } else {
                        let i = b.len() / 2;
                        b[i] ^= 0x40;
                    }
                    std::fs::write(&target, &b).map_err(|e| format!("INFRA: {e}"))?;
                }
                Post::Truncate => {
                    let n = data.len() / 2;
                    let b = if data.is_empty() { vec![9u8] } else { data[..n].to_vec() };
                    std::fs::write(&target, &b).map_err(|e| format!("INFRA: {e}"))?;
                }
                Post::Remove => {
                    std::fs::remove_file(&target).map_err(|e| format!("INFRA: {e}"))?;
                }
                Post::Replace => {
                    let tmp = ctx.scratch.join("replacement");
                    std::fs::write(&tmp, blob::Blob::new(data.len() + 1, 4242).bytes()).map_err(|e| format!("INFRA: {e}"))?;
                    std::fs::rename(&tmp, &target).map_err(|e| format!("INFRA: {e}"))?;
                }
                Post::ModifyKeepMtime => {
                    let mut b = data.to_vec();
                    if b.is_empty() {
                        b.push(1);
                    } else {
                        let i = b.len() / 3;
                        b[i] ^= 0x21;
                    }
                    let t = std::fs::metadata(&target).and_then(|m| m.modified()).map_err(|e| format!("INFRA: {e}"))?;
                    std::fs::write(&target, &b).map_err(|e| format!("INFRA: {e}"))?;
                    let f = std::fs::OpenOptions::new().write(true).open(&target).map_err(|e| format!("INFRA: {e}"))?;
                    f.set_modified(t).map_err(|e| format!("INFRA: {e}"))?;
                }
                Post::WriteSameTmpElsewhere => {
                    for s in [Step { op: Op::TmpElsewhere, fl: Fl::Sync }, Step { op: Op::Write({ let mut w = WriteSpec::simple(Some(1), 0); w.entry = WEntry::OneShotAlgo; w.algo = algo; w }), fl: c.fl }] {
                        let r = run_step(&ctx, &s);
                        st.eval(1);
                        model.step(&ctx, &s, &r.out, r.t0, r.t1).map_err(|e| format!("{what}: ordinary write of the linked bytes with the temp area elsewhere: {e}"))?;
                    }
                    check_target("after an ordinary write of the same bytes (temp area on another filesystem)")?;
                }
                Post::ModifyThenWriteSame => {
                    let mut b = data.to_vec();
                    if b.is_empty() {
                        b.push(1);
                    } else {
                        let i = b.len() / 2;
                        b[i] ^= 0x40;
                    }
                    std::fs::write(&target, &b).map_err(|e| format!("INFRA: {e}"))?;
                    let a = Model::addr_of(&ctx, addr);
                    model.adopt_content(&ctx, &a);
                    let mut w = WriteSpec::simple(Some(1), 0);
                    w.entry = WEntry::OneShotAlgo;
                    w.algo = algo;
                    let s = Step { op: Op::Write(w), fl: c.fl };
                    let r = run_step(&ctx, &s);
                    st.eval(1);
                    model.step(&ctx, &s, &r.out, r.t0, r.t1).map_err(|e| format!("{what}: the linked file was changed, then the original bytes were written again: {e}"))?;
                    // the changed file is the user's: the write must not have put the old bytes back into it
                    if std::fs::read(&target).map(|x| x != b).unwrap_or(true) {
                        return Err(format!("{what}: an ordinary write of the linked bytes changed the user's (modified) file"));
                    }
                }
                Post::RemoveThroughCache => {
                    let n = hash_of(c);
                    let mut steps = vec![Step { op: Op::RemoveHash { addr }, fl: c.fl }];
                    if c.link.key.is_some() {
                        // (linked again first when the removal above took the link away)
                        steps.push(Step { op: Op::LinkTo(c.link.clone()), fl: c.fl });
                        steps.push(Step { op: Op::RemoveOpts { key: 0, fully: true }, fl: if n % 2 == 0 { Fl::Sync } else { Fl::Async } });
                    }
                    if !c.link.relative {
                        steps.push(Step { op: Op::LinkTo(c.link.clone()), fl: c.fl });
                    }
                    steps.push(Step { op: Op::Clear, fl: if n % 4 < 2 { Fl::Sync } else { Fl::Async } });
                    for s in steps {
                        if matches!(s.op, Op::LinkTo(_)) && c.link.relative {
                            continue;
                        }
                        let r = run_step(&ctx, &s);
                        st.eval(1);
                        model.step(&ctx, &s, &r.out, r.t0, r.t1).map_err(|e| format!("{what}: removing the linked entry through the cache: {} -> {e}", s.op.name()))?;
                        check_target(&format!("after {} of the linked entry", s.op.name()))?;
                    }
                }
                Post::None => {}
            }
            let a = Model::addr_of(&ctx, addr);
            model.adopt_content(&ctx, &a);
            // a checked copy of the entry ONTO the changed file itself (which is what the content
            // path resolves to): it fails verification and leaves the file as the user changed it
            // (not when the address held regular content before the link: then the entry is that content)
            if matches!(c.post, Post::Modify | Post::ModifyKeepMtime | Post::Truncate) && c.link.key.is_some() && !c.preexisting && matches!(model.content.get(&a), Some(crate::model::CState::Data { symlink: true, .. })) {
                let changed = std::fs::read(&target).map_err(|e| format!("INFRA: {e}"))?;
                for fl in [Fl::Sync, Fl::Async] {
                    let r: Result<u64, String> = if fl == Fl::Sync {
                        cacache::copy_sync(&ctx.cache, ctx.key(0), &target).map_err(|e| e.to_string())
                    } else {
                        crate::rt::block_on(cacache::copy(&ctx.cache, ctx.key(0), &target)).map_err(|e| e.to_string())
                    };
                    st.eval(1);
                    if let Ok(n) = r {
                        return Err(format!("{what}: after the target was changed ({:?}), a checked copy ({fl:?}) of the entry onto that very file reports success ({n} bytes)", c.post));
                    }
                    if std::fs::read(&target).map(|b| b != changed).unwrap_or(true) {
                        return Err(format!("{what}: after the target was changed ({:?}), a failed checked copy ({fl:?}) onto that very file altered it", c.post));
                    }
                }
            }
            basic::sweep_keys(&ctx, &mut model, st, true, 1).map_err(|e| format!("{what}: after the target was changed ({:?}): {e}", c.post))?;
            basic::sweep_addrs(&ctx, &mut model, st, &addrs, 1).map_err(|e| format!("{what}: after the target was changed ({:?}): {e}", c.post))?;
        }
        let nt = c.link.relative || !c.link.pre_reads.is_empty() || c.post != Post::None || c.preexisting;
        if c.link.relative {
            st.class("relative_target");
        }
        if !c.link.pre_reads.is_empty() {
            st.class("partial_reads_before_commit");
        }
        if c.link.pre_reads.contains(&usize::MAX) {
            st.class("read_to_end_before_commit");
        }
        if c.link.pre_reads.contains(&crate::exec::LINK_CHDIR) && c.link.relative {
            st.class("working_directory_changed_between_open_and_commit");
        }
        if c.link.dotdot_via_symlink {
            st.class("relative_target_through_symlink_and_dotdot");
        }
        if c.post != Post::None {
            st.class("target_changed_after_linking");
        }
        if c.preexisting {
            st.class("address_already_present");
        }
        if !linked_ok {
            st.class("rejected_by_declaration");
        }
        st.class(if c.link.oneshot { "oneshot_api" } else { "builder_api" });
        if nt {
            st.class("nontrivial");
            st.nontrivial(hash_of(c));
        }
        st.sample(|| serde_json::to_value(c).unwrap());
        Ok(())
    }
    fn health(&self, st: &Stats, _tier: Tier) -> Result<(), String> {
        let rel = *st.classes.get("relative_target").unwrap_or(&0);
        if st.cases >= 200 && rel * 10 < st.cases {
            return Err(format!("only {rel} of {} cases use a relative target", st.cases));
        }
        Ok(())
    }
}
