//! C01 — checked reads never deliver bytes that differ from what was stored.

use super::{hash_of, Engine, Stats, Tier, WorkerEnv};
use crate::blob::{self, Algo, Blob, ALGOS};
use crate::damage::{observe, FileObs};
use crate::exec::{run_step, sha256_hex, Ctx};
use crate::gen::{self, SizeMix};
use crate::ops::*;
use proptest::prelude::*;
use serde::{Deserialize, Serialize};

#[derive(Clone, Debug, Serialize, Deserialize)]
pub struct Case {
    pub algo: Algo,
    pub blob: Blob,
    pub other: Blob,
    pub dmg: CDamage,
    pub bufs: Vec<usize>,
    /// >0: every retrieval is also made by this many threads at once (before and after the damage)
    #[serde(default)]
    pub threads: u8,
    /// the victim is stored with a declared integrity that names, next to the correct hash, the
    /// hash of the OTHER entry's bytes under a weaker algorithm (accepted: the strongest decides)
    #[serde(default)]
    pub weaker_hash_of_other: bool,
    /// the victim's bytes are ALSO stored (intact) under a weaker algorithm and the victim's index
    /// entry names both hashes; the damage hits the file of the stronger one, which alone decides
    #[serde(default)]
    pub twin_under_weaker: bool,
    /// the victim key held another value first (that older content is still in the cache)
    #[serde(default)]
    pub older_version: bool,
}

pub struct C01;

/// All checked retrieval entry points, in both flavours, by key and by address.
fn retrievals(bufs: &[usize]) -> Vec<Step> {
    let a = AddrRef { algo: Algo::Sha256, blob: 0 }; // algo patched by caller
    let mut v = Vec::new();
    for fl in [Fl::Sync, Fl::Async] {
        v.push(Step { op: Op::Read { key: 0 }, fl });
        v.push(Step { op: Op::ReadHash { addr: a }, fl });
        v.push(Step { op: Op::Stream { by: By::Key(0), bufs: bufs.to_vec() }, fl });
        v.push(Step { op: Op::Stream { by: By::Addr(a), bufs: bufs.to_vec() }, fl });
        for kind in [XKind::Copy, XKind::HardLink, XKind::Reflink] {
            v.push(Step { op: Op::Extract { kind, checked: true, by: By::Key(0), dest: Dest::Absent }, fl });
            // by-address hard link exists only as _sync (the interpreter routes it there)
            if !(kind == XKind::HardLink && fl == Fl::Async) {
                v.push(Step { op: Op::Extract { kind, checked: true, by: By::Addr(a), dest: Dest::Absent }, fl });
            }
            // copying over an existing (longer or shorter) destination file, and over a hard
            // link of the entry's own content file
            if kind == XKind::Copy {
                v.push(Step { op: Op::Extract { kind, checked: true, by: By::Key(0), dest: Dest::Existing }, fl });
                v.push(Step { op: Op::Extract { kind, checked: true, by: By::Addr(a), dest: Dest::Existing }, fl });
                v.push(Step { op: Op::Extract { kind, checked: true, by: By::Key(0), dest: Dest::LinkOfContent }, fl });
                v.push(Step { op: Op::Extract { kind, checked: true, by: By::Addr(a), dest: Dest::LinkOfContent }, fl });
            }
            // a destination on another filesystem (a hard link cannot be made there)
            if kind != XKind::Reflink {
                v.push(Step { op: Op::Extract { kind, checked: true, by: By::Key(0), dest: Dest::OtherFs }, fl });
                if !(kind == XKind::HardLink && fl == Fl::Async) {
                    v.push(Step { op: Op::Extract { kind, checked: true, by: By::Addr(a), dest: Dest::OtherFs }, fl });
                }
            }
        }
    }
    v
}

impl Engine for C01 {
    type Case = Case;
    fn id(&self) -> &'static str {
        "C01"
    }
    fn rule(&self) -> String {
        "a cache holding a victim entry and one other valid entry; every checked retrieval entry point is first exercised on the pristine entry (must deliver the stored bytes), then one damage pattern is applied to the victim's content file (bit flip, truncation, extension, \
         emptying, garbage range, replacement by random bytes / by the other entry's bytes, swap with the other entry's file, symlink to another file / dangling / \
         directory, deletion); then EVERY checked retrieval entry point (read, read_hash, SyncReader/Reader with generated buffer sizes + check, copy, copy_hash, \
         hard_link*, reflink*) by key and by address in both flavours. Oracle: the call returns an error, or the delivered bytes (vector / stream after check() / \
         destination file) equal the originally stored bytes AND hash to the requested address. Variants: the victim's bytes are also stored intact under a weaker algorithm with both hashes in its index entry (the damaged file is the one the strongest hash names); the victim key held another value before whose content is still present. Exhaustive part: every single-bit flip and every truncation length of \
         the stated small blobs. Non-trivial = the file's bytes actually differ from the original and the lookup reached the content path; distinct = distinct case"
            .into()
    }
    fn assumptions(&self) -> Vec<String> {
        vec![
            "bytes handed out by a stream before check() are not judged (the statement says 'finished by its final check')".into(),
            "reflink cannot succeed on tmpfs/ext4: only 'never Ok with wrong bytes' is exercised for it".into(),
            "substituted symlinks point to regular files, nothing or a directory (never a FIFO or device)".into(),
        ]
    }
    fn exhaustive(&self, tier: Tier) -> Vec<Case> {
        let lens: &[usize] = tier.pick(&[1, 7, 64], &[1, 7, 64, 257, 1025]);
        let mut out = Vec::new();
        for (li, &len) in lens.iter().enumerate() {
            let algo = ALGOS[li % 5];
            let blob = Blob::new(len, 100 + li as u64);
            let other = Blob::new(len.max(2) - 1, 200 + li as u64);
            for bit in 0..len * 8 {
                out.push(Case { algo, blob: blob.clone(), other: other.clone(), dmg: CDamage::FlipBit(bit), bufs: vec![], threads: 0, weaker_hash_of_other: false, twin_under_weaker: false, older_version: false });
            }
            for n in 0..len {
                out.push(Case { algo, blob: blob.clone(), other: other.clone(), dmg: CDamage::Truncate(n), bufs: vec![3], threads: 0, weaker_hash_of_other: false, twin_under_weaker: false, older_version: false });
            }
        }
        // every algorithm sees every damage class once
        for &algo in ALGOS.iter() {
            let blob = Blob::new(300, 7);
            let other = Blob::new(300, 8);
            for dmg in [
                CDamage::Extend(vec![0]),
                CDamage::Extend(vec![1, 2, 3]),
                CDamage::Empty,
                CDamage::Garbage { off: 10, len: 5, salt: 1 },
                CDamage::Replace { len: 300, salt: 2 },
                CDamage::Replace { len: 17, salt: 3 },
                CDamage::OtherBlob(1),
                CDamage::SwapWith(AddrRef { algo, blob: 1 }),
                CDamage::SymlinkToBlob(1),
                CDamage::SymlinkDangling,
                CDamage::SymlinkToDir,
                CDamage::Delete,
            ] {
                out.push(Case { algo, blob: blob.clone(), other: other.clone(), dmg, bufs: vec![1, 64], threads: 0, weaker_hash_of_other: false, twin_under_weaker: false, older_version: false });
            }
        }
        // the index names a weaker hash of the other entry next to the right one, and the content
        // is replaced by exactly the other entry's bytes
        for &algo in ALGOS.iter() {
            for dmg in [CDamage::OtherBlob(1), CDamage::SwapWith(AddrRef { algo, blob: 1 }), CDamage::SymlinkToBlob(1)] {
                out.push(Case { algo, blob: Blob::new(300, 7), other: Blob::new(300, 8), dmg, bufs: vec![64], threads: 0, weaker_hash_of_other: true, twin_under_weaker: false, older_version: false });
            }
        }
        // the same bytes are stored under two algorithms and the entry names both hashes: every
        // damage class on the file of the stronger one; and a key whose previous value is still
        // in the cache, every damage class on the current one
        for (i, &algo) in ALGOS.iter().enumerate() {
            for (j, dmg) in [
                CDamage::FlipBit(11),
                CDamage::Truncate(299),
                CDamage::Extend(vec![0]),
                CDamage::Empty,
                CDamage::Replace { len: 300, salt: 2 },
                CDamage::OtherBlob(1),
                CDamage::SymlinkToBlob(1),
                CDamage::SymlinkDangling,
                CDamage::SymlinkToDir,
                CDamage::Delete,
            ]
            .into_iter()
            .enumerate()
            {
                out.push(Case { algo, blob: Blob::new(300, 7), other: Blob::new(300, 8), dmg: dmg.clone(), bufs: vec![64], threads: 0, weaker_hash_of_other: false, twin_under_weaker: true, older_version: (i + j) % 3 == 0 });
                out.push(Case { algo, blob: Blob::new(300, 7), other: Blob::new(300, 8), dmg, bufs: vec![64], threads: 0, weaker_hash_of_other: false, twin_under_weaker: false, older_version: true });
            }
        }
        // several threads of one process ask for the same (pristine, then damaged) entry at once
        for (i, (len, dmg)) in [
            (300_000usize, CDamage::FlipBit(300_000 * 8 - 1)),
            (2_500_000, CDamage::Garbage { off: 2_400_000, len: 9, salt: 5 }),
            (2_500_000, CDamage::Truncate(2_499_999)),
            (6_000_000, CDamage::FlipBit(5)),
        ]
        .into_iter()
        .enumerate()
        {
            out.push(Case { algo: ALGOS[i % 2], blob: Blob::new(len, 300 + i as u64), other: Blob::new(9, 400), dmg, bufs: vec![65536], threads: 6, weaker_hash_of_other: false, twin_under_weaker: false, older_version: false });
        }
        // entries larger than what one file read delivers (2 MiB on tokio), read with ONE read_exact
        for (i, len) in [(2usize << 20) + 77, 5_000_000].into_iter().enumerate() {
            out.push(Case { algo: ALGOS[i % 2], blob: Blob::new(len, 500 + i as u64), other: Blob::new(9, 402), dmg: CDamage::FlipBit(len * 8 - 3), bufs: vec![usize::MAX - 1], threads: 0, weaker_hash_of_other: false, twin_under_weaker: false, older_version: false });
        }
        // zero runs at the granularities sparse-file tricks work with
        for (i, (len, fill)) in [(131072usize, blob::Fill::Zero), (262144, blob::Fill::Zero), (393216, blob::Fill::ZeroTail), (196608, blob::Fill::ZeroTail), (65536, blob::Fill::Zero), (393216, blob::Fill::ZeroHead)].into_iter().enumerate() {
            out.push(Case { algo: ALGOS[i % 5], blob: Blob { len, salt: 3, fill }, other: Blob::new(9, 401), dmg: CDamage::FlipBit(len * 8 - 1), bufs: vec![], threads: 0, weaker_hash_of_other: false, twin_under_weaker: false, older_version: false });
        }
        out
    }
    fn exhaustive_note(&self, tier: Tier) -> String {
        format!(
            "every single-bit flip and every truncation length of blobs of {} bytes; plus each of 12 damage classes under each of the 5 algorithms; 10 damage classes x 5 algorithms on an entry whose bytes are also stored under a weaker algorithm (both hashes in the index) and on a key whose previous value is still in the cache; 4 large entries retrieved by 6 threads at once; 6 entries with zero runs of 64..128 KiB",
            tier.pick("1, 7, 64", "1, 7, 64, 257, 1025")
        )
    }
    fn random_cases(&self, tier: Tier) -> u32 {
        tier.pick(2000, 12000)
    }
    fn strategy(&self, tier: Tier) -> BoxedStrategy<Case> {
        let mix = tier.pick(SizeMix::Normal, SizeMix::Normal);
        (gen::algo(), gen::blob(mix), gen::blob(SizeMix::Small), gen::cdamage(2), gen::bufs(), prop::bool::weighted(0.08), 0u8..20)
            .prop_map(|(algo, blob, mut other, mut dmg, bufs, threads, shape)| {
                let weaker = shape < 3;
                let twin = (3..6).contains(&shape);
                let older = (5..9).contains(&shape);
                if other.bytes() == blob.bytes() {
                    other.len += 1;
                }
                // pool index 1 is "the other entry"
                match &mut dmg {
                    CDamage::OtherBlob(b) | CDamage::SymlinkToBlob(b) => *b = 1,
                    CDamage::SwapWith(a) => *a = AddrRef { algo, blob: 1 },
                    _ => {}
                }
                // (a stream that stops early is not a finished retrieval)
                let bufs = if matches!(bufs.first(), Some(&m) if m == usize::MAX - 2 || m == usize::MAX - 3) { bufs[1..].to_vec() } else { bufs };
                Case { algo, blob, other, dmg, bufs, threads: if threads { 4 } else { 0 }, weaker_hash_of_other: weaker, twin_under_weaker: twin, older_version: older }
            })
            .boxed()
    }
    fn run_case(&self, c: &Case, st: &mut Stats, env: &mut WorkerEnv) -> Result<(), String> {
        env.scratch.reset();
        let keys = vec!["victim".to_string(), "other".to_string()];
        let mut older = c.other.clone();
        older.len += 1;
        older.salt ^= 0x55;
        let blobs = vec![c.blob.clone(), c.other.clone(), older];
        let ctx = Ctx::new(env.scratch.cache.clone(), env.scratch.scratch.clone(), &keys, &blobs);
        let orig = ctx.blob(0);
        // set-up through the library (alternating flavour by case hash)
        let h = hash_of(c);
        if c.older_version {
            // the victim key's earlier value: the other entry's bytes with one byte more
            let mut w = WriteSpec::simple(Some(0), 2);
            w.entry = WEntry::OneShotAlgo;
            w.algo = c.algo;
            let r = run_step(&ctx, &Step { op: Op::Write(w), fl: if (h >> 5) & 1 == 0 { Fl::Sync } else { Fl::Async } });
            if !matches!(r.out, Out::Int(_)) {
                return Err(format!("set-up write of the older version failed: {}", r.out.short()));
            }
        }
        if c.twin_under_weaker {
            if let Some(wk) = crate::exec::weaker_algo(c.algo) {
                let mut w = WriteSpec::simple(None, 0);
                w.entry = WEntry::OneShotAlgo;
                w.algo = wk;
                let r = run_step(&ctx, &Step { op: Op::Write(w), fl: if (h >> 6) & 1 == 0 { Fl::Sync } else { Fl::Async } });
                if !matches!(r.out, Out::Int(_)) {
                    return Err(format!("set-up write of the twin failed: {}", r.out.short()));
                }
                st.class("same_bytes_stored_under_two_algorithms");
            }
        }
        if c.older_version {
            st.class("victim_key_had_an_older_value");
        }
        for (k, b) in [(0usize, 0usize), (1, 1)] {
            let mut w = WriteSpec::simple(Some(k), b);
            w.entry = WEntry::OneShotAlgo;
            w.algo = c.algo;
            if c.twin_under_weaker && k == 0 {
                w.entry = WEntry::Opts;
                w.integ = IntegDecl::MultiWeakerOfSame;
            }
            if c.weaker_hash_of_other && k == 0 {
                // (the "other value of the pool" of blob 0 is blob 1)
                w.entry = WEntry::Opts;
                w.chunks = vec![orig.len() / 2];
                w.integ = IntegDecl::MultiWeakerOfOther;
            }
            let r = run_step(&ctx, &Step { op: Op::Write(w), fl: if (h >> k) & 1 == 0 { Fl::Sync } else { Fl::Async } });
            if !matches!(r.out, Out::Int(_)) {
                return Err(format!("set-up write failed: {}", r.out.short()));
            }
        }
        let addr = AddrRef { algo: c.algo, blob: 0 };
        let want_sri = blob::sri(c.algo, &orig);
        // every entry point first on the pristine entry: it must deliver the stored bytes (this
        // also primes whatever the implementation might remember between calls)
        let want0 = (orig.len() as u64, sha256_hex(&orig));
        for mut step in retrievals(&c.bufs) {
            match &mut step.op {
                Op::ReadHash { addr: a } => a.algo = c.algo,
                Op::Stream { by: By::Addr(a), .. } | Op::Extract { by: By::Addr(a), .. } => a.algo = c.algo,
                _ => {}
            }
            if matches!(step.op, Op::Extract { kind: XKind::Reflink, .. }) {
                continue;
            }
            // large entries: the pristine pass is thinned (hashing MiBs 19 times per case is the cost)
            if orig.len() > 65536 && (h >> 7) % 4 != 0 && !matches!(step.op, Op::Extract { kind: XKind::HardLink, .. }) && !(matches!(step.op, Op::Stream { .. }) && c.bufs.first() == Some(&(usize::MAX - 1))) {
                continue;
            }
            let r = run_step(&ctx, &step);
            st.eval(1);
            let ok = match &r.out {
                Out::Bytes(n, hx) => (*n, hx.clone()) == want0,
                Out::Extracted { dest: DestState::File(n, hx), .. } => (*n, hx.clone()) == want0,
                // a hard link onto another filesystem may fail
                Out::ExtractErr { kind: ErrKind::Io { .. }, .. } => matches!(step.op, Op::Extract { kind: XKind::HardLink, dest: Dest::OtherFs, .. }),
                _ => false,
            };
            if !ok {
                return Err(format!("{:?}/{:?} on the undamaged {}-byte {} entry: {}", step.op, step.fl, orig.len(), c.algo.name(), r.out.short()));
            }
        }
        if c.threads > 0 {
            concurrent_phase(c, &ctx, &keys, &blobs, false, &want0, &want_sri, st)?;
        }
        crate::damage::damage_content(&ctx, addr, &c.dmg);
        let obs = observe(&ctx.content_path(addr));
        let differs = match &obs {
            FileObs::Data { bytes, .. } => **bytes != **orig,
            _ => true,
        };
        st.class(&format!("damage_{}", damage_name(&c.dmg)));
        let want = (orig.len() as u64, sha256_hex(&orig));
        for mut step in retrievals(&c.bufs) {
            // patch the address algorithm
            match &mut step.op {
                Op::ReadHash { addr: a } => a.algo = c.algo,
                Op::Stream { by: By::Addr(a), .. } | Op::Extract { by: By::Addr(a), .. } => a.algo = c.algo,
                _ => {}
            }
            let r = run_step(&ctx, &step);
            st.eval(1);
            let what = format!("{:?}/{:?} after {:?} on a {}-byte {} entry", step.op, step.fl, c.dmg, orig.len(), c.algo.name());
            match &r.out {
                Out::Panic(m) => return Err(format!("{what}: panicked: {m}")),
                Out::Hang => return Err(format!("{what}: did not return")),
                Out::Err(..) | Out::ExtractErr { .. } => {}
                Out::Bytes(n, hx) => {
                    if (*n, hx.clone()) != want {
                        return Err(format!("{what}: delivered {n} bytes sha256={hx}; stored were {} bytes sha256={} (address {want_sri})", want.0, want.1));
                    }
                }
                Out::Extracted { dest, .. } => match dest {
                    DestState::File(n, hx) => {
                        if (*n, hx.clone()) != want {
                            return Err(format!("{what}: destination holds {n} bytes sha256={hx}; stored were {} bytes sha256={} (address {want_sri})", want.0, want.1));
                        }
                    }
                    other => {
                        // a successful checked extraction must leave the verified bytes
                        if let FileObs::Data { symlink: true, .. } | FileObs::Dangling | FileObs::Dir = obs {
                            // a hard link to a substituted symlink is a link to that symlink
                            if let Op::Extract { kind: XKind::HardLink, .. } = step.op {
                                return Err(format!("{what}: reported success but the destination is {other:?} (a link to the substituted object)"));
                            }
                        }
                        return Err(format!("{what}: reported success but the destination is {other:?}"));
                    }
                },
                o => return Err(format!("{what}: unexpected result {}", o.short())),
            }
        }
        if c.threads > 0 {
            concurrent_phase(c, &ctx, &keys, &blobs, true, &want, &want_sri, st)?;
            st.class("retrieved_by_several_threads_at_once");
        }
        if differs {
            st.class("nontrivial");
            st.nontrivial(h);
        } else {
            st.class("damage_was_a_no_op");
        }
        st.sample(|| serde_json::to_value(c).unwrap());
        Ok(())
    }
    fn health(&self, st: &Stats, _tier: Tier) -> Result<(), String> {
        let nt = *st.classes.get("nontrivial").unwrap_or(&0);
        if st.cases >= 100 && nt * 10 < st.cases * 8 {
            return Err(format!("only {nt} of {} cases damaged the file effectively", st.cases));
        }
        Ok(())
    }
}

/// Every checked retrieval made by `c.threads` threads at once (each with its own destination
/// directory): on the pristine entry all must deliver the stored bytes; on the damaged one each
/// must fail or deliver the stored bytes — whatever the others are doing meanwhile.
#[allow(clippy::too_many_arguments)]
fn concurrent_phase(c: &Case, ctx: &Ctx, keys: &[String], blobs: &[Blob], damaged: bool, want: &(u64, String), want_sri: &str, st: &mut Stats) -> Result<(), String> {
    let n = c.threads as usize;
    for mut step in retrievals(&c.bufs) {
        match &mut step.op {
            Op::ReadHash { addr: a } => a.algo = c.algo,
            Op::Stream { by: By::Addr(a), .. } | Op::Extract { by: By::Addr(a), .. } => a.algo = c.algo,
            _ => {}
        }
        if matches!(step.op, Op::Extract { kind: XKind::Reflink, .. } | Op::Extract { dest: Dest::OtherFs, .. } | Op::Extract { dest: Dest::Existing, .. }) {
            continue;
        }
        let barrier = std::sync::Barrier::new(n);
        let outs: Vec<Out> = std::thread::scope(|sc| {
            let hs: Vec<_> = (0..n)
                .map(|t| {
                    let (barrier, step) = (&barrier, &step);
                    let cache = ctx.cache.clone();
                    let scratch = ctx.scratch.join(format!("t{t}"));
                    sc.spawn(move || {
                        let _ = std::fs::create_dir_all(&scratch);
                        let tctx = Ctx::new(cache, scratch, keys, blobs);
                        barrier.wait();
                        run_step(&tctx, step).out
                    })
                })
                .collect();
            hs.into_iter().map(|h| h.join().unwrap_or(Out::Panic("retrieval thread died".into()))).collect()
        });
        for (t, out) in outs.iter().enumerate() {
            st.eval(1);
            let what = format!("{:?}/{:?} made by {n} threads at once ({}), thread {t}, {}-byte {} entry", step.op, step.fl, if damaged { format!("after {:?}", c.dmg) } else { "undamaged".into() }, want.0, c.algo.name());
            match out {
                Out::Bytes(k, hx) | Out::Extracted { dest: DestState::File(k, hx), .. } => {
                    if (*k, hx.clone()) != *want {
                        return Err(format!("{what}: delivered {k} bytes sha256={hx}; stored were {} bytes sha256={} (address {want_sri})", want.0, want.1));
                    }
                }
                Out::Err(..) | Out::ExtractErr { .. } if damaged => {}
                o => return Err(format!("{what}: {}", o.short())),
            }
        }
    }
    Ok(())
}

pub fn damage_name(d: &CDamage) -> &'static str {
    match d {
        CDamage::FlipBit(_) => "flip_bit",
        CDamage::Truncate(_) => "truncate",
        CDamage::Extend(_) => "extend",
        CDamage::Empty => "empty",
        CDamage::Garbage { .. } => "garbage_range",
        CDamage::Replace { .. } => "replace_random",
        CDamage::OtherBlob(_) => "bytes_of_other_entry",
        CDamage::SwapWith(_) => "swap_files",
        CDamage::SymlinkToBlob(_) => "symlink_to_file",
        CDamage::SymlinkDangling => "symlink_dangling",
        CDamage::SymlinkToDir => "symlink_to_dir",
        CDamage::Delete => "delete",
    }
}
