//! C03 — content files appear atomically: never partial, always matching their address.

use super::basic::{self, OpMix, ProgCfg};
use super::{hash_of, Engine, Stats, Tier, WorkerEnv};
use crate::blob::{Algo, Blob, ALGOS};
use crate::exec::{run_step, Ctx};
use crate::gen::{self, pick, SizeMix, WriteMix, MIB};
use crate::model::Model;
use crate::ops::*;
use crate::ptrun::{run_supervised, Decision, Paths};
use crate::reffmt;
use proptest::prelude::*;
use serde::{Deserialize, Serialize};

#[derive(Clone, Debug, Serialize, Deserialize)]
pub enum Case {
    /// hold the writer at every mutating system call of the victim step and inspect the tree
    Inspect { prog: Program, victim: usize },
    /// tear the n-th data write (count rewritten to a length 0<k<n), kill at its return
    Torn { prog: Program, victim: usize, nth_write: usize, k_sel: u16 },
    /// really kill the process before its g-th mutating system call
    Kill { prog: Program, victim: usize, gate: usize },
    /// no crash: random program, the predicate after every step
    Program(Program),
}

pub struct C03;

/// `ContentTreeValid` plus reads of every address found, through the library.
fn inspect(cache: &std::path::Path, st: &mut Stats, when: &str) -> Result<(), String> {
    st.eval(1);
    let bad = reffmt::content_tree_violations(cache, false);
    if !bad.is_empty() {
        return Err(format!("{when}: {}", bad.join("; ")));
    }
    for (rel, _) in reffmt::walk_files(&cache.join("content-v2")) {
        let parts: Vec<&str> = rel.split('/').collect();
        if parts.len() != 4 {
            continue;
        }
        let algo = match Algo::from_name(parts[0]) {
            Some(a) => a,
            None => continue,
        };
        let hex = format!("{}{}{}", parts[1], parts[2], parts[3]);
        let raw: Vec<u8> = (0..hex.len() / 2).filter_map(|i| u8::from_str_radix(&hex[2 * i..2 * i + 2], 16).ok()).collect();
        let sri: cacache::Integrity = crate::blob::sri_from_raw(algo, &raw).parse().unwrap();
        st.eval(1);
        if !cacache::exists_sync(cache, &sri) {
            return Err(format!("{when}: exists_sync is false for a file that is present: content-v2/{rel}"));
        }
        match cacache::read_hash_sync(cache, &sri) {
            Ok(b) => {
                if crate::blob::hexs(&crate::blob::digest_raw(algo, &b)) != hex {
                    return Err(format!("{when}: read_hash_sync of content-v2/{rel} returned bytes that do not hash to the address"));
                }
            }
            Err(e) => return Err(format!("{when}: content-v2/{rel} is present but does not read back: {e}")),
        }
    }
    Ok(())
}

fn is_data_write(g: &crate::sup::Gate) -> bool {
    g.is_write_class() && g.get("fdpath").map(|p| !p.contains("/index-v5/")).unwrap_or(false)
}

fn scenarios(tier: Tier) -> Vec<(Program, usize)> {
    let sizes: Vec<usize> = tier.pick(vec![24, 9000, MIB - 1], vec![1, 24, 64, 9000, 70000, MIB - 1, MIB, MIB + 1]);
    let keys = vec!["victim".to_string(), "warm".to_string()];
    let mut out = Vec::new();
    let mut n = 0usize;
    for &len in &sizes {
        // (entry, keyed, declare, chunks)
        let shapes: Vec<(WEntry, bool, Declare, Vec<usize>)> = vec![
            (WEntry::OneShot, true, Declare::None, vec![]),
            (WEntry::OneShot, false, Declare::None, vec![]),
            (WEntry::Opts, true, Declare::None, vec![len / 3, len / 3]),
            (WEntry::Opts, true, Declare::Exact, vec![len / 2]),
            (WEntry::Opts, false, Declare::Exact, vec![len / 4, 0, len / 4]),
            (WEntry::CreateAlgo, true, Declare::None, vec![1, len / 2]),
        ];
        for (entry, keyed, declare, chunks) in shapes {
            for fl in [Fl::Sync, Fl::Async] {
                for state in 0..4 {
                    n += 1;
                    // state 3 (temp area on another filesystem) for a third of the shapes
                    if state == 3 && n % 3 != 0 {
                        continue;
                    }
                    // quick tier: thin the MiB sizes
                    if tier == Tier::Quick && len > 100_000 && (n % 3 != 0) {
                        continue;
                    }
                    if tier == Tier::Quick && state == 1 && n % 2 == 0 {
                        continue;
                    }
                    let blobs = vec![Blob::new(len, 21), Blob::new(13, 22)];
                    let mut steps = Vec::new();
                    // 0 = cold cache, 1 = warm (another entry exists), 2 = the address already exists,
                    // 3 = <cache>/tmp is a symlink to another filesystem (rename cannot publish)
                    if state == 3 {
                        steps.push(Step { op: Op::TmpElsewhere, fl: Fl::Sync });
                    }
                    if state == 1 {
                        steps.push(Step { op: Op::Write(WriteSpec::simple(Some(1), 1)), fl: Fl::Sync });
                    }
                    let mut w = WriteSpec::simple(if keyed { Some(0) } else { None }, 0);
                    w.entry = entry;
                    w.declare = declare;
                    w.chunks = chunks.clone();
                    w.algo = if entry == WEntry::OneShot { Algo::Sha256 } else { ALGOS[n % 5] };
                    if state == 2 {
                        let mut pre = WriteSpec::simple(Some(1), 0);
                        pre.entry = WEntry::OneShotAlgo;
                        pre.algo = w.algo;
                        steps.push(Step { op: Op::Write(pre), fl: Fl::Async });
                    }
                    steps.push(Step { op: Op::Write(w), fl });
                    let victim = steps.len() - 1;
                    out.push((Program { keys: keys.clone(), blobs, steps }, victim));
                }
            }
        }
    }
    // two writers open at once that declare the same integrity for the same data (kill points
    // run through both of them): whatever they share, a content address only ever holds whole data
    for len in [24usize, 9000] {
        for fl in [Fl::Sync, Fl::Async] {
            for plan in 0u8..4 {
                let mut a = WriteSpec::simple(Some(0), 0);
                a.chunks = vec![len / 2];
                let mut b = WriteSpec::simple(Some(1), 0);
                b.chunks = vec![len / 3, len / 3];
                let op = super::basic::two_writers(a, b, plan, 1);
                out.push((Program { keys: keys.clone(), blobs: vec![Blob::new(len, 23), Blob::new(13, 22)], steps: vec![Step { op, fl }] }, 0));
            }
        }
    }
    // declarations that do not match, on the memory-mapped path: too many bytes (the surplus
    // being whole zero chunks), too few bytes (with the data already stored: the rejected
    // writer must not disturb the stored copy at any instant)
    for (len, fill, off, chunks, warm) in [
        (262144usize, crate::blob::Fill::ZeroTail, -65536i64, vec![174779usize], false),
        (262144, crate::blob::Fill::ZeroTail, -65536, vec![174779, 21829, 4096], true),
        (9000, crate::blob::Fill::Rand, 40, vec![3000], true),
        (9000, crate::blob::Fill::Rand, 4096, vec![3000, 3000], true),
        (70000, crate::blob::Fill::Zero, -4096, vec![65904], false),
    ] {
        for fl in [Fl::Sync, Fl::Async] {
            let blobs = vec![Blob { len, salt: 24, fill }, Blob::new(13, 22)];
            let mut steps = Vec::new();
            if warm {
                steps.push(Step { op: Op::Write(WriteSpec::simple(Some(1), 0)), fl: Fl::Sync });
            }
            let mut w = WriteSpec::simple(Some(0), 0);
            w.entry = WEntry::Opts;
            w.declare = Declare::Off(off);
            w.chunks = chunks.clone();
            steps.push(Step { op: Op::Write(w), fl });
            let victim = steps.len() - 1;
            out.push((Program { keys: keys.clone(), blobs, steps }, victim));
        }
    }
    out
}

fn prog_cfg(tier: Tier) -> ProgCfg {
    ProgCfg {
        mix: OpMix { write: 10, abandon: 3, cancel_commit: 3, remove: 1, remove_hash: 1, remove_fully: 1, read: 1, ..OpMix::NONE },
        wmix: WriteMix { bad_decls: true, meta: false, by_hash: true, rich_matching: false, interfere: false },
        sizes: SizeMix::Boundary,
        keys: (1, 3),
        blobs: (1, 3),
        max_steps: tier.pick(8, 16),
    }
}

fn victim_strategy() -> impl Strategy<Value = (Program, usize)> {
    (
        gen::key_pool(2, 2),
        gen::blob(SizeMix::Boundary),
        gen::write_spec(WriteMix { bad_decls: true, meta: false, by_hash: true, rich_matching: false, interfere: false }, 1, 1),
        gen::fl(),
        0usize..3,
    )
        .prop_map(|(keys, blob, mut w, fl, state)| {
            let blobs = vec![blob, Blob::new(13, 22)];
            w.blob = 0;
            if let Some(k) = &mut w.key {
                *k = 0;
            }
            let mut steps = Vec::new();
            if state == 1 {
                steps.push(Step { op: Op::Write(WriteSpec::simple(Some(1), 1)), fl: Fl::Sync });
            }
            if state == 2 {
                let mut pre = WriteSpec::simple(Some(1), 0);
                pre.entry = WEntry::OneShotAlgo;
                pre.algo = if matches!(w.entry, WEntry::OneShot | WEntry::Create) { Algo::Sha256 } else { w.algo };
                steps.push(Step { op: Op::Write(pre), fl: Fl::Sync });
            }
            steps.push(Step { op: Op::Write(w), fl });
            let v = steps.len() - 1;
            (Program { keys, blobs, steps }, v)
        })
}

impl C03 {
    fn preamble(&self, ctx: &Ctx, prog: &Program, victim: usize, st: &mut Stats) -> Result<(), String> {
        let mut model = Model::new();
        for (i, s) in prog.steps[..victim].iter().enumerate() {
            let r = run_step(ctx, s);
            st.eval(1);
            model.step(ctx, s, &r.out, r.t0, r.t1).map_err(|e| format!("preamble {}: {e}", basic::describe_step(prog, i)))?;
        }
        Ok(())
    }
}

impl Engine for C03 {
    type Case = Case;
    fn id(&self) -> &'static str {
        "C03"
    }
    fn level(&self) -> &'static str {
        "fault_enumeration"
    }
    fn rule(&self) -> String {
        "write scenarios (one-shot / streamed / memory-mapped / plain, keyed / by address, sync and async on both builds, sizes around the 1 MiB mmap threshold, cold / warm \
         cache, address already present, temp area on another filesystem) executed in a driver process under the ptrace supervisor: (1) pause-inspect — the writer is held before EVERY mutating system call \
         of the write and the live tree is judged (a held process is exactly what a SIGKILL at that point leaves); (2) torn writes — the byte count of a data write(2) is \
         rewritten to k, 0<k<n, the call runs and the process is killed at its return (every k for small data, generated k otherwise), plus real kills before the g-th call; \
         (3) no-crash random programs incl. rejected commits and abandoned writers with the predicate after every step. Predicate: every non-directory under content-v2 \
         sits at <algo>/<2>/<2>/<rest>, its bytes hash to its name, and exists_sync/read_hash_sync of it succeed. Non-trivial = a gate strictly inside the write (after its \
         first and before its last mutating call), or a torn length 0<k<n, or a program with a rejected commit / abandoned writer; distinct = distinct (scenario, point)"
            .into()
    }
    fn assumptions(&self) -> Vec<String> {
        vec![
            "kill model = process death: completed system calls persist; a held tracee is equivalent to a killed one for the directory tree".into(),
            "stores through a memory mapping are not system calls: a kill in the middle of the memcpy into the mapped temp file is not enumerated (the temp file is private anyway)".into(),
            "atomicity inside one write(2)/rename(2) and durability across power loss are below the property's granularity".into(),
            "the supervisor's classification of mutating system calls (ptsup.c)".into(),
        ]
    }
    fn exhaustive(&self, tier: Tier) -> Vec<Case> {
        let mut out = Vec::new();
        for (prog, victim) in scenarios(tier) {
            out.push(Case::Inspect { prog: prog.clone(), victim });
            let len = prog.blobs[0].len;
            // torn lengths: exhaustive for small plain data, sampled otherwise
            let w = match &prog.steps[victim].op {
                Op::Write(w) => w.clone(),
                // two writers: torn lengths are taken from the first one's chunking
                Op::TwoWriters { a, .. } => a.clone(),
                _ => unreachable!(),
            };
            let nwrites = if w.streamed() { crate::exec::cut_chunks(&vec![0u8; len.min(1 << 16)], &w.chunks).iter().filter(|c| !c.is_empty()).count() } else { 1 };
            if len <= tier.pick(64, 4096) {
                for nth in 0..nwrites {
                    for k in 1..len.max(1) {
                        // k_sel is mapped back monotonically onto 1..n-1 at run time; encode k exactly
                        out.push(Case::Torn { prog: prog.clone(), victim, nth_write: nth, k_sel: k as u16 });
                    }
                }
            } else {
                for (j, sel) in [1u16, 7, 4096, 30000, 65535].iter().enumerate() {
                    out.push(Case::Torn { prog: prog.clone(), victim, nth_write: j % nwrites.max(1), k_sel: *sel });
                }
            }
            for gate in [0usize, 1, 2, 5, 11, 12, 13, 18, 19, 20] {
                if (gate + len) % tier.pick(3, 1) == 0 {
                    out.push(Case::Kill { prog: prog.clone(), victim, gate });
                }
            }
        }
        out
    }
    fn exhaustive_note(&self, tier: Tier) -> String {
        format!(
            "{} scenarios: every mutating system call of the write inspected; torn lengths exhaustive for data <= {} bytes, 5 sampled lengths above; real kills at selected calls",
            scenarios(tier).len(),
            tier.pick(64, 4096)
        )
    }
    fn random_cases(&self, tier: Tier) -> u32 {
        tier.pick(600, 12000)
    }
    fn strategy(&self, tier: Tier) -> BoxedStrategy<Case> {
        prop_oneof![
            3 => victim_strategy().prop_map(|(prog, victim)| Case::Inspect { prog, victim }),
            3 => (victim_strategy(), 0usize..4, any::<u16>()).prop_map(|((prog, victim), nth_write, k_sel)| Case::Torn { prog, victim, nth_write, k_sel }),
            2 => (victim_strategy(), 0usize..26).prop_map(|((prog, victim), gate)| Case::Kill { prog, victim, gate }),
            6 => basic::program(prog_cfg(tier)).prop_map(Case::Program),
        ]
        .boxed()
    }
    fn case_timeout_s(&self, tier: Tier) -> u64 {
        tier.pick(180, 600)
    }
    fn run_case(&self, c: &Case, st: &mut Stats, env: &mut WorkerEnv) -> Result<(), String> {
        env.scratch.reset();
        match c {
            Case::Program(prog) => {
                let ctx = Ctx::new(env.scratch.cache.clone(), env.scratch.scratch.clone(), &prog.keys, &prog.blobs);
                let mut model = Model::new();
                let mut nt = false;
                for (i, s) in prog.steps.iter().enumerate() {
                    let r = run_step(&ctx, s);
                    model.step(&ctx, s, &r.out, r.t0, r.t1).map_err(|e| format!("{}: {e}", basic::describe_step(prog, i)))?;
                    inspect(&ctx.cache, st, &format!("after {}", basic::describe_step(prog, i)))?;
                    nt |= r.out.is_err() || matches!(s.op, Op::Abandon { .. });
                }
                st.class("no_crash_program");
                if nt {
                    st.class("nontrivial");
                    st.nontrivial(hash_of(c));
                }
                st.sample(|| serde_json::json!({"Program": super::progeng::compact_program(prog)}));
                Ok(())
            }
            Case::Inspect { prog, victim } | Case::Torn { prog, victim, .. } | Case::Kill { prog, victim, .. } => {
                let ctx = Ctx::new(env.scratch.cache.clone(), env.scratch.scratch.clone(), &prog.keys, &prog.blobs);
                self.preamble(&ctx, prog, *victim, st)?;
                let paths = Paths::new(&env.scratch.root, &env.scratch.cache, &env.scratch.scratch, prog);
                let cache = env.scratch.cache.clone();
                let mut verdict: Result<(), String> = Ok(());
                let mut nwrite = 0usize;
                let mut points: Vec<u64> = Vec::new();
                let base = hash_of(&(prog, victim));
                let run = run_supervised(&paths, *victim, victim + 1, false, None, |g, idx| {
                    if verdict.is_err() {
                        return Decision::Continue;
                    }
                    match c {
                        Case::Inspect { .. } => {
                            // (writes of a thousand slices make thousands of calls: every one of the
                            // first 200 is inspected, then every 16th — the interesting ones, the
                            // renames and links at the end, are path calls and always inspected)
                            let look = idx < 200 || idx % 16 == 0 || !g.is_write_class();
                            if look {
                                if let Err(e) = inspect(&cache, st, &format!("writer held before system call #{idx} {}", g.short())) {
                                    verdict = Err(e);
                                }
                            }
                            if idx > 0 {
                                points.push(base ^ (idx as u64).wrapping_mul(0x9e3779b97f4a7c15));
                            }
                            Decision::Continue
                        }
                        Case::Torn { nth_write, k_sel, .. } => {
                            if is_data_write(g) {
                                let n = g.count().unwrap_or(0);
                                let me = nwrite;
                                nwrite += 1;
                                if me == *nth_write && n >= 2 {
                                    // small selectors are exact lengths, large ones map monotonically
                                    let k = if (*k_sel as u64) < n && *k_sel > 0 { *k_sel as u64 } else { 1 + pick(*k_sel, (n - 1) as usize) as u64 };
                                    let k = k.clamp(1, n - 1);
                                    points.push(base ^ k.wrapping_mul(0xbf58476d1ce4e5b9) ^ me as u64);
                                    return Decision::Torn(k);
                                }
                            }
                            Decision::Continue
                        }
                        Case::Kill { gate, .. } => {
                            if idx == *gate {
                                if idx > 0 {
                                    points.push(base ^ (idx as u64).wrapping_mul(0x94d049bb133111eb));
                                }
                                Decision::Kill
                            } else {
                                Decision::Continue
                            }
                        }
                        Case::Program(_) => unreachable!(),
                    }
                })?;
                verdict?;
                let how = match c {
                    Case::Inspect { .. } => "after the write completed".to_string(),
                    Case::Torn { .. } => format!("after the torn write and kill ({} system calls seen)", run.gates.len()),
                    _ => format!("after the kill ({} system calls seen)", run.gates.len()),
                };
                inspect(&cache, st, &how)?;
                if !run.killed_by_us {
                    // the write ran to completion: it must have returned (Ok or a declared-mismatch error), never died
                    if run.status != "e0" {
                        return Err(format!("the writer process ended abnormally ({}) without being killed", run.status));
                    }
                    if let Some((_, o, _, _)) = run.outs.first() {
                        if o.is_panic() {
                            return Err(format!("the write panicked: {}", o.short()));
                        }
                    }
                }
                st.class(match c {
                    Case::Inspect { .. } => "pause_inspect_run",
                    Case::Torn { .. } => {
                        if run.killed_by_us {
                            "torn_write_run"
                        } else {
                            "torn_target_not_reached"
                        }
                    }
                    _ => {
                        if run.killed_by_us {
                            "kill_run"
                        } else {
                            "kill_point_beyond_end"
                        }
                    }
                });
                if let Op::Write(w) = &prog.steps[*victim].op {
                    let len = prog.blobs[w.blob].len;
                    let mm = crate::exec::declared_size(w.declare, len).map(|d| d > 0 && d <= MIB).unwrap_or(false) || (!w.streamed() && w.key.is_none() && len > 0 && len <= MIB);
                    st.class(if mm { "memory_mapped_writer" } else { "plain_writer" });
                    st.class(if prog.steps[*victim].fl == Fl::Sync { "victim_sync" } else { "victim_async" });
                }
                st.class_n("inspected_or_crash_points", points.len() as u64);
                for p in points {
                    st.nontrivial(p);
                }
                st.sample(|| serde_json::to_value(c).map(|mut v| { shrink_sample(&mut v); v }).unwrap());
                Ok(())
            }
        }
    }
    fn health(&self, st: &Stats, _tier: Tier) -> Result<(), String> {
        let torn = *st.classes.get("torn_write_run").unwrap_or(&0);
        let insp = *st.classes.get("pause_inspect_run").unwrap_or(&0);
        if st.cases >= 100 && (torn == 0 || insp == 0) {
            return Err(format!("torn runs {torn}, inspect runs {insp}: a crash class is starved"));
        }
        Ok(())
    }
    fn max_shrink_iters(&self) -> u32 {
        300
    }
}

fn shrink_sample(v: &mut serde_json::Value) {
    // keep samples readable: drop nothing, programs here are tiny
    let _ = v;
}
