//! Shared pieces for model-based program engines: the program runner with sweeps and the
//! random program strategy with configurable operation mix.

use crate::blob::{Algo, Blob};
use crate::engine::Stats;
use crate::exec::{run_step, Ctx};
use crate::gen::{self, pick, SizeMix, WriteMix};
use crate::model::Model;
use crate::ops::*;
use proptest::collection::vec;
use proptest::prelude::*;

/// Relative weights of operation kinds in random programs (0 = never).
#[derive(Clone, Copy, Debug)]
pub struct OpMix {
    pub write: u32,
    pub read: u32,
    pub read_hash: u32,
    pub stream: u32,
    pub meta: u32,
    pub exists: u32,
    pub list: u32,
    pub extract: u32,
    pub remove: u32,
    pub remove_hash: u32,
    pub remove_fully: u32,
    pub clear: u32,
    pub idx_insert: u32,
    pub idx_find: u32,
    pub idx_delete: u32,
    pub link_to: u32,
    pub abandon: u32,
    pub damage_content: u32,
    pub damage_bucket: u32,
    pub foreign: u32,
    pub two_writers: u32,
    pub switch_cache: u32,
    pub cancel_commit: u32,
    /// async commits cancelled in flight (`AbandonAt::CommitDropped`)
    pub commit_dropped: u32,
}

impl OpMix {
    pub const NONE: OpMix = OpMix {
        write: 0,
        read: 0,
        read_hash: 0,
        stream: 0,
        meta: 0,
        exists: 0,
        list: 0,
        extract: 0,
        remove: 0,
        remove_hash: 0,
        remove_fully: 0,
        clear: 0,
        idx_insert: 0,
        idx_find: 0,
        idx_delete: 0,
        link_to: 0,
        abandon: 0,
        damage_content: 0,
        damage_bucket: 0,
        foreign: 0,
        two_writers: 0,
        switch_cache: 0,
        cancel_commit: 0,
        commit_dropped: 0,
    };
}

#[derive(Clone, Copy, Debug)]
pub struct ProgCfg {
    pub mix: OpMix,
    pub wmix: WriteMix,
    pub sizes: SizeMix,
    pub keys: (usize, usize),
    pub blobs: (usize, usize),
    pub max_steps: usize,
}

pub fn idx_fields(nblobs: usize) -> impl Strategy<Value = IdxFields> {
    (
        proptest::option::weighted(0.85, gen::addr_ref(nblobs)),
        proptest::option::weighted(0.5, 0usize..100000),
        proptest::option::weighted(0.5, gen::time_text()),
        proptest::option::weighted(0.4, gen::json_value()),
        proptest::option::weighted(0.3, gen::raw_meta()),
    )
        .prop_map(|(integrity, size, time, metadata, raw_metadata)| IdxFields { integrity, size, time, metadata, raw_metadata })
}

pub fn abandon_at() -> impl Strategy<Value = AbandonAt> {
    prop_oneof![
        3 => (0usize..6).prop_map(AbandonAt::AfterChunks),
        3 => (0usize..4).prop_map(AbandonAt::MidFlight),
        2 => Just(AbandonAt::AfterFlush),
        2 => Just(AbandonAt::AfterShutdown),
    ]
}

/// Adds "cancel a write in mid-flight, then commit" (outcome unjudged: only for engines that
/// do not use the model).
pub fn abandon_at_with_cancel() -> impl Strategy<Value = AbandonAt> {
    prop_oneof![
        6 => abandon_at(),
        2 => (0usize..4).prop_map(AbandonAt::CancelThenCommit),
    ]
}

pub fn link_spec(nkeys: usize, nblobs: usize, bad: bool) -> impl Strategy<Value = LinkSpec> {
    (
        (any::<u16>(), any::<u16>(), 0usize..4, gen::algo(), any::<bool>(), any::<bool>()),
        vec(prop_oneof![Just(1usize), 1usize..8, 8usize..40000], 0..3),
        gen::declare(bad),
        if bad { gen::integ_decl().boxed() } else { prop_oneof![Just(IntegDecl::None), Just(IntegDecl::Correct)].boxed() },
    )
        .prop_map(move |((k, b, target, algo, oneshot, hash), pre_reads, declare, integ)| LinkSpec {
            key: if hash && (k & 3) == 0 { None } else { Some(pick(k, nkeys)) },
            blob: pick(b, nblobs),
            target,
            relative: false,
            algo: if oneshot { Algo::Sha256 } else { algo },
            oneshot,
            pre_reads: if oneshot { vec![] } else if (b & 7) == 7 { vec![usize::MAX] } else if (b & 7) == 6 { vec![usize::MAX - 1] } else { pre_reads },
            declare: if oneshot { Declare::Exact } else { declare },
            integ: if oneshot { IntegDecl::None } else { integ },
            dotdot_via_symlink: false,
            vectored_reads: !oneshot && (k & 4) == 4,
        })
}

pub fn op(cfg: ProgCfg, nkeys: usize, nblobs: usize) -> BoxedStrategy<Op> {
    let m = cfg.mix;
    let k = move || any::<u16>().prop_map(move |s| pick(s, nkeys));
    let mut alts: Vec<(u32, BoxedStrategy<Op>)> = Vec::new();
    let mut add = |w: u32, s: BoxedStrategy<Op>| {
        if w > 0 {
            alts.push((w, s));
        }
    };
    add(m.write, gen::write_spec(cfg.wmix, nkeys, nblobs).prop_map(Op::Write).boxed());
    add(m.read, k().prop_map(|key| Op::Read { key }).boxed());
    add(m.read_hash, gen::addr_ref(nblobs).prop_map(|addr| Op::ReadHash { addr }).boxed());
    add(m.stream, (gen::by(nkeys, nblobs), gen::bufs()).prop_map(|(by, bufs)| Op::Stream { by, bufs }).boxed());
    add(m.meta, k().prop_map(|key| Op::Meta { key }).boxed());
    add(m.exists, gen::addr_ref(nblobs).prop_map(|addr| Op::Exists { addr }).boxed());
    add(m.list, Just(Op::List).boxed());
    add(
        m.extract,
        (
            prop_oneof![3 => Just(XKind::Copy), 2 => Just(XKind::HardLink), 1 => Just(XKind::Reflink)],
            prop::bool::weighted(0.7),
            gen::by(nkeys, nblobs),
            prop_oneof![4 => Just(Dest::Absent), 2 => Just(Dest::Existing), 1 => Just(Dest::OtherFs), 1 => Just(Dest::LongName), 1 => Just(Dest::WithSiblings), 1 => Just(Dest::LinkOfContent), 1 => Just(Dest::ExistingSuperset), 1 => Just(Dest::SymlinkToContent), 1 => Just(Dest::Directory), 1 => Just(Dest::ExistingSameLength)],
        )
            .prop_map(|(kind, checked, by, dest)| Op::Extract { kind, checked, by, dest })
            .boxed(),
    );
    add(m.remove, k().prop_map(|key| Op::Remove { key }).boxed());
    add(m.remove_hash, gen::addr_ref(nblobs).prop_map(|addr| Op::RemoveHash { addr }).boxed());
    add(m.remove_hash.min(1), (gen::addr_ref(nblobs), any::<u16>()).prop_map(move |(addr, b)| Op::RemoveHashMulti { addr, also: pick(b, nblobs) }).boxed());
    add(m.switch_cache, Just(Op::SwitchCache).boxed());
    add(
        m.cancel_commit,
        (gen::write_spec(cfg.wmix, nkeys, nblobs), 0usize..4)
            .prop_map(|(mut spec, n)| {
                if !spec.streamed() {
                    spec.entry = WEntry::Opts;
                }
                if spec.chunks.is_empty() {
                    spec.chunks = vec![3, 4];
                }
                Op::Abandon { spec, at: AbandonAt::CancelThenCommit(n) }
            })
            .boxed(),
    );
    add(
        m.commit_dropped,
        (gen::write_spec(cfg.wmix, nkeys, nblobs), 1u8..5)
            .prop_map(|(mut spec, n)| {
                if !spec.streamed() {
                    spec.entry = WEntry::Opts;
                }
                spec.interfere = Interfere::None;
                spec.aged_hours = 0;
                spec.crowd = 0;
                spec.churn = 0;
                spec.cancel_chunk = None;
                Op::Abandon { spec, at: AbandonAt::CommitDropped(n) }
            })
            .boxed(),
    );
    add(m.remove_fully, (k(), prop::bool::weighted(0.8)).prop_map(|(key, fully)| Op::RemoveOpts { key, fully }).boxed());
    add(m.clear, Just(Op::Clear).boxed());
    add(m.idx_insert, (k(), idx_fields(nblobs)).prop_map(|(key, fields)| Op::IdxInsert { key, fields }).boxed());
    add(m.idx_find, k().prop_map(|key| Op::IdxFind { key }).boxed());
    add(m.idx_delete, k().prop_map(|key| Op::IdxDelete { key }).boxed());
    add(m.link_to, link_spec(nkeys, nblobs, cfg.wmix.bad_decls).prop_map(Op::LinkTo).boxed());
    add(m.link_to.min(1), (0usize..4).prop_map(|target| Op::RemoveTarget { target }).boxed());
    add(
        m.abandon,
        (gen::write_spec(cfg.wmix, nkeys, nblobs), if cfg.wmix.interfere { abandon_at_with_cancel().boxed() } else { abandon_at().boxed() })
            .prop_map(|(mut spec, at)| {
                if !spec.streamed() {
                    spec.entry = WEntry::Opts;
                }
                Op::Abandon { spec, at }
            })
            .boxed(),
    );
    add(m.damage_content, (gen::addr_ref(nblobs), gen::cdamage(nblobs)).prop_map(|(addr, dmg)| Op::DamageContent { addr, dmg }).boxed());
    add(m.damage_content.min(1), prop_oneof![Just(1u32), Just(30u32), Just(4000u32)].prop_map(|days| Op::AgeCache { days }).boxed());
    add(m.damage_bucket, (k(), gen::bdamage()).prop_map(|(key, dmg)| Op::DamageBucket { key, dmg }).boxed());
    add(
        m.foreign,
        (k(), k(), gen::addr_ref(nblobs)).prop_map(|(bucket_of, key, addr)| Op::ForeignRecord { bucket_of, key, addr }).boxed(),
    );
    add(m.foreign.min(1), (k(), k()).prop_map(|(bucket_of, key)| Op::ForeignTombstone { bucket_of, key }).boxed());
    add(
        m.two_writers,
        (gen::write_spec(cfg.wmix, nkeys, nblobs), gen::write_spec(cfg.wmix, nkeys, nblobs), 0u8..4, 0u8..4)
            .prop_map(|(a, b, plan, twin)| two_writers(a, b, plan, twin))
            .boxed(),
    );
    proptest::strategy::Union::new_weighted(alts).boxed()
}

/// Two streaming writers open at once. `twin` 0: unrelated specs; 1: the same data and the same
/// correctly declared integrity under two keys; 2: the same key; 3: same data, same key.
pub fn two_writers(mut a: WriteSpec, mut b: WriteSpec, plan: u8, twin: u8) -> Op {
    for s in [&mut a, &mut b] {
        s.entry = WEntry::Opts;
        if s.chunks.is_empty() {
            s.chunks = vec![2, 5];
        }
        s.pause_ms = 0;
        s.interfere = Interfere::None;
        s.vectored = 0;
        s.cancel_chunk = None;
        s.aged_hours = 0;
        s.flush = false;
    }
    match twin {
        1 => {
            b.blob = a.blob;
            b.algo = a.algo;
            a.integ = IntegDecl::Correct;
            b.integ = IntegDecl::Correct;
            a.declare = Declare::None;
            b.declare = Declare::Exact;
        }
        2 => b.key = a.key,
        3 => {
            b.key = a.key;
            b.blob = a.blob;
            b.algo = a.algo;
        }
        _ => {}
    }
    Op::TwoWriters { a, b, plan }
}

/// Random programs: pools first, then steps whose selectors are resolved against the pool
/// sizes (the largest pool sizes are used for generation and indices are re-mapped
/// monotonically onto the actual pools, so everything stays inside proptest and shrinks).
pub fn program(cfg: ProgCfg) -> BoxedStrategy<Program> {
    let maxk = cfg.keys.1;
    let maxb = cfg.blobs.1;
    (
        gen::key_pool(cfg.keys.0, cfg.keys.1),
        gen::blob_pool(cfg.blobs.0, cfg.blobs.1, cfg.sizes),
        vec((op(cfg, maxk, maxb), gen::fl()), 1..=cfg.max_steps),
        0u8..24,
    )
        .prop_map(move |(mut keys, blobs, steps, alias)| {
            // now and then the last key of the pool is, as text, the ADDRESS of the first value
            // of the pool (keys are opaque strings: such a key is a key like any other)
            if alias < 3 && blobs[0].len <= 65536 {
                let a = [crate::blob::Algo::Sha256, crate::blob::Algo::Sha1, crate::blob::Algo::Sha512][alias as usize];
                let k = crate::blob::sri(a, &blobs[0].bytes());
                if !keys.contains(&k) {
                    let last = keys.len() - 1;
                    keys[last] = k;
                }
            }
            let nk = keys.len();
            let nb = blobs.len();
            let steps = steps
                .into_iter()
                .map(|(mut op, fl)| {
                    remap_op(&mut op, &|k| k * nk / maxk.max(1), &|b| b * nb / maxb.max(1));
                    Step { op, fl }
                })
                .collect();
            Program { keys, blobs, steps }
        })
        .boxed()
}

fn remap_addr(a: &mut AddrRef, fb: &dyn Fn(usize) -> usize) {
    a.blob = fb(a.blob);
}

fn remap_by(b: &mut By, fk: &dyn Fn(usize) -> usize, fb: &dyn Fn(usize) -> usize) {
    match b {
        By::Key(k) => *k = fk(*k),
        By::Addr(a) => remap_addr(a, fb),
    }
}

/// Rewrites pool indices of an operation.
pub fn remap_op(op: &mut Op, fk: &dyn Fn(usize) -> usize, fb: &dyn Fn(usize) -> usize) {
    match op {
        Op::Write(s) | Op::Abandon { spec: s, .. } => {
            if let Some(k) = &mut s.key {
                *k = fk(*k);
            }
            s.blob = fb(s.blob);
        }
        Op::TwoWriters { a, b, .. } => {
            for s in [a, b] {
                if let Some(k) = &mut s.key {
                    *k = fk(*k);
                }
                s.blob = fb(s.blob);
            }
        }
        Op::Read { key } | Op::Meta { key } | Op::Remove { key } | Op::RemoveOpts { key, .. } | Op::IdxFind { key } | Op::IdxDelete { key } => {
            *key = fk(*key)
        }
        Op::ReadHash { addr } | Op::Exists { addr } | Op::RemoveHash { addr } => remap_addr(addr, fb),
        Op::Stream { by, .. } | Op::Extract { by, .. } => remap_by(by, fk, fb),
        Op::List | Op::Clear | Op::IdxLs | Op::Chdir { .. } | Op::TmpElsewhere | Op::RemoveTarget { .. } | Op::SwitchCache | Op::AgeCache { .. } => {}
        Op::RemoveHashMulti { addr, also } => {
            remap_addr(addr, fb);
            *also = fb(*also);
        }
        Op::PlantRecord { key, .. } => *key = fk(*key),
        Op::IdxInsert { key, fields } => {
            *key = fk(*key);
            if let Some(a) = &mut fields.integrity {
                remap_addr(a, fb);
            }
        }
        Op::LinkTo(l) => {
            if let Some(k) = &mut l.key {
                *k = fk(*k);
            }
            l.blob = fb(l.blob);
        }
        Op::DamageContent { addr, dmg } => {
            remap_addr(addr, fb);
            match dmg {
                CDamage::OtherBlob(b) | CDamage::SymlinkToBlob(b) => *b = fb(*b),
                CDamage::SwapWith(a) => remap_addr(a, fb),
                _ => {}
            }
        }
        Op::DamageBucket { key, .. } => *key = fk(*key),
        Op::ForeignTombstone { bucket_of, key } => {
            *bucket_of = fk(*bucket_of);
            *key = fk(*key);
        }
        Op::ForeignRecord { bucket_of, key, addr } => {
            *bucket_of = fk(*bucket_of);
            *key = fk(*key);
            remap_addr(addr, fb);
        }
    }
}

/// Addresses a program can have produced: every (algo, blob) named by a write, link, raw
/// insert, damage or read step.
pub fn addr_universe(prog: &Program) -> Vec<AddrRef> {
    let mut v: Vec<AddrRef> = Vec::new();
    let mut push = |a: AddrRef| {
        if !v.contains(&a) {
            v.push(a);
        }
    };
    for s in &prog.steps {
        match &s.op {
            Op::Write(w) | Op::Abandon { spec: w, .. } => {
                let algo = if matches!(w.entry, WEntry::OneShot | WEntry::Create) { Algo::Sha256 } else { w.algo };
                push(AddrRef { algo, blob: w.blob })
            }
            Op::TwoWriters { a, b, .. } => {
                push(AddrRef { algo: a.algo, blob: a.blob });
                push(AddrRef { algo: b.algo, blob: b.blob });
            }
            Op::LinkTo(l) => push(AddrRef { algo: if l.oneshot { Algo::Sha256 } else { l.algo }, blob: l.blob }),
            Op::ReadHash { addr } | Op::Exists { addr } | Op::RemoveHash { addr } | Op::DamageContent { addr, .. } => push(*addr),
            Op::RemoveHashMulti { addr, also } => {
                push(*addr);
                if let Some(w) = crate::exec::weaker_algo(addr.algo) {
                    push(AddrRef { algo: w, blob: *also });
                }
            }
            Op::IdxInsert { fields, .. } => {
                if let Some(a) = fields.integrity {
                    push(a)
                }
            }
            Op::ForeignRecord { addr, .. } => push(*addr),
            Op::Stream { by: By::Addr(a), .. } | Op::Extract { by: By::Addr(a), .. } => push(*a),
            _ => {}
        }
    }
    v
}

/// Looks every key of the pool up through the given entry points and judges each against the
/// model. `deep` adds reads (by key) to the metadata lookups.
pub fn sweep_keys(ctx: &Ctx, model: &mut Model, st: &mut Stats, deep: bool, salt: usize) -> Result<(), String> {
    for k in 0..ctx.keys.len() {
        let mut ops: Vec<Step> = vec![
            Step { op: Op::Meta { key: k }, fl: Fl::Sync },
            Step { op: Op::Meta { key: k }, fl: Fl::Async },
        ];
        if deep {
            let fl = if (k + salt) % 2 == 0 { Fl::Sync } else { Fl::Async };
            ops.push(Step { op: Op::Read { key: k }, fl });
            ops.push(Step { op: Op::IdxFind { key: k }, fl: if fl == Fl::Sync { Fl::Async } else { Fl::Sync } });
        }
        for s in ops {
            let r = run_step(ctx, &s);
            st.eval(1);
            model.step(ctx, &s, &r.out, r.t0, r.t1).map_err(|e| format!("sweep {:?}/{:?}: {e}", s.op.name(), s.fl))?;
        }
    }
    Ok(())
}

pub fn sweep_addrs(ctx: &Ctx, model: &mut Model, st: &mut Stats, addrs: &[AddrRef], salt: usize) -> Result<(), String> {
    for (i, a) in addrs.iter().enumerate() {
        let fl = if (i + salt) % 2 == 0 { Fl::Sync } else { Fl::Async };
        let other = if fl == Fl::Sync { Fl::Async } else { Fl::Sync };
        for s in [Step { op: Op::Exists { addr: *a }, fl }, Step { op: Op::ReadHash { addr: *a }, fl: other }] {
            let r = run_step(ctx, &s);
            st.eval(1);
            model.step(ctx, &s, &r.out, r.t0, r.t1).map_err(|e| format!("sweep {:?}/{:?}: {e}", s.op.name(), s.fl))?;
        }
    }
    Ok(())
}

pub fn sweep_list(ctx: &Ctx, model: &mut Model, st: &mut Stats) -> Result<(), String> {
    ctx.cache_is_same_dir()?;
    let s = Step { op: Op::List, fl: Fl::Sync };
    let r = run_step(ctx, &s);
    st.eval(1);
    model.step(ctx, &s, &r.out, r.t0, r.t1).map_err(|e| format!("sweep list: {e}"))
}

pub fn describe_step(prog: &Program, i: usize) -> String {
    format!("step {i} {:?}", prog.steps[i])
}

pub fn blob_desc(b: &Blob) -> String {
    format!("{}B/{:?}/{}", b.len, b.fill, b.salt)
}

/// `ContentTreeValid` as an error string (a step invariant of several engines). Files the
/// harness itself damaged or substituted (the model knows them as not reading back) are
/// discounted.
pub fn content_invariant(ctx: &Ctx, model: &Model, allow_symlinks: bool) -> Result<(), String> {
    let bad: Vec<String> = crate::reffmt::content_tree_violations_ex(&ctx.cache, allow_symlinks)
        .into_iter()
        .filter(|(addr, _)| match addr {
            Some(a) => match model.content.get(a) {
                Some(_) => matches!(model.read_exp(a), crate::model::ReadExp::Bytes(_)),
                None => true,
            },
            None => true,
        })
        .map(|x| x.1)
        .collect();
    if bad.is_empty() {
        Ok(())
    } else {
        Err(format!("content area invalid: {}", bad.join("; ")))
    }
}
