//! C07 — concurrent, lock-free use by several processes behaves like some serial order.

use super::basic;
use super::{hash_of, Engine, Stats, Tier, WorkerEnv};
use crate::blob::{Algo, Blob};
use crate::exec::{run_step, Ctx};
use crate::model::Model;
use crate::ops::*;
use crate::reffmt;
use crate::sup::{driver_cmd, read_outs, Ev, Sup};
use proptest::collection::vec;
use proptest::prelude::*;
use serde::{Deserialize, Serialize};

#[derive(Clone, Debug, Serialize, Deserialize)]
pub enum Mode {
    /// each operation in its own single-threaded sync driver process; the schedule decides,
    /// at every filesystem system call, which held process continues:
    /// `first` = who runs first, `switches` = sorted (event position, switch-to choice)
    /// `aged`: at every switch, while everybody is held, all files of the cache are back-dated by
    /// two days (whatever somebody treats as "stale" then includes the held operation's files)
    Scheduled {
        first: u8,
        switches: Vec<(u16, u8)>,
        #[serde(default)]
        aged: bool,
    },
    /// uncontrolled: one thread per operation in this process (any flavour), started together
    Stress { rounds: u8 },
    /// the operations (async flavour) are futures joined in ONE task of this process: they
    /// interleave on one thread wherever the library awaits
    Joined,
}

#[derive(Clone, Debug, Serialize, Deserialize)]
pub struct Case {
    pub keys: Vec<String>,
    pub blobs: Vec<Blob>,
    pub init: Vec<Step>,
    pub ops: Vec<Step>,
    pub mode: Mode,
    /// scheduled mode: `procs[i]` = the process that runs operation i (non-decreasing; a process
    /// runs its operations one after the other). Empty: one process per operation.
    #[serde(default)]
    pub procs: Vec<u8>,
}

pub struct C07;

fn a(blob: usize) -> AddrRef {
    AddrRef { algo: Algo::Sha256, blob }
}

fn wr(key: Option<usize>, blob: usize) -> Op {
    Op::Write(WriteSpec::simple(key, blob))
}

fn wr_stream(key: usize, blob: usize) -> Op {
    let mut s = WriteSpec::simple(Some(key), blob);
    s.entry = WEntry::Opts;
    s.chunks = vec![3, 4];
    s.metadata = Some(serde_json::json!({"w": key}));
    Op::Write(s)
}

/// A streamed write whose commit is rejected: the declared size is off by `off`, or (off == 0)
/// the declared integrity is wrong. It must fail in every order and disturb nobody.
fn wr_rejected(key: Option<usize>, blob: usize, off: i64) -> Op {
    let mut s = WriteSpec::simple(key, blob);
    s.entry = WEntry::Opts;
    s.chunks = vec![3, 4];
    if off == 0 {
        s.integ = IntegDecl::WrongDigest;
    } else {
        s.declare = Declare::Off(off);
    }
    Op::Write(s)
}

/// `link_to` of a file holding blob `blob` under key `key`.
fn link(key: usize, blob: usize) -> Op {
    Op::LinkTo(LinkSpec { key: Some(key), blob, target: blob, relative: false, algo: Algo::Sha256, oneshot: true, pre_reads: vec![], declare: Declare::Exact, integ: IntegDecl::None, dotdot_via_symlink: false, vectored_reads: false })
}

/// A keyed write whose index record is about 9 KiB long (metadata).
fn wr_big_record(key: usize, blob: usize) -> Op {
    let mut s = WriteSpec::simple(Some(key), blob);
    s.entry = WEntry::Opts;
    s.metadata = Some(serde_json::json!({"pad": "m".repeat(9000 + blob), "w": blob}));
    Op::Write(s)
}

/// Operation sets chosen to share keys / addresses / bucket files.
fn op_sets() -> Vec<(Vec<Op>, Vec<Op>)> {
    // (initial state, concurrent operations)
    vec![
        (vec![], vec![wr(Some(0), 0), wr(Some(0), 1)]),                                   // same key, different data, cold
        (vec![], vec![wr(Some(0), 0), wr(Some(1), 0)]),                                   // different keys, identical content, cold
        (vec![wr(Some(0), 2)], vec![wr(Some(0), 0), Op::Read { key: 0 }]),               // writer vs reader
        (vec![wr(Some(0), 2)], vec![wr_stream(0, 0), Op::Meta { key: 0 }]),
        (vec![wr(Some(0), 2)], vec![Op::Remove { key: 0 }, wr(Some(0), 1)]),             // remover vs writer
        (vec![wr(Some(0), 2)], vec![Op::Remove { key: 0 }, Op::Read { key: 0 }]),
        (vec![wr(Some(0), 0)], vec![Op::RemoveHash { addr: a(0) }, Op::ReadHash { addr: a(0) }]),
        (vec![wr(Some(0), 0)], vec![Op::RemoveHash { addr: a(0) }, wr(Some(1), 0)]),     // content removed while re-written
        (vec![wr(Some(0), 0)], vec![wr(Some(1), 1), Op::List]),                           // lister vs writer
        (vec![], vec![wr(None, 0), Op::Exists { addr: a(0) }]),
        (vec![wr(Some(1), 2)], vec![wr(Some(0), 0), wr(Some(0), 1), Op::Read { key: 0 }]),
        (vec![], vec![wr(Some(0), 0), wr(Some(1), 0), wr(None, 0)]),
        (vec![wr(Some(0), 2)], vec![Op::Remove { key: 0 }, wr_stream(0, 1), Op::List]),
        (vec![wr(Some(0), 0), wr(Some(1), 0)], vec![Op::RemoveHash { addr: a(0) }, Op::Read { key: 1 }, wr(Some(0), 0)]),
        // rejected commits of data that is already stored, racing with its readers
        (vec![wr(Some(0), 0)], vec![wr_rejected(Some(1), 0, 40), Op::Read { key: 0 }]),
        (vec![wr(Some(0), 1)], vec![wr_rejected(None, 1, 700), Op::ReadHash { addr: a(1) }]),
        (vec![wr(Some(0), 0)], vec![wr_rejected(Some(0), 0, 0), Op::Read { key: 0 }]),
        (vec![wr(Some(0), 1)], vec![wr_rejected(Some(0), 1, -2), Op::Read { key: 0 }, Op::Meta { key: 0 }]),
        // a rejected commit of cold data racing with a successful writer of the same bytes
        (vec![], vec![wr_rejected(Some(1), 0, 0), wr(Some(0), 0)]),
        (vec![], vec![wr_rejected(None, 1, 0), wr(Some(0), 1), Op::Read { key: 0 }]),
        // records of more than 8 KiB (more than one buffer of a buffered writer) appended concurrently
        (vec![], vec![wr_big_record(0, 0), wr_big_record(0, 1)]),
        (vec![wr(Some(0), 2)], vec![wr_big_record(0, 0), Op::Remove { key: 0 }, Op::Meta { key: 0 }]),
        // the bytes are in the cache as a linked file; an ordinary writer stores them again while
        // somebody reads them
        (vec![link(1, 0)], vec![wr(Some(0), 0), Op::ReadHash { addr: a(0) }]),
        (vec![link(1, 1)], vec![wr(None, 1), Op::Read { key: 1 }, Op::Exists { addr: a(1) }]),
        // the temp area lives on another filesystem (publication cannot be a rename)
        (vec![Op::TmpElsewhere], vec![wr(None, 0), Op::ReadHash { addr: a(0) }]),
        (vec![wr(Some(1), 0), Op::TmpElsewhere], vec![wr(Some(0), 0), Op::Read { key: 1 }]),
    ]
}

/// Operation sets that start from a long history on one key (hundreds of records, a bucket of
/// more than 64 KiB): whatever housekeeping an implementation does on big buckets races here.
fn long_history_sets() -> Vec<(Vec<Op>, Vec<Op>)> {
    let long: Vec<Op> = (0..330).map(|i| if i % 4 == 3 { wr_stream(0, i % 3) } else { wr(Some(0), i % 3) }).collect();
    vec![
        (long.clone(), vec![wr(Some(0), 1), Op::Meta { key: 0 }]),
        (long.clone(), vec![Op::Remove { key: 0 }, Op::Read { key: 0 }]),
        (long, vec![wr(Some(0), 2), wr(Some(0), 1)]),
    ]
}

fn pools() -> (Vec<String>, Vec<Blob>) {
    (vec!["shared-key".into(), "other-ключ".into()], vec![Blob::new(12, 61), Blob::new(300, 62), Blob::new(5, 63)])
}

fn sync_steps(ops: &[Op]) -> Vec<Step> {
    ops.iter().map(|o| Step { op: o.clone(), fl: Fl::Sync }).collect()
}

fn rand_op() -> impl Strategy<Value = Op> {
    prop_oneof![
        4 => (0usize..2, 0usize..3).prop_map(|(k, b)| wr(Some(k), b)),
        2 => (0usize..2, 0usize..3).prop_map(|(k, b)| wr_stream(k, b)),
        1 => (0usize..3).prop_map(|b| wr(None, b)),
        1 => (0usize..2, 0usize..3, prop_oneof![Just(0i64), Just(1), Just(40), Just(-1)]).prop_map(|(k, b, off)| wr_rejected(Some(k), b, off)),
        2 => (0usize..2).prop_map(|key| Op::Read { key }),
        1 => (0usize..3).prop_map(|b| Op::ReadHash { addr: a(b) }),
        2 => (0usize..2).prop_map(|key| Op::Meta { key }),
        2 => (0usize..2).prop_map(|key| Op::Remove { key }),
        1 => (0usize..3).prop_map(|b| Op::RemoveHash { addr: a(b) }),
        1 => (0usize..3).prop_map(|b| Op::Exists { addr: a(b) }),
        1 => Just(Op::List),
    ]
}

fn permutations(n: usize) -> Vec<Vec<usize>> {
    fn rec(cur: &mut Vec<usize>, used: &mut Vec<bool>, n: usize, out: &mut Vec<Vec<usize>>) {
        if cur.len() == n {
            out.push(cur.clone());
            return;
        }
        for i in 0..n {
            if !used[i] {
                used[i] = true;
                cur.push(i);
                rec(cur, used, n, out);
                cur.pop();
                used[i] = false;
            }
        }
    }
    let mut out = Vec::new();
    rec(&mut Vec::new(), &mut vec![false; n], n, &mut out);
    out
}

struct Observed {
    outs: Vec<(Out, u128, u128)>,
    finals: Vec<(Step, Out, u128, u128)>,
}

/// Is there a serial order of the operations that explains every result and the final state?
/// `before`: pairs (x, y) — operation x had returned before operation y began (known in
/// scheduled runs only), or x precedes y in the same process: x comes first in the serial order.
fn serialisable(ctx: &Ctx, m0: &Model, ops: &[Step], obs: &Observed, before: &[(usize, usize)]) -> Result<Vec<usize>, String> {
    let mut reasons = Vec::new();
    'perm: for perm in permutations(ops.len()) {
        let pos = |x: usize| perm.iter().position(|&p| p == x).unwrap();
        if before.iter().any(|&(x, y)| pos(x) > pos(y)) {
            continue 'perm;
        }
        let mut m = m0.clone();
        m.pure = true;
        for &i in &perm {
            let (o, t0, t1) = &obs.outs[i];
            if let Err(e) = m.step(ctx, &ops[i], o, *t0, *t1) {
                reasons.push(format!("order {perm:?}: op {i}: {e}"));
                continue 'perm;
            }
        }
        for (s, o, t0, t1) in &obs.finals {
            if let Err(e) = m.step(ctx, s, o, *t0, *t1) {
                reasons.push(format!("order {perm:?}: final state: {e}"));
                continue 'perm;
            }
        }
        return Ok(perm);
    }
    if reasons.is_empty() {
        reasons.push(format!("no order is compatible with the real-time precedences {before:?}"));
    }
    Err(reasons.join(" || "))
}

fn final_observations(ctx: &Ctx, addrs: &[AddrRef]) -> Vec<(Step, Out, u128, u128)> {
    let mut v = Vec::new();
    for k in 0..ctx.keys.len() {
        for (op, fl) in [(Op::Meta { key: k }, Fl::Sync), (Op::Read { key: k }, Fl::Async)] {
            let s = Step { op, fl };
            let r = run_step(ctx, &s);
            v.push((s, r.out, r.t0, r.t1));
        }
    }
    for ad in addrs {
        for (op, fl) in [(Op::Exists { addr: *ad }, Fl::Async), (Op::ReadHash { addr: *ad }, Fl::Sync)] {
            let s = Step { op, fl };
            let r = run_step(ctx, &s);
            v.push((s, r.out, r.t0, r.t1));
        }
    }
    let s = Step { op: Op::List, fl: Fl::Sync };
    let r = run_step(ctx, &s);
    v.push((s, r.out, r.t0, r.t1));
    v
}

/// No record lost, none fused: every bucket file decodes to valid records only, and their
/// number is the number of successful inserts / removals that went to that bucket.
fn splice_check(ctx: &Ctx, init: &[Step], init_outs: &[(Out, u128, u128)], ops: &[Step], outs: &[(Out, u128, u128)]) -> Result<(), String> {
    for (k, key) in ctx.keys.iter().enumerate() {
        let count = |steps: &[Step], outs: Option<&[(Out, u128, u128)]>| -> usize {
            steps
                .iter()
                .enumerate()
                .filter(|(i, s)| {
                    let ok = outs.map(|o| matches!(o[*i].0, Out::Int(_) | Out::Unit)).unwrap_or(true);
                    ok && match &s.op {
                        Op::Write(w) => w.key == Some(k),
                        Op::LinkTo(l) => l.key == Some(k),
                        Op::Remove { key } => *key == k,
                        _ => false,
                    }
                })
                .count()
        };
        let expect = count(init, Some(init_outs)) + count(ops, Some(outs));
        let p = reffmt::bucket_path(&ctx.cache, key);
        let bytes = std::fs::read(&p).unwrap_or_default();
        let lines = reffmt::split_lines(&bytes);
        let valid = lines.iter().filter(|l| reffmt::parse_line(l).is_some()).count();
        let junk = lines.iter().filter(|l| !l.is_empty() && reffmt::parse_line(l).is_none()).count();
        if junk > 0 {
            return Err(format!("the bucket of {key:?} contains {junk} line(s) that are not valid records (spliced or partial appends)"));
        }
        if valid != expect {
            return Err(format!("the bucket of {key:?} holds {valid} valid records, {expect} inserts/removals succeeded (a record was lost or duplicated)"));
        }
    }
    Ok(())
}

impl Engine for C07 {
    type Case = Case;
    fn id(&self) -> &'static str {
        "C07"
    }
    fn rule(&self) -> String {
        "an initial state (cold or warm) and 2-3 operations from {write, streamed write, write_hash, read, read_hash, metadata, remove, remove_hash, exists, list} chosen to share \
         keys, addresses and bucket files. Scheduled mode: each operation runs in its own single-threaded sync driver process under one ptrace supervisor that holds every \
         process before every filesystem system call (reads and writes); the generated schedule (who starts, and a sorted list of preemption points) decides which held process \
         continues — all schedules with <= p preemptions are enumerated for the fixed operation sets, random schedules beyond. Stress mode: one thread per operation in-process, any \
         flavour, started together (uncontrolled). Processes may run two or three operations in a row (a process that looks twice while another one writes); in scheduled runs the serial order must also respect real time — an operation that had returned before another one began comes first. Joined mode: the operations (async flavour) are futures joined in one task, interleaving on one thread wherever the library awaits. \
         Aged schedules: at the preemption every file of the cache is back-dated by two days. Oracle: some permutation of the operations, replayed sequentially on the reference model from the initial state, yields every \
         observed result and the observed final state (lookups and reads of all keys, exists/read_hash of all addresses, listing); plus the splice detector: every bucket decodes to \
         valid records only and as many as inserts/removals succeeded. Non-trivial = >=1 preemption inside an operation (scheduled) / >=2 operations sharing a path (stress); \
         distinct = distinct (operation set, schedule)"
            .into()
    }
    fn assumptions(&self) -> Vec<String> {
        vec![
            "controlled schedules use the sync flavour (the async runtimes' thread pools cannot be scheduled from outside); async flavours get uncontrolled stress only".into(),
            "only serialisability is demanded, not real-time order; clear and full removal are excluded as the property says".into(),
            "atomicity inside one write(2) is below the stated granularity".into(),
        ]
    }
    fn exhaustive(&self, tier: Tier) -> Vec<Case> {
        let (keys, blobs) = pools();
        let mut out = Vec::new();
        let mut sets = op_sets();
        sets.extend(long_history_sets());
        // futures of one task: more shapes than the scheduled sets (cheap, in-process)
        for (init, ops) in [
            (vec![], vec![wr(Some(0), 0), wr(Some(1), 1)]),
            (vec![], vec![wr(Some(0), 1), wr(Some(1), 1), wr(Some(0), 2)]),
            (vec![], vec![wr_stream(0, 0), wr_stream(1, 1), wr(None, 2)]),
            (vec![], vec![wr(Some(0), 0), wr(Some(1), 1), wr(Some(0), 1), wr(Some(1), 0)]),
            (vec![wr(Some(0), 2), wr(Some(1), 2)], vec![wr(Some(0), 0), wr(Some(1), 1)]),
            (vec![wr(Some(0), 2), wr(Some(1), 2)], vec![Op::Remove { key: 0 }, wr(Some(1), 1), Op::Meta { key: 1 }]),
            (vec![wr(Some(0), 2), wr(Some(1), 1)], vec![Op::Remove { key: 0 }, Op::Remove { key: 1 }, Op::List]),
            (vec![wr(Some(0), 0)], vec![wr_big_record(0, 1), wr_big_record(1, 2), Op::Read { key: 0 }]),
            (vec![wr(Some(0), 0), wr(Some(1), 1)], vec![Op::Read { key: 0 }, Op::Read { key: 1 }, Op::ReadHash { addr: a(0) }, wr(Some(0), 1)]),
        ] {
            for rep in 0..3 {
                let mut ops: Vec<Op> = ops.clone();
                let by = rep % ops.len();
                ops.rotate_left(by);
                out.push(Case { keys: keys.clone(), blobs: blobs.clone(), init: sync_steps(&init), ops: ops.into_iter().map(|op| Step { op, fl: Fl::Async }).collect(), mode: Mode::Joined, procs: vec![] });
            }
        }
        // a process that looks twice (three times) while another process writes / removes: what
        // the second look returns must account for everything that had returned before it began
        for (init, ops, procs) in [
            (vec![wr(Some(0), 2)], vec![Op::Meta { key: 0 }, Op::Meta { key: 0 }, wr(Some(0), 0)], vec![0u8, 0, 1]),
            (vec![wr(Some(0), 2)], vec![Op::Read { key: 0 }, Op::Read { key: 0 }, Op::Remove { key: 0 }], vec![0, 0, 1]),
            (vec![wr(Some(0), 2)], vec![Op::Meta { key: 0 }, Op::Read { key: 0 }, Op::Meta { key: 0 }, wr_stream(0, 1)], vec![0, 0, 0, 1]),
            (vec![wr(Some(0), 0)], vec![Op::List, Op::List, wr(Some(1), 1)], vec![0, 0, 1]),
            (vec![wr(Some(0), 0)], vec![Op::ReadHash { addr: a(0) }, Op::Exists { addr: a(0) }, Op::RemoveHash { addr: a(0) }], vec![0, 0, 1]),
            (vec![], vec![Op::Meta { key: 0 }, Op::Meta { key: 0 }, wr(Some(0), 1)], vec![0, 0, 1]),
            (vec![wr(Some(0), 2)], vec![wr(Some(0), 0), Op::Meta { key: 0 }, wr(Some(0), 1), Op::Meta { key: 0 }], vec![0, 0, 1, 1]),
        ] {
            let np = 2u8;
            for first in 0..np {
                for pos in 0..tier.pick(50u16, 90) {
                    out.push(Case { keys: keys.clone(), blobs: blobs.clone(), init: sync_steps(&init), ops: sync_steps(&ops), mode: Mode::Scheduled { first, switches: vec![(pos, 0)], aged: false }, procs: procs.clone() });
                    if pos % 3 == 0 {
                        out.push(Case { keys: keys.clone(), blobs: blobs.clone(), init: sync_steps(&init), ops: sync_steps(&ops), mode: Mode::Scheduled { first, switches: vec![(pos, 0), (pos + 7, 0)], aged: false }, procs: procs.clone() });
                    }
                }
            }
        }
        for (init, ops) in sets {
            let n = ops.len();
            let mk_aged = |first: u8, switches: Vec<(u16, u8)>, aged: bool| Case {
                keys: keys.clone(),
                blobs: blobs.clone(),
                init: sync_steps(&init),
                ops: sync_steps(&ops),
                mode: Mode::Scheduled { first, switches, aged },
                procs: vec![],
            };
            let mk = |first: u8, switches: Vec<(u16, u8)>| mk_aged(first, switches, false);
            // the same operations as futures of one task
            if init.len() < 100 {
                out.push(Case { keys: keys.clone(), blobs: blobs.clone(), init: sync_steps(&init), ops: ops.iter().map(|o| Step { op: o.clone(), fl: Fl::Async }).collect(), mode: Mode::Joined, procs: vec![] });
            }
            for first in 0..n as u8 {
                out.push(mk(first, vec![]));
                // one preemption at every position
                let maxpos = tier.pick(if n == 2 { 60 } else { 40 }, 90);
                for pos in 0..maxpos {
                    for who in 0..(n as u8 - 1) {
                        out.push(mk(first, vec![(pos, who)]));
                    }
                }
                // ... and with everything in the cache looking two days old at the preemption
                if n == 2 && init.len() < 100 {
                    for pos in 0..tier.pick(30, 60) {
                        out.push(mk_aged(first, vec![(pos, 0)], true));
                    }
                }
                if tier == Tier::Thorough && n == 2 {
                    for p1 in (0..70u16).step_by(1) {
                        for p2 in (p1 + 1..70).step_by(2) {
                            out.push(mk(first, vec![(p1, 0), (p2, 0)]));
                        }
                    }
                }
            }
        }
        out
    }
    fn exhaustive_note(&self, tier: Tier) -> String {
        format!(
            "{} operation sets: all start orders x all schedules with <= 1 preemption (positions up to the bound, beyond-the-end positions are no-ops){}",
            op_sets().len(),
            tier.pick("", "; pairs additionally with 2 preemptions (every first position, every second second position)")
        )
    }
    fn random_cases(&self, tier: Tier) -> u32 {
        tier.pick(500, 6000)
    }
    fn strategy(&self, _tier: Tier) -> BoxedStrategy<Case> {
        let (keys, blobs) = pools();
        (
            vec(prop_oneof![12 => rand_op(), 1 => Just(Op::TmpElsewhere)], 0..3),
            vec((rand_op(), crate::gen::fl()), 2..4),
            prop_oneof![
                3 => (0u8..3, vec((0u16..80, 0u8..2), 0..5), prop::bool::weighted(0.25)).prop_map(|(first, mut sw, aged)| {
                    sw.sort();
                    sw.dedup_by_key(|x| x.0);
                    Mode::Scheduled { first, switches: sw, aged }
                }),
                2 => (1u8..4).prop_map(|rounds| Mode::Stress { rounds }),
                1 => Just(Mode::Joined),
            ],
        )
            .prop_map(move |(init, ops, mode)| {
                let scheduled = matches!(mode, Mode::Scheduled { .. });
                Case {
                    keys: keys.clone(),
                    blobs: blobs.clone(),
                    init: init.into_iter().filter(|o| matches!(o, Op::Write(_) | Op::Remove { .. } | Op::TmpElsewhere)).map(|op| Step { op, fl: Fl::Sync }).collect(),
                    ops: ops.into_iter().map(|(op, fl)| Step { op, fl: if scheduled { Fl::Sync } else if matches!(mode, Mode::Joined) { Fl::Async } else { fl } }).collect(),
                    mode,
                    procs: vec![],
                }
            })
            .boxed()
    }
    fn max_shrink_iters(&self) -> u32 {
        400
    }
    fn run_case(&self, c: &Case, st: &mut Stats, env: &mut WorkerEnv) -> Result<(), String> {
        let rounds = match &c.mode {
            Mode::Stress { rounds } => *rounds as usize,
            _ => 1,
        };
        for _round in 0..rounds {
            env.scratch.reset();
            let ctx = Ctx::new(env.scratch.cache.clone(), env.scratch.scratch.clone(), &c.keys, &c.blobs);
            let mut m0 = Model::new();
            let mut init_outs: Vec<(Out, u128, u128)> = Vec::new();
            for (i, s) in c.init.iter().enumerate() {
                let r = run_step(&ctx, s);
                m0.step(&ctx, s, &r.out, r.t0, r.t1).map_err(|e| format!("initial state step {i}: {e}"))?;
                init_outs.push((r.out, r.t0, r.t1));
            }
            let prog = Program { keys: c.keys.clone(), blobs: c.blobs.clone(), steps: c.ops.clone() };
            let mut addrs = basic::addr_universe(&prog);
            for ad in basic::addr_universe(&Program { keys: c.keys.clone(), blobs: c.blobs.clone(), steps: c.init.clone() }) {
                if !addrs.contains(&ad) {
                    addrs.push(ad);
                }
            }
            let n = c.ops.len();
            let mut outs: Vec<Option<(Out, u128, u128)>> = vec![None; n];
            let mut preempted_inside = false;
            let mut trace: Vec<String> = Vec::new();
            let mut before: Vec<(usize, usize)> = Vec::new();
            match &c.mode {
                Mode::Joined => {
                    for (i, r) in crate::exec::run_steps_joined(&ctx, &c.ops).into_iter().enumerate() {
                        outs[i] = Some((r.out, r.t0, r.t1));
                    }
                }
                Mode::Scheduled { first, switches, aged } => {
                    let prog_file = env.scratch.root.join("prog.json");
                    std::fs::write(&prog_file, serde_json::to_string(&prog).unwrap()).map_err(|e| format!("INFRA: {e}"))?;
                    let mut cmds = Vec::new();
                    let mut out_files = Vec::new();
                    // process p runs the operations ranges[p].0 .. ranges[p].1
                    let ranges: Vec<(usize, usize)> = if c.procs.len() == n {
                        let mut v: Vec<(usize, usize)> = Vec::new();
                        for i in 0..n {
                            match v.last_mut() {
                                Some(last) if i > 0 && c.procs[i] == c.procs[i - 1] => last.1 = i + 1,
                                _ => v.push((i, i + 1)),
                            }
                        }
                        v
                    } else {
                        (0..n).map(|i| (i, i + 1)).collect()
                    };
                    for (p, &(from, to)) in ranges.iter().enumerate() {
                        let of = env.scratch.root.join(format!("out_{p}.jsonl"));
                        let _ = std::fs::remove_file(&of);
                        cmds.push(driver_cmd(&env.scratch.cache, &env.scratch.scratch, &prog_file, from, to, &of));
                        out_files.push(of);
                        for x in from..to {
                            for y in x + 1..to {
                                before.push((x, y));
                            }
                        }
                    }
                    let n = ranges.len();
                    let nops = c.ops.len();
                    let mut op_begin: Vec<Option<u64>> = vec![None; nops];
                    let mut op_end: Vec<Option<u64>> = vec![None; nops];
                    let mut evseq: u64 = 0;
                    let mut sup = Sup::spawn(true, 120, &cmds, None).map_err(|e| format!("INFRA: cannot start ptsup: {e}"))?;
                    // held[cid] = Some(tid) when the subject waits at a gate
                    let mut held: Vec<Option<i64>> = vec![None; n];
                    let mut alive = vec![true; n];
                    let mut started = vec![false; n];
                    let mut current: Option<usize> = None;
                    let mut qpos: u16 = 0;
                    loop {
                        evseq += 1;
                        match sup.next() {
                            Ev::Marker { begin, n: opi, .. } => {
                                if opi < nops {
                                    if begin {
                                        op_begin[opi].get_or_insert(evseq);
                                    } else {
                                        op_end[opi] = Some(evseq);
                                    }
                                }
                            }
                            Ev::Gate(g) => {
                                held[g.cid] = Some(g.tid);
                                started[g.cid] = true;
                                if trace.len() < 400 {
                                    trace.push(format!("p{} {}", g.cid, g.name));
                                }
                                sup.reply("H");
                            }
                            Ev::Quiescent => {
                                let ready: Vec<usize> = (0..n).filter(|&i| held[i].is_some() && alive[i]).collect();
                                if ready.is_empty() {
                                    sup.reply("A");
                                    continue;
                                }
                                // default: keep running the current process; otherwise the next in
                                // cyclic order after `first`
                                let mut choice = match current {
                                    Some(cur) if ready.contains(&cur) => cur,
                                    _ => {
                                        let f = (*first as usize) % n;
                                        *(0..n).map(|d| (f + d) % n).collect::<Vec<_>>().iter().find(|i| ready.contains(i)).unwrap()
                                    }
                                };
                                if let Some((_, who)) = switches.iter().find(|(p, _)| *p == qpos) {
                                    let others: Vec<usize> = ready.iter().cloned().filter(|&i| i != choice).collect();
                                    if !others.is_empty() {
                                        let to = others[*who as usize % others.len()];
                                        if current == Some(choice) && started[choice] {
                                            preempted_inside = true;
                                        }
                                        choice = to;
                                        if *aged {
                                            run_step(&ctx, &Step { op: Op::AgeCache { days: 2 }, fl: Fl::Sync });
                                        }
                                    }
                                }
                                qpos = qpos.saturating_add(1);
                                current = Some(choice);
                                let tid = held[choice].take().unwrap();
                                sup.reply(&format!("R {tid}"));
                            }
                            Ev::Exit { cid, status } => {
                                alive[cid] = false;
                                held[cid] = None;
                                if status != "e0" {
                                    return Err(format!("process {cid} (operations {:?}) ended abnormally: {status}", ranges.get(cid)));
                                }
                            }
                            Ev::Ret { .. } => {}
                            Ev::Done => break,
                            Ev::Fatal(m) => {
                                if m.contains("timeout") {
                                    return Err(format!("the concurrent operations did not finish (supervisor timeout); trace: {}", trace.join(" ")));
                                }
                                return Err(format!("INFRA: supervisor: {m}"));
                            }
                        }
                    }
                    let _ = sup.finish();
                    for (p, &(from, to)) in ranges.iter().enumerate() {
                        let o = read_outs(&out_files[p])?;
                        if o.len() != to - from {
                            return Err(format!("INFRA: process {p} produced {} results for {} operations", o.len(), to - from));
                        }
                        for (i, out, t0, t1) in o {
                            if i < nops {
                                outs[i] = Some((out, t0, t1));
                            }
                        }
                    }
                    // real time: x had returned before y began
                    for x in 0..nops {
                        for y in 0..nops {
                            if let (Some(e), Some(b)) = (op_end[x], op_begin[y]) {
                                if x != y && e < b && !before.contains(&(x, y)) {
                                    before.push((x, y));
                                }
                            }
                        }
                    }
                    if before.iter().any(|&(x, y)| ranges.iter().all(|&(f, t)| !(f <= x && x < t && f <= y && y < t))) {
                        st.class("an_operation_began_after_another_process_s_had_returned");
                    }
                }
                Mode::Stress { .. } => {
                    let barrier = std::sync::Barrier::new(n);
                    let results: Vec<(Out, u128, u128)> = std::thread::scope(|sc| {
                        let hs: Vec<_> = c
                            .ops
                            .iter()
                            .map(|s| {
                                let b = &barrier;
                                let cache = env.scratch.cache.clone();
                                let scratch = env.scratch.scratch.clone();
                                let keys = &c.keys;
                                let blobs = &c.blobs;
                                sc.spawn(move || {
                                    crate::exec::mark_worker_thread();
                                    let ctx = Ctx::new(cache, scratch, keys, blobs);
                                    if let Op::Write(w) = &s.op {
                                        let _ = ctx.blob(w.blob);
                                    }
                                    b.wait();
                                    let r = run_step(&ctx, s);
                                    (r.out, r.t0, r.t1)
                                })
                            })
                            .collect();
                        hs.into_iter().map(|h| h.join().unwrap_or((Out::Panic("thread died".into()), 0, 0))).collect()
                    });
                    for (i, r) in results.into_iter().enumerate() {
                        outs[i] = Some(r);
                    }
                }
            }
            let outs: Vec<(Out, u128, u128)> = outs.into_iter().map(|o| o.unwrap()).collect();
            for (i, (o, _, _)) in outs.iter().enumerate() {
                if o.is_panic() {
                    return Err(format!("operation {i} {:?}: {}", c.ops[i].op.name(), o.short()));
                }
            }
            crate::rt::quiesce();
            let finals = final_observations(&ctx, &addrs);
            st.eval(1 + finals.len() as u64);
            let obs = Observed { outs, finals };
            let describe = || {
                format!(
                    "ops {:?} with results {:?}; schedule {:?}; system-call interleaving: {}",
                    c.ops.iter().map(|s| format!("{:?}", s.op)).collect::<Vec<_>>(),
                    obs.outs.iter().map(|o| o.0.short()).collect::<Vec<_>>(),
                    c.mode,
                    trace.join(" ")
                )
            };
            match serialisable(&ctx, &m0, &c.ops, &obs, &before) {
                Ok(_) => {}
                Err(why) => return Err(format!("no serial order explains the outcome — {} — tried: {why}", describe())),
            }
            splice_check(&ctx, &c.init, &init_outs, &c.ops, &obs.outs).map_err(|e| format!("{e} — {}", describe()))?;
            basic::content_invariant(&ctx, &Model::new(), false).map_err(|e| format!("{e} — {}", describe()))?;
            let nt = match &c.mode {
                Mode::Scheduled { .. } => preempted_inside,
                Mode::Stress { .. } | Mode::Joined => n >= 2,
            };
            st.class(match &c.mode {
                Mode::Scheduled { .. } => "scheduled_run",
                Mode::Stress { .. } => "stress_run",
                Mode::Joined => "futures_joined_in_one_task",
            });
            if matches!(c.mode, Mode::Scheduled { aged: true, .. }) && preempted_inside {
                st.class("cache_aged_at_the_preemption");
            }
            if preempted_inside {
                st.class("preempted_inside_an_operation");
            }
            if nt {
                st.class("nontrivial");
                st.nontrivial(hash_of(c));
            }
        }
        st.sample(|| serde_json::json!({"init": c.init.iter().map(|s| format!("{:?}", s.op)).collect::<Vec<_>>(), "ops": c.ops.iter().map(|s| format!("{:?}/{:?}", s.op, s.fl)).collect::<Vec<_>>(), "mode": c.mode}));
        Ok(())
    }
    fn health(&self, st: &Stats, _tier: Tier) -> Result<(), String> {
        let p = *st.classes.get("preempted_inside_an_operation").unwrap_or(&0);
        if st.cases >= 200 && p * 10 < st.cases {
            return Err(format!("only {p} of {} runs preempt inside an operation", st.cases));
        }
        Ok(())
    }
}
