//! C15 — effects stay inside the cache directory; keys are opaque; reads do not mutate.

use super::basic::{self, OpMix, ProgCfg};
use super::{hash_of, Engine, Stats, Tier, WorkerEnv};
use crate::exec::{run_step, sha256_hex, Ctx};
use crate::gen::{self, SizeMix, WriteMix};
use crate::model::Model;
use crate::ops::*;
use crate::ptrun::{Decision, GateRec};
use crate::reffmt;
use crate::sup::{driver_cmd, normalise, read_outs, Ev, Sup};
use proptest::prelude::*;
use std::collections::BTreeMap;
use std::os::unix::fs::MetadataExt;
use std::path::{Path, PathBuf};

pub struct C15;

fn cfg(tier: Tier) -> ProgCfg {
    ProgCfg {
        mix: OpMix {
            write: 12,
            read: 3,
            read_hash: 2,
            stream: 2,
            meta: 3,
            exists: 2,
            list: 2,
            extract: 3,
            remove: 2,
            remove_hash: 1,
            remove_fully: 1,
            clear: 1,
            idx_insert: 1,
            idx_find: 1,
            idx_delete: 1,
            link_to: 2,
            abandon: 1,
            ..OpMix::NONE
        },
        wmix: WriteMix { bad_decls: true, meta: true, by_hash: true, rich_matching: false, interfere: false },
        sizes: SizeMix::Normal,
        keys: (2, 6),
        blobs: (1, 3),
        max_steps: tier.pick(14, 24),
    }
}

/// Programs whose key pool comes from the hostile / confusable set.
fn hostile_program(tier: Tier) -> BoxedStrategy<Program> {
    let hk = gen::hostile_keys();
    let n = hk.len();
    (basic::program(cfg(tier)), proptest::collection::vec(0..n, 6), any::<bool>())
        .prop_map(move |(mut p, picks, all)| {
            for (i, k) in p.keys.iter_mut().enumerate() {
                if all || i % 2 == 0 {
                    let cand = hk[picks[i % picks.len()]].clone();
                    *k = cand;
                }
            }
            // keep keys distinct
            let mut seen: Vec<String> = Vec::new();
            for k in p.keys.iter_mut() {
                while seen.contains(k) {
                    k.push('~');
                }
                seen.push(k.clone());
            }
            p
        })
        .boxed()
}

type Snap = BTreeMap<String, (u64, i64, i64, String)>;

fn snapshot(root: &Path, exclude: &[&Path]) -> Snap {
    fn rec(base: &Path, dir: &Path, exclude: &[&Path], out: &mut Snap) {
        let rd = match std::fs::read_dir(dir) {
            Ok(r) => r,
            Err(_) => return,
        };
        for e in rd.flatten() {
            let p = e.path();
            if exclude.iter().any(|x| p == **x) {
                continue;
            }
            let md = match std::fs::symlink_metadata(&p) {
                Ok(m) => m,
                Err(_) => continue,
            };
            let rel = p.strip_prefix(base).unwrap().to_string_lossy().to_string();
            if md.is_dir() {
                out.insert(rel + "/", (0, md.mtime(), md.mtime_nsec(), format!("mode={:o} uid={}", md.mode(), md.uid())));
                rec(base, &p, exclude, out);
            } else if md.file_type().is_symlink() {
                let t = std::fs::read_link(&p).map(|t| t.to_string_lossy().to_string()).unwrap_or_default();
                out.insert(rel, (md.len(), md.mtime(), md.mtime_nsec(), format!("-> {t} uid={}", md.uid())));
            } else {
                // content hashes for files up to 64 KiB; larger ones are covered by size + mtime
                let h = if md.len() <= 65536 { std::fs::read(&p).map(|b| sha256_hex(&b)).unwrap_or_default() } else { String::from("(large)") };
                out.insert(rel, (md.len(), md.mtime(), md.mtime_nsec(), format!("{h} mode={:o} uid={}", md.mode(), md.uid())));
            }
        }
    }
    let mut out = Snap::new();
    rec(root, root, exclude, &mut out);
    out
}

/// Back-dates every regular file under `dir` (a cache that has aged).
fn age_files(dir: &Path, to: std::time::SystemTime) {
    if let Ok(rd) = std::fs::read_dir(dir) {
        for e in rd.flatten() {
            let p = e.path();
            match std::fs::symlink_metadata(&p) {
                Ok(m) if m.is_dir() => age_files(&p, to),
                Ok(m) if m.is_file() => {
                    if let Ok(f) = std::fs::OpenOptions::new().write(true).open(&p) {
                        let _ = f.set_modified(to);
                    }
                }
                _ => {}
            }
        }
    }
}

fn snap_diff(a: &Snap, b: &Snap) -> Option<String> {
    for (k, v) in a {
        match b.get(k) {
            None => return Some(format!("{k} disappeared")),
            Some(w) if w != v => return Some(format!("{k} changed: {v:?} -> {w:?}")),
            _ => {}
        }
    }
    for k in b.keys() {
        if !a.contains_key(k) {
            return Some(format!("{k} appeared"));
        }
    }
    None
}

/// `dest_<n>`, or the 255-byte `dest_<n>_nnn...` of a long-named destination.
fn dest_name(n: &str) -> bool {
    let Some(rest) = n.strip_prefix("dest_") else { return false };
    let digits = rest.bytes().take_while(|b| b.is_ascii_digit()).count();
    let tail = &rest[digits..];
    digits > 0 && (tail.is_empty() || (n.len() == 255 && tail.starts_with('_') && tail[1..].bytes().all(|b| b == b'n')))
}

fn is_read_only(op: &Op) -> bool {
    matches!(op, Op::Read { .. } | Op::ReadHash { .. } | Op::Stream { .. } | Op::Meta { .. } | Op::Exists { .. } | Op::List | Op::IdxFind { .. } | Op::IdxLs)
}

fn step_keys(op: &Op) -> Vec<usize> {
    match op {
        Op::Write(w) | Op::Abandon { spec: w, .. } => w.key.into_iter().collect(),
        Op::LinkTo(l) => l.key.into_iter().collect(),
        Op::Remove { key } | Op::RemoveOpts { key, .. } | Op::IdxInsert { key, .. } | Op::IdxDelete { key } => vec![*key],
        _ => vec![],
    }
}

fn hostile(k: &str) -> bool {
    !k.chars().all(|c| c.is_ascii_alphanumeric() || c == '-' || c == '_')
}

impl Engine for C15 {
    type Case = Program;
    fn id(&self) -> &'static str {
        "C15"
    }
    fn rule(&self) -> String {
        "programs over the full API (writes with all options, reads, streams, extraction, link_to, removals incl. full removal and clear, raw index calls, abandoned writers) \
         whose keys come from a hostile / confusable pool (path separators, '..', absolute paths, NUL, controls, case / NFC-NFD / ligature pairs, very long) and random Unicode; \
         the cache lives inside a sandbox directory next to sentinel files and decoy 'index-v5' / 'content-v2' / 'tmp' siblings, the sandbox is the working directory and TMPDIR \
         points at an empty sentinel directory. Executed twice: (A) in process against the reference model — every key is an independent entry, confusable keys never alias; (B) in \
         a driver process under the ptrace supervisor, all threads, mutating-call gates. Oracles: (a) containment — every path of every mutating system call, resolved against \
         dirfd/cwd and normalised, lies under the cache root or is the destination given to an extraction step; (b) outside snapshot — names, sizes, mtimes, modes, owners and hashes of \
         everything in the sandbox outside the cache root and of the TMPDIR sentinel are unchanged; (c) opacity — the only index path a keyed step touches is the reference \
         bucket path of its key (and its ancestors); (d) read-only — reads, streams, metadata, exists, listing issue zero mutating calls and leave the cache tree byte- and \
         mtime-identical; in run (A) the cache directory is given under one of eight spellings (trailing slash, symlink, dot segments, non-ASCII and non-UTF-8 \
         names, `..` right after a symlink) and everything next to it must be unchanged at the end, and before half of the read-only calls every file in the cache \
         is back-dated by 11 days to 22 years (an aged cache). Non-trivial = a mutating step with a hostile key, or a read-only step on a non-empty cache; distinct = distinct program"
            .into()
    }
    fn assumptions(&self) -> Vec<String> {
        vec![
            "the supervisor's list of mutating system calls (cross-checked by the outside snapshot, which does not depend on it)".into(),
            "reads of link targets and extraction destinations are caller-designated paths and therefore allowed outside the cache".into(),
        ]
    }
    fn random_cases(&self, tier: Tier) -> u32 {
        tier.pick(800, 8000)
    }
    fn strategy(&self, tier: Tier) -> BoxedStrategy<Program> {
        hostile_program(tier)
    }
    fn exhaustive(&self, _tier: Tier) -> Vec<Program> {
        // every hostile key once: write (both flavours), lookup, remove, re-write, full removal
        let mut out = Vec::new();
        // large entries through every extraction entry point (implementations may treat sizes
        // differently; the destination is the only path outside the cache that may be touched)
        for len in [300_000usize, (1 << 20) + 1] {
            let keys = vec!["big".to_string(), "dir/../big".to_string()];
            let blobs = vec![crate::blob::Blob::new(len, 5), crate::blob::Blob::new(7, 6)];
            let mut steps = vec![Step { op: Op::Write(WriteSpec::simple(Some(0), 0)), fl: Fl::Async }, Step { op: Op::Write(WriteSpec::simple(Some(1), 0)), fl: Fl::Sync }];
            let a = AddrRef { algo: crate::blob::Algo::Sha256, blob: 0 };
            for fl in [Fl::Sync, Fl::Async] {
                for kind in [XKind::Copy, XKind::HardLink, XKind::Reflink] {
                    for checked in [true, false] {
                        for by in [By::Key(0), By::Addr(a)] {
                            for dest in [Dest::Absent, Dest::Existing] {
                                steps.push(Step { op: Op::Extract { kind, checked, by, dest }, fl });
                            }
                        }
                    }
                }
                steps.push(Step { op: Op::Read { key: 1 }, fl });
                steps.push(Step { op: Op::Stream { by: By::Key(0), bufs: vec![70000] }, fl });
            }
            out.push(Program { keys, blobs, steps });
        }
        // a long history on one key, then every read-only call: whatever housekeeping an
        // implementation does on big buckets, it does not do it from a read
        for variant in 0..2usize {
            let keys = vec!["long-history".to_string(), "quiet".to_string()];
            let blobs = vec![crate::blob::Blob::new(9, 1), crate::blob::Blob::new(12, 2)];
            let mut steps = vec![Step { op: Op::Write(WriteSpec::simple(Some(1), 1)), fl: Fl::Sync }];
            for i in 0..(300 + variant * 300) {
                let op = if i % 3 == 2 { Op::Remove { key: 0 } } else { Op::Write(WriteSpec::simple(Some(0), i % 2)) };
                steps.push(Step { op, fl: if (i / 5 + variant) % 2 == 0 { Fl::Sync } else { Fl::Async } });
            }
            let a = AddrRef { algo: crate::blob::Algo::Sha256, blob: 0 };
            for fl in [Fl::Sync, Fl::Async] {
                for op in [Op::Meta { key: 0 }, Op::Read { key: 0 }, Op::Stream { by: By::Key(0), bufs: vec![5] }, Op::Exists { addr: a }, Op::ReadHash { addr: a }, Op::IdxFind { key: 0 }, Op::List, Op::IdxLs, Op::Meta { key: 1 }] {
                    steps.push(Step { op, fl });
                }
            }
            out.push(Program { keys, blobs, steps });
        }
        // a linked file is deleted by its owner, then a different file with the same bytes is
        // linked: the address is occupied by a dangling link; nothing outside the cache is written
        for fl in [Fl::Sync, Fl::Async] {
            for oneshot in [true, false] {
                let keys = vec!["first-link".to_string(), "second-link".to_string()];
                let blobs = vec![crate::blob::Blob::new(700, 3), crate::blob::Blob::new(12, 4)];
                let link = |key: usize, target: usize| {
                    Op::LinkTo(LinkSpec { key: Some(key), blob: 0, target, relative: false, algo: crate::blob::Algo::Sha256, oneshot, pre_reads: vec![], declare: Declare::Exact, integ: IntegDecl::None, dotdot_via_symlink: false, vectored_reads: false })
                };
                let steps = vec![
                    Step { op: link(0, 0), fl },
                    Step { op: Op::RemoveTarget { target: 0 }, fl: Fl::Sync },
                    // read-only calls on an entry whose link dangles: they leave it as it is
                    Step { op: Op::Exists { addr: AddrRef { algo: crate::blob::Algo::Sha256, blob: 0 } }, fl },
                    Step { op: Op::ReadHash { addr: AddrRef { algo: crate::blob::Algo::Sha256, blob: 0 } }, fl },
                    Step { op: Op::Meta { key: 0 }, fl },
                    Step { op: Op::Read { key: 0 }, fl },
                    Step { op: Op::List, fl: Fl::Sync },
                    Step { op: link(1, 1), fl },
                    Step { op: Op::Read { key: 0 }, fl },
                    Step { op: Op::Read { key: 1 }, fl },
                    Step { op: Op::RemoveTarget { target: 1 }, fl: Fl::Sync },
                    Step { op: link(0, 2), fl },
                ];
                out.push(Program { keys, blobs, steps });
            }
        }
        let hk = gen::hostile_keys();
        for (i, pair) in hk.chunks(2).enumerate() {
            let keys: Vec<String> = pair.to_vec();
            let blobs = vec![crate::blob::Blob::new(9, i as u64), crate::blob::Blob::new(12, 100 + i as u64)];
            let mut steps = Vec::new();
            for k in 0..keys.len() {
                let fl = if (i + k) % 2 == 0 { Fl::Sync } else { Fl::Async };
                let other = if fl == Fl::Sync { Fl::Async } else { Fl::Sync };
                let mut w = WriteSpec::simple(Some(k), k);
                if i % 2 == 0 {
                    w.entry = WEntry::Opts;
                    w.metadata = Some(serde_json::json!({"i": i}));
                    w.chunks = vec![2];
                }
                steps.push(Step { op: Op::Write(w), fl });
                steps.push(Step { op: Op::Meta { key: k }, fl: other });
                steps.push(Step { op: Op::Read { key: k }, fl });
                steps.push(Step { op: Op::List, fl: Fl::Sync });
                steps.push(Step { op: Op::Remove { key: k }, fl: other });
                steps.push(Step { op: Op::Write(WriteSpec::simple(Some(k), 1 - k)), fl: other });
                steps.push(Step { op: Op::Extract { kind: XKind::Copy, checked: true, by: By::Key(k), dest: Dest::Absent }, fl });
                steps.push(Step { op: Op::Extract { kind: XKind::Copy, checked: i % 2 == 0, by: By::Key(k), dest: Dest::Directory }, fl });
                steps.push(Step { op: Op::Extract { kind: XKind::HardLink, checked: true, by: By::Key(k), dest: Dest::Directory }, fl: other });
            }
            steps.push(Step { op: Op::RemoveOpts { key: 0, fully: true }, fl: if i % 2 == 0 { Fl::Sync } else { Fl::Async } });
            out.push(Program { keys, blobs, steps });
        }
        out
    }
    fn exhaustive_note(&self, _tier: Tier) -> String {
        "every key of the hostile pool once (fixed family): write, lookup, read, list, remove, re-write, extract, full removal; large entries through every extraction entry point; histories of 300 / 600 records on one key followed by every read-only call".into()
    }
    fn max_shrink_iters(&self) -> u32 {
        200
    }
    fn run_case(&self, prog: &Program, st: &mut Stats, env: &mut WorkerEnv) -> Result<(), String> {
        // ---------- (A) in process, against the model: keys are independent entries ----------
        env.scratch.reset();
        {
            // the cache directory under one of its spellings (symlinks, dot segments, `..` after
            // a symlink, non-UTF-8): whatever the spelling, nothing next to the cache changes
            let _ = std::fs::remove_dir_all(env.scratch.root.join("alias_sub"));
            let sel = super::hash_of(prog) >> 3;
            let alias = env.scratch.cache_alias(sel);
            if alias != env.scratch.cache {
                st.class("cache_path_spelled_differently");
            }
            let around_before = snapshot(&env.scratch.root, &[&env.scratch.cache, &env.scratch.scratch]);
            let ctx = Ctx::new(alias, env.scratch.scratch.clone(), &prog.keys, &prog.blobs);
            let mut model = Model::new();
            let addrs = basic::addr_universe(prog);
            for (i, s) in prog.steps.iter().enumerate() {
                let ro = is_read_only(&s.op);
                if ro && (sel >> 5) % 2 == 0 {
                    // an aged cache: every file in it was last modified long ago
                    let age = [11u64, 45, 400, 8000][((sel >> 6) as usize + i) % 4] * 86400;
                    age_files(&env.scratch.cache, std::time::SystemTime::now() - std::time::Duration::from_secs(age));
                    st.class("read_only_call_on_aged_cache");
                }
                let before = if ro {
                    // background cleanup of earlier dropped async writers must have settled
                    crate::rt::quiesce();
                    let mut b = snapshot(&ctx.cache, &[]);
                    if prog.steps[..i].iter().any(|p| p.fl == Fl::Async) {
                        for _ in 0..400 {
                            std::thread::sleep(std::time::Duration::from_millis(2));
                            let b2 = snapshot(&ctx.cache, &[]);
                            let tmp_empty = std::fs::read_dir(ctx.cache.join("tmp")).map(|r| r.count() == 0).unwrap_or(true);
                            if b2 == b && tmp_empty {
                                break;
                            }
                            b = b2;
                        }
                    }
                    Some(b)
                } else {
                    None
                };
                let r = run_step(&ctx, s);
                st.eval(1);
                model.step(&ctx, s, &r.out, r.t0, r.t1).map_err(|e| format!("(in-process run) {}: {e}", basic::describe_step(prog, i)))?;
                if let Some(b) = before {
                    // (d) the tree is byte- and mtime-identical across a read-only call
                    crate::rt::quiesce();
                    let a = snapshot(&ctx.cache, &[]);
                    st.eval(1);
                    if let Some(d) = snap_diff(&b, &a) {
                        return Err(format!("read-only call {} changed the cache directory: {d}", basic::describe_step(prog, i)));
                    }
                }
            }
            basic::sweep_keys(&ctx, &mut model, st, true, 0).map_err(|e| format!("(in-process run) at the end: {e}"))?;
            basic::sweep_addrs(&ctx, &mut model, st, &addrs, 0).map_err(|e| format!("(in-process run) at the end: {e}"))?;
            basic::sweep_list(&ctx, &mut model, st).map_err(|e| format!("(in-process run) at the end: {e}"))?;
            crate::rt::quiesce();
            let around_after = snapshot(&env.scratch.root, &[&env.scratch.cache, &env.scratch.scratch]);
            st.eval(1);
            if let Some(d) = snap_diff(&around_before, &around_after) {
                return Err(format!("(in-process run, cache given as {}) something next to the cache directory changed: {d}", ctx.cache.display()));
            }
        }
        // ---------- (B) traced run inside a sandbox ----------
        env.scratch.reset();
        let sandbox = env.scratch.root.join("sandbox");
        let _ = std::fs::remove_dir_all(&sandbox);
        let cache = sandbox.join("the-cache");
        let work = sandbox.join("work");
        let systmp = sandbox.join("systmp");
        for d in [&cache, &work, &systmp, &sandbox.join("index-v5/aa"), &sandbox.join("content-v2/sha256"), &sandbox.join("tmp"), &sandbox.join("the-cache-sibling")] {
            std::fs::create_dir_all(d).map_err(|e| format!("INFRA: {e}"))?;
        }
        for (f, body) in [("sentinel.txt", "do not touch"), ("index-v5/aa/decoy", "decoy"), ("the-cache-sibling/x", "x"), ("x", "x-in-sandbox")] {
            std::fs::write(sandbox.join(f), body).map_err(|e| format!("INFRA: {e}"))?;
        }
        let prog_file = env.scratch.root.join("prog.json");
        std::fs::write(&prog_file, serde_json::to_string(prog).unwrap()).map_err(|e| format!("INFRA: {e}"))?;
        let out_file = env.scratch.root.join("driver_out.jsonl");
        let _ = std::fs::remove_file(&out_file);
        let outside_before = snapshot(&sandbox, &[&cache, &work]);
        let cmd = driver_cmd(&cache, &work, &prog_file, 0, prog.steps.len(), &out_file);
        // TMPDIR sentinel
        let mut full = vec!["env".to_string(), format!("TMPDIR={}", systmp.display())];
        full.extend(cmd);
        let mut sup = Sup::spawn(false, 120, &[full], Some(&sandbox)).map_err(|e| format!("INFRA: cannot start ptsup: {e}"))?;
        let mut gates: Vec<GateRec> = Vec::new();
        let mut cur = 0usize;
        let mut status = String::new();
        loop {
            match sup.next() {
                Ev::Marker { begin, n, .. } => {
                    if begin {
                        cur = n;
                    }
                }
                Ev::Gate(g) => {
                    sup.reply("C");
                    gates.push(GateRec { gate: g, ret: None, decision: Decision::Continue, step: cur });
                }
                Ev::Ret { .. } => {}
                Ev::Quiescent => sup.reply("A"),
                Ev::Exit { status: s, .. } => status = s,
                Ev::Done => break,
                Ev::Fatal(m) => return Err(format!("INFRA: supervisor: {m}")),
            }
        }
        let _ = sup.finish();
        if status != "e0" {
            return Err(format!("the driver process ended abnormally: {status}"));
        }
        let outs = read_outs(&out_file)?;
        for (i, o, _, _) in &outs {
            if o.is_panic() {
                return Err(format!("{} : {}", basic::describe_step(prog, *i), o.short()));
            }
        }
        let cache_c = std::fs::canonicalize(&cache).unwrap_or(cache.clone());
        let work_c = std::fs::canonicalize(&work).unwrap_or(work.clone());
        let under = |p: &Path, root: &Path| p == root || p.starts_with(root);
        let mut nontrivial = false;
        // temp files are private to the writer that created them: later calls on them (the
        // background unlink of a dropped async writer, for instance) belong to the creating step
        let tmp_root = cache_c.join("tmp");
        let mut tmp_owner: std::collections::HashMap<PathBuf, usize> = Default::default();
        for g in &gates {
            if g.gate.name.starts_with("open") {
                for p in g.gate.paths() {
                    if p.starts_with(&tmp_root) {
                        tmp_owner.entry(p).or_insert(g.step);
                    }
                }
            }
        }
        for g in &gates {
            let mut owner = g.step;
            let ps = g.gate.paths();
            if let Some(p0) = ps.iter().find(|p| p.starts_with(&tmp_root)) {
                if let Some(o) = tmp_owner.get(p0) {
                    owner = *o;
                }
            }
            let g = &GateRec { gate: g.gate.clone(), ret: g.ret, decision: g.decision.clone(), step: owner };
            let step = &prog.steps[g.step.min(prog.steps.len() - 1)];
            st.eval(1);
            // (d) read-only calls perform no filesystem mutation at all
            if is_read_only(&step.op) {
                return Err(format!("read-only call {} issued a mutating system call: {}", basic::describe_step(prog, g.step), g.gate.short()));
            }
            let is_extract = matches!(step.op, Op::Extract { .. });
            for p in g.gate.paths() {
                let p = normalise(&p);
                // (a) containment
                // destinations on the other filesystem live under <root>/cvh-x.<pid of the driver>/<tag>/
                let on_xfs = { let t = p.to_string_lossy(); t.starts_with("/var/tmp/cvh-x.") || t.starts_with("/dev/shm/cvh-x.") };
                let ok = under(&p, &cache_c) || under(&p, &cache) || (is_extract && on_xfs && p.file_name().map(|n| dest_name(&n.to_string_lossy())).unwrap_or(false)) || (is_extract && (under(&p, &work_c) || under(&p, &work)) && p.file_name().map(|n| dest_name(&n.to_string_lossy())).unwrap_or(false));
                if !ok {
                    return Err(format!(
                        "{} touched {} outside the cache directory {} ({})",
                        basic::describe_step(prog, g.step),
                        p.display(),
                        cache.display(),
                        g.gate.short()
                    ));
                }
                // (c) opacity: index paths only through the hash of the step's own key
                let idx_root = cache_c.join("index-v5");
                if under(&p, &idx_root) && p != idx_root && !matches!(step.op, Op::Clear) {
                    let allowed: Vec<PathBuf> = step_keys(&step.op).iter().map(|k| cache_c.join(reffmt::bucket_rel(&prog.keys[*k]))).collect();
                    let fine = allowed.iter().any(|b| b == &p || b.starts_with(&p));
                    if !fine {
                        return Err(format!(
                            "{} touched index path {} which is not the bucket of its key (expected {:?})",
                            basic::describe_step(prog, g.step),
                            p.display(),
                            allowed
                        ));
                    }
                }
            }
            if step_keys(&step.op).iter().any(|k| hostile(&prog.keys[*k])) {
                nontrivial = true;
            }
        }
        // (b) the world outside the cache root is untouched
        let outside_after = snapshot(&sandbox, &[&cache, &work]);
        st.eval(1);
        if let Some(d) = snap_diff(&outside_before, &outside_after) {
            return Err(format!("something outside the cache directory changed: {d}"));
        }
        // extraction destinations are the only thing allowed in the work directory
        if let Ok(rd) = std::fs::read_dir(&work) {
            for e in rd.flatten() {
                let n = e.file_name().to_string_lossy().to_string();
                if !(n.starts_with("dest_") || n.starts_with("target_") || n.starts_with("fodder_")) {
                    return Err(format!("unexpected file {n} appeared next to the extraction destinations"));
                }
            }
        }
        let mut had_content = false;
        for (s, (_, o, _, _)) in prog.steps.iter().zip(&outs) {
            if is_read_only(&s.op) && had_content {
                nontrivial = true;
                st.class("read_only_step_on_nonempty_cache");
            }
            if matches!(s.op, Op::Write(_)) && matches!(o, Out::Int(_)) {
                had_content = true;
            }
        }
        st.class_n("mutating_syscalls_checked", gates.len() as u64);
        if prog.keys.iter().any(|k| hostile(k)) {
            st.class("has_hostile_key");
        }
        if nontrivial {
            st.class("nontrivial");
            st.nontrivial(hash_of(prog));
        }
        st.sample(|| super::progeng::compact_program(prog));
        Ok(())
    }
    fn health(&self, st: &Stats, _tier: Tier) -> Result<(), String> {
        let nt = *st.classes.get("nontrivial").unwrap_or(&0);
        if st.cases >= 50 && nt * 2 < st.cases {
            return Err(format!("only {nt} of {} programs are non-trivial", st.cases));
        }
        Ok(())
    }
}
