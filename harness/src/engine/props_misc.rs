//! C14 (abandoned / rejected writes) as an instance of the program engine.

use super::basic::{OpMix, ProgCfg};
use super::progeng::*;
use super::{Stats, Tier};
use crate::exec::{Ctx, StepResult};
use crate::gen::{SizeMix, WriteMix};
use crate::model::Model;
use crate::blob::{Algo, Blob};
use crate::ops::*;

fn c14_cfg(tier: Tier) -> ProgCfg {
    ProgCfg {
        mix: OpMix { write: 8, abandon: 10, commit_dropped: 4, read: 1, meta: 1, remove: 1, two_writers: 1, ..OpMix::NONE },
        wmix: WriteMix { bad_decls: true, meta: true, by_hash: true, rich_matching: false, interfere: false },
        sizes: tier.pick(SizeMix::Normal, SizeMix::Boundary),
        keys: (1, 3),
        blobs: (1, 3),
        max_steps: tier.pick(8, 14),
    }
}

fn tmp_entries(ctx: &Ctx) -> Vec<String> {
    std::fs::read_dir(ctx.cache.join("tmp")).map(|r| r.flatten().map(|e| e.file_name().to_string_lossy().to_string()).collect()).unwrap_or_default()
}

/// Waits for background work of dropped writers, then demands an empty temp area.
fn tmp_must_drain(ctx: &Ctx) -> Result<(), String> {
    // tokio: joins the blocking pool (no clock). async-std: nothing to join — poll.
    crate::rt::quiesce();
    if tmp_entries(ctx).is_empty() {
        return Ok(());
    }
    let t0 = std::time::Instant::now();
    while t0.elapsed().as_millis() < 4000 {
        std::thread::sleep(std::time::Duration::from_millis(2));
        if tmp_entries(ctx).is_empty() {
            return Ok(());
        }
    }
    // a leaked file never goes away while a slow one does: two snapshots one second apart
    let a = tmp_entries(ctx);
    std::thread::sleep(std::time::Duration::from_millis(1000));
    let b = tmp_entries(ctx);
    let stuck: Vec<&String> = a.iter().filter(|x| b.contains(x)).collect();
    if !stuck.is_empty() {
        Err(format!("temporary files remain after every writer is gone and background work had 5 s to finish: {stuck:?}"))
    } else if b.is_empty() {
        Ok(())
    } else {
        Err("INFRA: the temp area is still changing after 5 s".into())
    }
}

/// Every directory and file under `index-v5` (files with their length); `None` = no such directory.
fn index_tree(ctx: &Ctx) -> Option<Vec<(String, u64)>> {
    fn rec(base: &std::path::Path, dir: &std::path::Path, out: &mut Vec<(String, u64)>) {
        if let Ok(rd) = std::fs::read_dir(dir) {
            for e in rd.flatten() {
                let p = e.path();
                let rel = p.strip_prefix(base).unwrap().to_string_lossy().to_string();
                match std::fs::symlink_metadata(&p) {
                    Ok(m) if m.is_dir() => {
                        out.push((rel + "/", 0));
                        rec(base, &p, out);
                    }
                    Ok(m) => out.push((rel, m.len())),
                    Err(_) => {}
                }
            }
        }
    }
    let root = ctx.cache.join("index-v5");
    if !root.is_dir() {
        return None;
    }
    let mut out = Vec::new();
    rec(&root, &root, &mut out);
    out.sort();
    Some(out)
}

thread_local! {
    /// (cache directory, index tree, raw listing) as they were after the previous step of the
    /// program this worker is running
    static C14_PREV: std::cell::RefCell<Option<(std::path::PathBuf, Option<Vec<(String, u64)>>, Out)>> = const { std::cell::RefCell::new(None) };
}

fn c14_after(ctx: &Ctx, prog: &Program, i: usize, r: &StepResult, _m: &Model, st: &mut Stats) -> Result<(), String> {
    // a writer that was dropped, a commit that was rejected, a write by address: the index area
    // (directories included) and the raw listing are exactly what they were before the step
    let tree = index_tree(ctx);
    let listing = crate::exec::run_step(ctx, &Step { op: Op::List, fl: Fl::Sync }).out;
    let leaves_index_alone = match &prog.steps[i].op {
        Op::Abandon { at: AbandonAt::CommitDropped(_) | AbandonAt::CancelThenCommit(_), .. } => false,
        Op::Abandon { .. } => true,
        Op::Write(w) => (r.out.is_err() && w.interfere == Interfere::None) || w.key.is_none(),
        _ => false,
    };
    let prev = C14_PREV.with(|p| p.borrow_mut().take());
    let prev = match prev {
        Some((dir, t, l)) if i > 0 && dir == ctx.cache => Some((t, l)),
        // the first step starts from an empty cache directory
        _ if i == 0 => Some((None, Out::List(vec![], 1))),
        _ => None,
    };
    if let (true, Some((t0, l0))) = (leaves_index_alone, prev) {
        st.eval(1);
        if t0 != tree {
            let before: std::collections::BTreeSet<_> = t0.clone().unwrap_or_default().into_iter().collect();
            let after: std::collections::BTreeSet<_> = tree.clone().unwrap_or_default().into_iter().collect();
            return Err(format!(
                "the index area changed although the step committed nothing under a key: index-v5 {} -> {}; appeared {:?}, gone {:?}",
                if t0.is_some() { "present" } else { "absent" },
                if tree.is_some() { "present" } else { "absent" },
                after.difference(&before).take(4).collect::<Vec<_>>(),
                before.difference(&after).take(4).collect::<Vec<_>>()
            ));
        }
        if l0 != listing {
            return Err(format!("the listing changed although the step committed nothing under a key: {} -> {}", l0.short(), listing.short()));
        }
    }
    C14_PREV.with(|p| *p.borrow_mut() = Some((ctx.cache.clone(), tree, listing)));
    // with only synchronous steps so far nothing runs in the background: the temp area
    // must be empty after every step
    if prog.steps[..=i].iter().all(|s| s.fl == Fl::Sync || s.op.is_harness_side()) {
        st.eval(1);
        let left = tmp_entries(ctx);
        if !left.is_empty() {
            return Err(format!("temporary files remain right after a synchronous writer was dropped / rejected: {left:?}"));
        }
    }
    Ok(())
}

fn c14_post(ctx: &Ctx, _t: &Trace, _m: &Model, st: &mut Stats) -> Result<(), String> {
    st.eval(1);
    tmp_must_drain(ctx)
}

fn c14_classify(t: &Trace, st: &mut Stats) -> bool {
    let mut nt = false;
    for (s, r) in t.prog.steps.iter().zip(&t.results) {
        match &s.op {
            Op::Abandon { spec, at } => {
                let len = t.prog.blobs[spec.blob].len;
                let nchunks = crate::exec::cut_chunks(&vec![0u8; len.min(1 << 16)], &spec.chunks).len();
                match at {
                    AbandonAt::AfterChunks(0) => st.class("abandon_right_after_creation"),
                    AbandonAt::AfterChunks(_) => {
                        st.class("abandon_after_chunks");
                        nt |= len > 0;
                    }
                    AbandonAt::MidFlight(n) => {
                        if s.fl == Fl::Async && *n < nchunks {
                            st.class("abandon_mid_flight");
                            nt = true;
                        } else {
                            st.class("abandon_after_chunks");
                            nt |= len > 0;
                        }
                    }
                    AbandonAt::AfterFlush => {
                        st.class("abandon_after_flush");
                        nt |= len > 0;
                    }
                    AbandonAt::CancelThenCommit(_) => st.class("cancelled_write_then_commit"),
                    AbandonAt::AfterShutdown => {
                        st.class("abandon_after_stream_shutdown");
                        nt |= len > 0;
                    }
                    AbandonAt::CommitDropped(_) => {
                        if s.fl == Fl::Async && matches!(r.out, Out::Unit) {
                            st.class("commit_cancelled_in_flight");
                            nt = true;
                        } else if s.fl == Fl::Async {
                            st.class("commit_completed_within_the_polls");
                        } else {
                            st.class("abandon_after_chunks");
                        }
                    }
                }
                if crate::exec::declared_size(spec.declare, len).map(|d| d <= crate::gen::MIB && d > 0).unwrap_or(false) && (spec.key.is_none() || s.fl == Fl::Sync) {
                    st.class("abandoned_writer_was_memory_mapped");
                }
            }
            Op::Write(_) => {
                if r.out.is_err() {
                    st.class("commit_rejected");
                    nt = true;
                } else {
                    st.class("commit_succeeded");
                }
            }
            _ => {}
        }
    }
    nt
}

/// A committed value, then rejected commits (size / integrity check) of values whose content
/// files would be its directory neighbours (same `<aa>`, same `<aa>/<bb>`): whatever a rejected
/// commit cleans up, the neighbours stay.
fn c14_grid(_tier: Tier) -> Vec<Program> {
    let mut out = Vec::new();
    for algo in [Algo::Sha256, Algo::Sha1] {
        let blobs = super::c09::neighbours(algo);
        let keys: Vec<String> = vec!["kept".into(), "rejected".into()];
        for fl in [Fl::Sync, Fl::Async] {
            for other in 1..blobs.len() {
                for (declare, integ) in [(Declare::Off(1), IntegDecl::None), (Declare::Off(-1), IntegDecl::None), (Declare::None, IntegDecl::WrongDigest), (Declare::Exact, IntegDecl::MultiAllWrong)] {
                    for keyed in [true, false] {
                        let mut w0 = WriteSpec::simple(Some(0), 0);
                        w0.entry = WEntry::OneShotAlgo;
                        w0.algo = algo;
                        let mut w = WriteSpec::simple(if keyed { Some(1) } else { None }, other);
                        w.entry = WEntry::Opts;
                        w.algo = algo;
                        w.chunks = vec![3];
                        w.declare = declare;
                        w.integ = integ;
                        let steps = vec![Step { op: Op::Write(w0), fl: Fl::Sync }, Step { op: Op::Write(w), fl }, Step { op: Op::Read { key: 0 }, fl }];
                        out.push(Program { keys: keys.clone(), blobs: blobs.clone(), steps });
                    }
                }
            }
        }
    }
    // many size-declared writers open at once (70: more than a small table of slots; 200: more
    // than a small pool): a writer created among them behaves like any other — here a short one
    // whose bytes are already stored (its rejected commit must not disturb the stored copy)
    for fl in [Fl::Sync, Fl::Async] {
        for crowd in [70u16, 200] {
            for declare in [Declare::Off(40), Declare::Exact, Declare::None] {
                let mut w = WriteSpec::simple(Some(0), 0);
                w.entry = WEntry::Opts;
                w.chunks = vec![7];
                w.declare = declare;
                w.crowd = crowd;
                out.push(Program {
                    keys: vec!["among-many".into(), "stored-before".into()],
                    blobs: vec![Blob::new(300, 1), Blob::new(33, 2)],
                    steps: vec![Step { op: Op::Write(WriteSpec::simple(Some(1), 0)), fl: Fl::Sync }, Step { op: Op::Write(w), fl }, Step { op: Op::Read { key: 1 }, fl }, Step { op: Op::Read { key: 0 }, fl }],
                });
            }
        }
    }
    // an async commit cancelled in flight (polled n times, then dropped) of bytes that an earlier
    // entry already holds / that nobody holds: whatever the cancelled commit's background work
    // does, the earlier entry keeps reading back; the key is the old or the new entry
    for (li, len) in [9usize, 300, 70_000, (1 << 20) + 5].into_iter().enumerate() {
        for polls in 1u8..=4 {
            for (di, declare) in [Declare::None, Declare::Exact].into_iter().enumerate() {
                for same_bytes in [true, false] {
                    let mut w = WriteSpec::simple(if (li + di) % 3 == 2 { None } else { Some(0) }, if same_bytes { 0 } else { 1 });
                    w.entry = WEntry::Opts;
                    w.chunks = vec![len / 2];
                    w.declare = declare;
                    w.algo = [Algo::Sha256, Algo::Sha1][(li + polls as usize) % 2];
                    let mut first = WriteSpec::simple(Some(1), 0);
                    first.entry = WEntry::OneShotAlgo;
                    first.algo = w.algo;
                    out.push(Program {
                        keys: vec!["cancelled-in-flight".into(), "stored-before".into()],
                        blobs: vec![Blob::new(len, 11), Blob::new(len + 1, 12)],
                        steps: vec![
                            Step { op: Op::Write(first), fl: Fl::Sync },
                            Step { op: Op::Abandon { spec: w, at: AbandonAt::CommitDropped(polls) }, fl: Fl::Async },
                            Step { op: Op::Read { key: 1 }, fl: Fl::Sync },
                            Step { op: Op::Meta { key: 0 }, fl: Fl::Async },
                        ],
                    });
                }
            }
        }
    }
    // a writer stays open while 70 000 others are created and dropped in the same process
    // (counters that wrap, tables that fill up): it commits as if nothing had happened
    for fl in [Fl::Sync, Fl::Async] {
        let mut w = WriteSpec::simple(Some(0), 0);
        w.entry = WEntry::Opts;
        w.chunks = vec![3];
        w.churn = 70_000;
        let mut other = WriteSpec::simple(Some(1), 1);
        other.entry = WEntry::Opts;
        other.chunks = vec![2];
        out.push(Program {
            keys: vec!["long-lived".into(), "later".into()],
            blobs: vec![Blob::new(40, 1), Blob::new(9, 2)],
            steps: vec![Step { op: Op::Write(w), fl }, Step { op: Op::Write(other), fl }, Step { op: Op::Read { key: 0 }, fl }, Step { op: Op::Read { key: 1 }, fl }],
        });
    }
    out
}

pub fn c14() -> ProgEngine {
    ProgEngine {
        id: "C14",
        rule: "programs interleaving successful keyed / by-address writes, commits rejected by the size or the integrity check, and writers abandoned right after \
               creation, after j chunks, mid-flight (async: the write future is polled once with a no-op waker and dropped while pending), after flush, or (async) while the commit itself is in flight (its future polled 1-4 times and dropped: the key shows the old or the new entry, content valid before stays) — sync and \
               async, memory-mapped and plain, all sizes; oracle: after EVERY step lookups of every key, the listing and every address equal the reference model (an \
               abandoned or rejected write changes nothing; data is reachable under a key only after a commit that returned Ok); an abandoned writer, a rejected commit and a write by address leave the index area (directories included) and the raw listing exactly as they were; the temp area is empty after every \
               step of a purely synchronous prefix and, at the end, after quiescence (tokio: the runtime is dropped, which joins its blocking pool; async-std: polled, \
               then two snapshots 1 s apart — an entry present in both is a leak). Non-trivial = >=1 byte accepted before abandonment, or mid-flight, or a rejected \
               commit; distinct = distinct program",
        assumptions: &[
            "background cleanup on async-std finishes within 5 s on this machine (a still-changing temp area is reported as inconclusive, exit 2, never as a violation)",
            "a rejected commit may or may not have published the content file under its address (content stays valid either way); the index is what must not change",
        ],
        cfg: c14_cfg,
        strategy: None,
        grid: c14_grid,
        grid_note: "a committed value followed by rejected commits of its directory neighbours",
        random: (2000, 40000),
        classify: c14_classify,
        sweep_every_step: true,
        deep_sweep: false,
        allow_symlinks: false,
        after_step: c14_after,
        post: c14_post,
        min_nontrivial_pct: 50,
    }
}


// ------------------------------------------------------------------------------------------
// C14 proper: the program engine above plus commits that fail because a filesystem call fails
// ("after a failed commit" in the property's quantifier): no temp file may remain then either.

use super::{hash_of, Engine, WorkerEnv};
use crate::ptrun::{run_supervised_opt, Decision, Paths};
use proptest::prelude::*;
use serde::{Deserialize, Serialize};

#[derive(Clone, Debug, Serialize, Deserialize)]
pub enum C14Case {
    Prog(Program),
    /// a single write whose `gate`-th mutating system call fails with `errno`
    FailedCommit { prog: Program, gate: usize, errno: i32 },
}

pub struct C14 {
    inner: ProgEngine,
}

pub fn c14_engine() -> C14 {
    C14 { inner: c14() }
}

fn failed_commit_shapes() -> Vec<Program> {
    let keys = vec!["fc".to_string()];
    let mut out = Vec::new();
    for fl in [Fl::Sync, Fl::Async] {
        for (entry, keyed, declare, len) in [
            (WEntry::OneShot, true, Declare::None, 30usize),
            (WEntry::OneShot, false, Declare::None, 30),
            (WEntry::Opts, true, Declare::Exact, 50),
            (WEntry::Opts, false, Declare::None, 9000),
            (WEntry::Create, true, Declare::None, 5),
        ] {
            let mut w = WriteSpec::simple(if keyed { Some(0) } else { None }, 0);
            w.entry = entry;
            w.declare = declare;
            w.chunks = if w.streamed() { vec![len / 2] } else { vec![] };
            out.push(Program { keys: keys.clone(), blobs: vec![crate::blob::Blob::new(len, 88)], steps: vec![Step { op: Op::Write(w), fl }] });
        }
    }
    out
}

impl Engine for C14 {
    type Case = C14Case;
    fn id(&self) -> &'static str {
        "C14"
    }
    fn rule(&self) -> String {
        format!(
            "{} Additionally (failed commits): single writes (one-shot / streamed / memory-mapped, keyed / by address, sync / async) run in a driver process under the ptrace \
             supervisor with the g-th mutating system call failing (EIO / ENOSPC, every g): when the write returns an error then — unless the failing call was the \
             removal of the temp file itself — the temp area is empty once the process has exited.",
            self.inner.rule
        )
    }
    fn assumptions(&self) -> Vec<String> {
        let mut v = self.inner.assumptions();
        v.push("a commit that fails because a filesystem call fails counts as 'a failed commit' of the property's quantifier; faults on the unlink of the temp file itself are excluded".into());
        v
    }
    fn exhaustive(&self, tier: Tier) -> Vec<C14Case> {
        let mut out: Vec<C14Case> = self.inner.exhaustive(tier).into_iter().map(C14Case::Prog).collect();
        for prog in failed_commit_shapes() {
            for gate in 0..26 {
                out.push(C14Case::FailedCommit { prog: prog.clone(), gate, errno: if gate % 2 == 0 { 5 } else { 28 } });
            }
        }
        out
    }
    fn exhaustive_note(&self, _tier: Tier) -> String {
        "a committed value followed by rejected commits (size / integrity, keyed / by address, sync / async) of values that are its content-directory neighbours; \
         10 write shapes x every mutating system call of the write failing once (EIO / ENOSPC alternating)"
            .into()
    }
    fn random_cases(&self, tier: Tier) -> u32 {
        self.inner.random_cases(tier)
    }
    fn strategy(&self, tier: Tier) -> BoxedStrategy<C14Case> {
        let shapes = failed_commit_shapes();
        let n = shapes.len();
        prop_oneof![
            12 => self.inner.strategy(tier).prop_map(C14Case::Prog),
            1 => (0..n, 0usize..26, prop_oneof![Just(5), Just(28), Just(13)]).prop_map(move |(i, gate, errno)| C14Case::FailedCommit { prog: shapes[i].clone(), gate, errno }),
        ]
        .boxed()
    }
    fn max_shrink_iters(&self) -> u32 {
        600
    }
    fn run_case(&self, c: &C14Case, st: &mut Stats, env: &mut WorkerEnv) -> Result<(), String> {
        match c {
            C14Case::Prog(p) => self.inner.run_case(p, st, env),
            C14Case::FailedCommit { prog, gate, errno } => {
                env.scratch.reset();
                let paths = Paths::new(&env.scratch.root, &env.scratch.cache, &env.scratch.scratch, prog);
                let mut hit: Option<String> = None;
                let run = run_supervised_opt(&paths, 0, 1, false, None, true, |g, idx| {
                    if idx == *gate {
                        hit = Some(format!("{} -> errno {errno}", g.short()));
                        if g.name.starts_with("unlink") {
                            // the removal of the temp file itself: not a case of this check
                            hit = Some("unlink".into());
                            return Decision::Continue;
                        }
                        Decision::Errno(*errno)
                    } else {
                        Decision::Continue
                    }
                })?;
                st.eval(1);
                if run.status != "e0" {
                    return Err(format!("the writer process ended abnormally ({}) with fault {:?}", run.status, hit));
                }
                let out = run.outs.first().map(|o| o.1.clone()).ok_or("INFRA: no driver output")?;
                if out.is_panic() {
                    return Err(format!("write with fault {:?}: {}", hit, out.short()));
                }
                let ctx = Ctx::new(env.scratch.cache.clone(), env.scratch.scratch.clone(), &prog.keys, &prog.blobs);
                if out.is_err() && hit.as_deref() != Some("unlink") {
                    let left = tmp_entries(&ctx);
                    if !left.is_empty() {
                        return Err(format!(
                            "the commit failed ({}) after {} and the writer is gone (its process has exited), but temporary files remain: {left:?}",
                            out.short(),
                            hit.clone().unwrap_or_default()
                        ));
                    }
                    st.class("failed_commit_by_io_error");
                    st.class("nontrivial");
                    st.nontrivial(hash_of(c));
                } else {
                    st.class("fault_did_not_fail_the_commit");
                }
                Ok(())
            }
        }
    }
    fn health(&self, st: &Stats, tier: Tier) -> Result<(), String> {
        self.inner.health(st, tier)
    }
}
