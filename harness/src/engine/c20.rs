//! C20 — no public call panics, aborts or hangs; every failure is a returned error.

use super::basic::{self, OpMix, ProgCfg};
use super::{c04, c13, hash_of, Engine, Stats, Tier, WorkerEnv};
use crate::exec::{run_step, Ctx};
use crate::gen::{SizeMix, WriteMix};
use crate::ops::*;
use crate::reffmt::{self, EmitStyle, Json, Rec};
use proptest::collection::vec;
use proptest::prelude::*;
use serde::{Deserialize, Serialize};

#[derive(Clone, Copy, Debug, Serialize, Deserialize, PartialEq)]
pub enum Root {
    /// an existing empty directory (the normal case)
    Dir,
    /// the cache path does not exist
    Missing,
    /// the cache path is a regular file
    File,
    /// `<cache>/tmp` is a regular file
    TmpIsFile,
    /// `<cache>/index-v5` is a regular file
    IndexIsFile,
    /// `<cache>/content-v2` is a regular file
    ContentIsFile,
}

/// A checksum-valid index record with odd fields, planted by the harness.
#[derive(Clone, Debug, Serialize, Deserialize)]
pub struct HostileRec {
    /// which key's bucket (index into the pool) and which key the record claims
    pub bucket_of: usize,
    pub key: usize,
    pub integrity: Option<String>,
    pub time: String,
    pub size: String,
    pub metadata: serde_json::Value,
    pub raw: Option<Vec<u8>>,
}

#[derive(Clone, Debug, Serialize, Deserialize)]
pub enum Case {
    Program { prog: Program, root: Root },
    /// hostile records first, then a program on top of them
    Hostile { recs: Vec<HostileRec>, prog: Program },
    Fault(c13::Case),
    Crash(c04::Case),
    /// while every retrieval entry point runs on a large entry, another thread of the process
    /// keeps cutting the content file short in place and restoring it (what re-creating a
    /// hard-linked-out file, or rewriting a link target, does to the cache's file): any result
    /// is fine, a dead process is not
    Sabotage { len: usize, rounds: u8 },
}

pub struct C20;

fn cfg(tier: Tier) -> ProgCfg {
    ProgCfg {
        mix: OpMix {
            write: 14,
            read: 4,
            read_hash: 3,
            stream: 3,
            meta: 3,
            exists: 2,
            list: 3,
            extract: 5,
            remove: 3,
            remove_hash: 3,
            remove_fully: 3,
            clear: 1,
            idx_insert: 2,
            idx_find: 2,
            idx_delete: 1,
            link_to: 2,
            abandon: 3,
            commit_dropped: 0,
            damage_content: 4,
            damage_bucket: 4,
            foreign: 1,
            two_writers: 2,
            switch_cache: 0,
            cancel_commit: 0,
        },
        wmix: WriteMix { bad_decls: true, meta: true, by_hash: true, rich_matching: true, interfere: true },
        sizes: SizeMix::Boundary,
        keys: (1, 5),
        blobs: (1, 4),
        max_steps: tier.pick(16, 40),
    }
}

fn hostile_integrity() -> impl Strategy<Value = Option<String>> {
    let valid = "sha256-47DEQpj8HBSa+/TImW+5JCeuQeRkm5NMpJWZG3hSuFU=";
    prop_oneof![
        Just(None),
        Just(Some(String::new())),
        Just(Some(" ".to_string())),
        Just(Some("sha256-".to_string())),
        Just(Some("sha256".to_string())),
        Just(Some("-".to_string())),
        Just(Some("sha999-AAAA".to_string())),
        Just(Some("md5-1B2M2Y8AsgTpgAmY7PhCfg==".to_string())),
        Just(Some("sha256-!!!not base64!!!".to_string())),
        Just(Some("sha256-QQ==".to_string())),
        Just(Some("sha256-QUJD".to_string())),
        Just(Some("sha1-deadbeef".to_string())),
        Just(Some("sha512-AAAA".to_string())),
        Just(Some("xxh3-AA==".to_string())),
        Just(Some(format!("{valid} sha999-zz"))),
        Just(Some(format!("sha512-### {valid}"))),
        Just(Some(format!("{valid}?foo=bar"))),
        Just(Some(format!("{valid}\u{0}"))),
        Just(Some(valid.to_string())),
        Just(Some("sha256-47DEQpj8HBSa-_TImW-5JCeuQeRkm5NMpJWZG3hSuFU".to_string())),
        "[a-z0-9]{0,8}-[A-Za-z0-9+/=]{0,12}".prop_map(Some),
        vec(any::<char>(), 0..12).prop_map(|c| Some(c.into_iter().collect())),
    ]
}

pub fn hostile_rec(nkeys: usize) -> impl Strategy<Value = HostileRec> {
    (
        0..nkeys,
        0..nkeys,
        hostile_integrity(),
        prop_oneof![Just("0".to_string()), Just(u128::MAX.to_string()), any::<u64>().prop_map(|x| x.to_string())],
        prop_oneof![Just("0".to_string()), Just(u64::MAX.to_string()), Just("18446744073709551616".to_string()), any::<u32>().prop_map(|x| x.to_string())],
        prop_oneof![
            Just(serde_json::Value::Null),
            crate::gen::json_value(),
            (1usize..90).prop_map(|d| {
                let mut v = serde_json::json!(1);
                for _ in 0..d {
                    v = serde_json::json!([v]);
                }
                v
            }),
        ],
        proptest::option::weighted(0.2, vec(any::<u8>(), 0..8)),
    )
        .prop_map(|(bucket_of, key, integrity, time, size, metadata, raw)| HostileRec { bucket_of, key, integrity, time, size, metadata, raw })
}

pub fn plant(ctx: &Ctx, r: &HostileRec) {
    let p = reffmt::bucket_path(&ctx.cache, ctx.key(r.bucket_of % ctx.keys.len()));
    let rec = Rec {
        key: ctx.key(r.key % ctx.keys.len()).to_string(),
        integrity: r.integrity.clone(),
        time: 0,
        size: 0,
        metadata: Json::from_value(&r.metadata),
        raw_metadata: r.raw.clone(),
    };
    // numbers are spliced in as text so that values beyond u64 / u128 can be expressed
    let mut j = reffmt::encode_json(&rec, EmitStyle { ascii: false, reversed: false });
    j = j.replacen("\"time\":0", &format!("\"time\":{}", r.time), 1).replacen("\"size\":0", &format!("\"size\":{}", r.size), 1);
    let line = format!("\n{}\t{}", reffmt::sha256_hex(j.as_bytes()), j);
    let _ = std::fs::create_dir_all(p.parent().unwrap());
    use std::io::Write;
    if let Ok(mut f) = std::fs::OpenOptions::new().create(true).append(true).open(&p) {
        let _ = f.write_all(line.as_bytes());
    }
}

fn is_c20_failure(msg: &str) -> bool {
    msg.contains("panicked") || msg.contains("did not return") || msg.contains("abnormally") || msg.contains("did not finish") || msg.contains("Panic(")
}

fn run_program(ctx: &Ctx, prog: &Program, st: &mut Stats, what: &str) -> Result<(u32, u32), String> {
    let mut errs = 0;
    let mut interesting = 0;
    for (i, s) in prog.steps.iter().enumerate() {
        let r = run_step(ctx, s);
        st.eval(1);
        match &r.out {
            Out::Panic(m) => return Err(format!("{what}{} panicked: {m}", basic::describe_step(prog, i))),
            Out::Hang => return Err(format!("{what}{} did not return", basic::describe_step(prog, i))),
            o if o.is_err() => errs += 1,
            _ => {}
        }
        match &s.op {
            Op::Write(w) | Op::Abandon { spec: w, .. } => {
                let len = prog.blobs[w.blob].len;
                if len == 0 || w.declare != Declare::None || w.chunks.len() > 1 {
                    interesting += 1;
                }
            }
            Op::DamageContent { .. } | Op::DamageBucket { .. } => interesting += 1,
            _ => {}
        }
    }
    Ok((errs, interesting))
}

impl Engine for C20 {
    type Case = Case;
    fn id(&self) -> &'static str {
        "C20"
    }
    fn rule(&self) -> String {
        "the union of what the other checks generate, judged only for 'the call returns and reports failure through its result': (1) random programs over the whole operation \
         language with hostile keys, zero-length data, declared sizes delivered in several chunks / too few / too many bytes, mismatching integrity declarations, abandoned writers, \
         damaged content files and buckets, removal of what does not exist, on a cache root that is an empty directory, missing, a regular file, or a directory in which tmp / index-v5 / content-v2 is a regular file; (2) checksum-valid index records \
         with odd fields planted in buckets (unknown algorithm, empty / non-base64 / too short digests, several hashes, numbers beyond 64 and 128 bits, deeply nested metadata) \
         followed by programs; (3) C13 fault-injection cases and (4) C04 crash cases, run through those engines and judged for panics, hangs and abnormal process ends only. Every \
         call runs under catch_unwind with a panic hook, panics on runtime / blocking-pool threads are collected, and a per-case watchdog bounds termination. Non-trivial = a \
         call returned an error, or the case exercised declared-size / multi-chunk / zero-length / damaged / hostile-record state or an injected fault / crash; distinct = distinct case"
            .into()
    }
    fn assumptions(&self) -> Vec<String> {
        vec![
            "integrity ARGUMENTS are always well-formed (real digests, possibly of other data), as the property assumes; hostile integrity strings appear only on disk".into(),
            "'never hangs' is decided by a watchdog (40 s per case in the quick tier, 120 s in the thorough tier; a hit is re-run once from its replay file with a 3x limit), which can only bound".into(),
        ]
    }
    fn random_cases(&self, tier: Tier) -> u32 {
        tier.pick(3000, 80000)
    }
    fn case_timeout_s(&self, tier: Tier) -> u64 {
        tier.pick(40, 120)
    }
    fn strategy(&self, tier: Tier) -> BoxedStrategy<Case> {
        let c13e = c13::C13;
        let c04e = c04::C04;
        prop_oneof![
            8 => (basic::program(cfg(tier)), prop_oneof![8 => Just(Root::Dir), 1 => Just(Root::Missing), 1 => Just(Root::File), 1 => Just(Root::TmpIsFile), 1 => Just(Root::IndexIsFile), 1 => Just(Root::ContentIsFile)], any::<u8>()).prop_map(|(mut prog, root, r)| {
                // sometimes a bucket file is replaced by a directory instead of being damaged
                if r % 3 == 0 {
                    for s in prog.steps.iter_mut() {
                        if let Op::DamageBucket { dmg, .. } = &mut s.op {
                            *dmg = BDamage::BecomeDir;
                        }
                    }
                }
                Case::Program { prog, root }
            }),
            4 => (basic::program(cfg(tier)), vec(hostile_rec(5), 1..5)).prop_map(|(prog, recs)| Case::Hostile { recs, prog }),
            1 => c13e.strategy(tier).prop_map(Case::Fault),
            1 => c04e.strategy(tier).prop_map(Case::Crash),
        ]
        .boxed()
    }
    fn exhaustive(&self, _tier: Tier) -> Vec<Case> {
        // every hostile integrity string of the fixed list once, followed by every read-side call
        let keys = vec!["k".to_string(), "other".to_string()];
        let blobs = vec![crate::blob::Blob::new(0, 1), crate::blob::Blob::new(9, 2)];
        let ints: Vec<Option<String>> = vec![
            None,
            Some("".into()),
            Some(" ".into()),
            Some("sha256-".into()),
            Some("sha256".into()),
            Some("-".into()),
            Some("sha999-AAAA".into()),
            Some("md5-1B2M2Y8AsgTpgAmY7PhCfg==".into()),
            Some("sha256-!!!not base64!!!".into()),
            Some("sha256-QQ==".into()),
            Some("sha256-QUJD".into()),
            Some("sha1-deadbeef".into()),
            Some("sha512-AAAA".into()),
            Some("xxh3-AA==".into()),
            Some("sha256-47DEQpj8HBSa+/TImW+5JCeuQeRkm5NMpJWZG3hSuFU= sha999-zz".into()),
            Some("sha512-### sha256-47DEQpj8HBSa+/TImW+5JCeuQeRkm5NMpJWZG3hSuFU=".into()),
            Some("sha256-47DEQpj8HBSa-_TImW-5JCeuQeRkm5NMpJWZG3hSuFU".into()),
        ];
        let mut out = Vec::new();
        for fl0 in [Fl::Sync, Fl::Async] {
            // a directory sits where the bucket file of an existing key should be
            let mut steps = vec![Step { op: Op::Write(WriteSpec::simple(Some(0), 1)), fl: fl0 }, Step { op: Op::DamageBucket { key: 0, dmg: BDamage::BecomeDir }, fl: Fl::Sync }];
            for fl in [Fl::Sync, Fl::Async] {
                steps.push(Step { op: Op::Meta { key: 0 }, fl });
                steps.push(Step { op: Op::Read { key: 0 }, fl });
                steps.push(Step { op: Op::Stream { by: By::Key(0), bufs: vec![] }, fl });
                steps.push(Step { op: Op::Extract { kind: XKind::Copy, checked: true, by: By::Key(0), dest: Dest::Absent }, fl });
                steps.push(Step { op: Op::Extract { kind: XKind::HardLink, checked: true, by: By::Key(0), dest: Dest::Absent }, fl });
                steps.push(Step { op: Op::List, fl });
                steps.push(Step { op: Op::Remove { key: 0 }, fl });
                steps.push(Step { op: Op::RemoveOpts { key: 0, fully: true }, fl });
                steps.push(Step { op: Op::Write(WriteSpec::simple(Some(0), 0)), fl });
            }
            out.push(Case::Program { prog: Program { keys: keys.clone(), blobs: blobs.clone(), steps }, root: Root::Dir });
        }
        // single writes of more than 64 MiB (one buffer handed over in one call) and of 16 MiB
        for len in [(64usize << 20) + 1, (16 << 20) + 3] {
            let hkeys = vec!["huge".to_string(), "other".to_string()];
            let hblobs = vec![crate::blob::Blob::new(len, 77), crate::blob::Blob::new(9, 2)];
            let mut steps = Vec::new();
            let mut one = WriteSpec::simple(Some(0), 0);
            one.entry = WEntry::OneShot;
            steps.push(Step { op: Op::Write(one), fl: Fl::Async });
            let mut st1 = WriteSpec::simple(Some(1), 0);
            st1.entry = WEntry::Opts;
            st1.chunks = vec![len];
            steps.push(Step { op: Op::Write(st1.clone()), fl: Fl::Async });
            steps.push(Step { op: Op::Write(st1), fl: Fl::Sync });
            steps.push(Step { op: Op::Read { key: 0 }, fl: Fl::Async });
            steps.push(Step { op: Op::Extract { kind: XKind::Copy, checked: true, by: By::Key(1), dest: Dest::Absent }, fl: Fl::Async });
            out.push(Case::Program { prog: Program { keys: hkeys, blobs: hblobs, steps }, root: Root::Dir });
        }
        // one bucket holding records of two keys in every order of write / removal / re-write
        // (reference-written foreign records), then the listing and the raw listing
        for order in 0..6usize {
            let fr = |k: usize, b: usize| Step { op: Op::ForeignRecord { bucket_of: 0, key: k, addr: AddrRef { algo: crate::blob::Algo::Sha256, blob: b } }, fl: Fl::Sync };
            let ft = |k: usize| Step { op: Op::ForeignTombstone { bucket_of: 0, key: k }, fl: Fl::Sync };
            let seq: Vec<Step> = match order {
                0 => vec![fr(0, 0), fr(1, 1), ft(0), fr(1, 0)],
                1 => vec![fr(1, 1), fr(0, 0), ft(1), fr(0, 1), fr(1, 1)],
                2 => vec![fr(0, 0), fr(1, 1), ft(1), ft(0), fr(1, 0), fr(0, 1)],
                3 => vec![fr(1, 0), ft(1), fr(0, 1), fr(1, 1), ft(0)],
                4 => vec![fr(0, 0), fr(1, 1), fr(0, 1), ft(0), ft(1), fr(1, 0), fr(1, 1)],
                _ => vec![ft(0), ft(1), fr(0, 0), fr(1, 0), ft(0), fr(1, 1), fr(0, 1), ft(1)],
            };
            let mut steps = seq;
            for fl in [Fl::Sync, Fl::Async] {
                steps.push(Step { op: Op::List, fl });
                steps.push(Step { op: Op::IdxLs, fl });
                steps.push(Step { op: Op::Meta { key: 0 }, fl });
                steps.push(Step { op: Op::Meta { key: 1 }, fl });
            }
            out.push(Case::Program { prog: Program { keys: keys.clone(), blobs: blobs.clone(), steps }, root: Root::Dir });
        }
        // index records of 70 KB and 400 KB as the newest of their bucket, then every read-side call
        for raw_len in [18_000usize, 100_000] {
            let mut w = WriteSpec::simple(Some(0), 1);
            w.entry = WEntry::Opts;
            w.raw_metadata = Some(crate::gen::huge_raw_meta(raw_len, 3));
            w.metadata = Some(serde_json::Value::String("m".repeat(raw_len / 4)));
            let mut steps = vec![Step { op: Op::Write(w), fl: Fl::Sync }];
            for fl in [Fl::Sync, Fl::Async] {
                steps.push(Step { op: Op::Meta { key: 0 }, fl });
                steps.push(Step { op: Op::IdxFind { key: 0 }, fl });
                steps.push(Step { op: Op::Read { key: 0 }, fl });
                steps.push(Step { op: Op::Stream { by: By::Key(0), bufs: vec![] }, fl });
                for kind in [XKind::Copy, XKind::HardLink] {
                    steps.push(Step { op: Op::Extract { kind, checked: true, by: By::Key(0), dest: Dest::Absent }, fl });
                }
                steps.push(Step { op: Op::List, fl });
                steps.push(Step { op: Op::Remove { key: 0 }, fl });
                steps.push(Step { op: Op::Meta { key: 0 }, fl });
            }
            out.push(Case::Program { prog: Program { keys: keys.clone(), blobs: blobs.clone(), steps }, root: Root::Dir });
        }
        out.push(Case::Sabotage { len: 6 << 20, rounds: 6 });
        out.push(Case::Sabotage { len: 300_000, rounds: 12 });
        // a writer opened while 70 / 140 / 300 others are open in the same process
        for crowd in [70u16, 140, 300] {
            for fl in [Fl::Sync, Fl::Async] {
                let mut w = WriteSpec::simple(Some(0), 1);
                w.entry = WEntry::Opts;
                w.chunks = vec![4];
                w.crowd = crowd;
                out.push(Case::Program { prog: Program { keys: keys.clone(), blobs: blobs.clone(), steps: vec![Step { op: Op::Write(w), fl }, Step { op: Op::Read { key: 0 }, fl }] }, root: Root::Dir });
            }
        }
        for (n, i) in ints.into_iter().enumerate() {
            let mut steps = Vec::new();
            for fl in [Fl::Sync, Fl::Async] {
                steps.push(Step { op: Op::Meta { key: 0 }, fl });
                steps.push(Step { op: Op::IdxFind { key: 0 }, fl });
                steps.push(Step { op: Op::Read { key: 0 }, fl });
                steps.push(Step { op: Op::Stream { by: By::Key(0), bufs: vec![] }, fl });
                for kind in [XKind::Copy, XKind::HardLink, XKind::Reflink] {
                    for checked in [true, false] {
                        steps.push(Step { op: Op::Extract { kind, checked, by: By::Key(0), dest: Dest::Absent }, fl });
                    }
                }
                steps.push(Step { op: Op::List, fl });
                steps.push(Step { op: Op::RemoveOpts { key: 0, fully: true }, fl });
            }
            steps.push(Step { op: Op::Write(WriteSpec::simple(Some(0), 1)), fl: Fl::Sync });
            steps.push(Step { op: Op::List, fl: Fl::Sync });
            let rec = HostileRec { bucket_of: 0, key: 0, integrity: i, time: (n as u64).to_string(), size: "1".into(), metadata: serde_json::Value::Null, raw: None };
            out.push(Case::Hostile { recs: vec![rec.clone(), HostileRec { key: 1, ..rec }], prog: Program { keys: keys.clone(), blobs: blobs.clone(), steps } });
        }
        out
    }
    fn exhaustive_note(&self, _tier: Tier) -> String {
        "fixed family: single writes of 16 MiB and 64 MiB + 1; each of 17 hostile on-disk integrity strings followed by every lookup / read / stream / extraction / listing / full-removal call in both flavours".into()
    }
    fn max_shrink_iters(&self) -> u32 {
        1500
    }
    fn run_case(&self, c: &Case, st: &mut Stats, env: &mut WorkerEnv) -> Result<(), String> {
        let before = crate::exec::FOREIGN_PANICS.lock().unwrap_or_else(|e| e.into_inner()).len();
        let nontrivial;
        match c {
            Case::Sabotage { len, rounds } => {
                env.scratch.reset();
                let keys = vec!["sabotaged".to_string()];
                let blobs = vec![crate::blob::Blob::new(*len, 91)];
                let ctx = Ctx::new(env.scratch.cache.clone(), env.scratch.scratch.clone(), &keys, &blobs);
                let r = run_step(&ctx, &Step { op: Op::Write(WriteSpec::simple(Some(0), 0)), fl: Fl::Sync });
                if !matches!(r.out, Out::Int(_)) {
                    return Err(format!("set-up write failed: {}", r.out.short()));
                }
                let a = AddrRef { algo: crate::blob::Algo::Sha256, blob: 0 };
                let path = ctx.content_path(a);
                let data = ctx.blob(0);
                let stop = std::sync::atomic::AtomicBool::new(false);
                let mut problem: Option<String> = None;
                std::thread::scope(|sc| {
                    sc.spawn(|| {
                        // cut in place, restore in place (same inode), again and again
                        while !stop.load(std::sync::atomic::Ordering::SeqCst) {
                            if let Ok(f) = std::fs::OpenOptions::new().write(true).open(&path) {
                                let _ = f.set_len((*len / 3) as u64);
                                std::thread::sleep(std::time::Duration::from_micros(300));
                                use std::io::Write;
                                let mut f = f;
                                let _ = f.set_len(0);
                                let _ = f.write_all(&data);
                            }
                            std::thread::sleep(std::time::Duration::from_micros(300));
                        }
                    });
                    'outer: for _ in 0..*rounds {
                        for fl in [Fl::Sync, Fl::Async] {
                            for op in [
                                Op::Read { key: 0 },
                                Op::ReadHash { addr: a },
                                Op::Stream { by: By::Key(0), bufs: vec![65536] },
                                Op::Extract { kind: XKind::Copy, checked: true, by: By::Key(0), dest: Dest::Absent },
                                Op::Extract { kind: XKind::Copy, checked: true, by: By::Addr(a), dest: Dest::Absent },
                                Op::Extract { kind: XKind::HardLink, checked: true, by: By::Key(0), dest: Dest::Absent },
                                Op::Extract { kind: XKind::HardLink, checked: true, by: By::Addr(a), dest: Dest::Absent },
                                Op::Extract { kind: XKind::Reflink, checked: true, by: By::Key(0), dest: Dest::Absent },
                                Op::Exists { addr: a },
                            ] {
                                let r = run_step(&ctx, &Step { op: op.clone(), fl });
                                st.eval(1);
                                if r.out.is_panic() {
                                    problem = Some(format!("{op:?}/{fl:?} while the content file was being cut and restored in place: {}", r.out.short()));
                                    break 'outer;
                                }
                            }
                        }
                    }
                    stop.store(true, std::sync::atomic::Ordering::SeqCst);
                });
                if let Some(p) = problem {
                    return Err(p);
                }
                st.class("content_file_cut_and_restored_during_retrievals");
                nontrivial = true;
            }
            Case::Program { prog, root } => {
                env.scratch.reset();
                let cache = match root {
                    Root::Dir => env.scratch.cache.clone(),
                    Root::TmpIsFile | Root::IndexIsFile | Root::ContentIsFile => {
                        let name = match root {
                            Root::TmpIsFile => "tmp",
                            Root::IndexIsFile => "index-v5",
                            _ => "content-v2",
                        };
                        std::fs::write(env.scratch.cache.join(name), b"not a directory").map_err(|e| format!("INFRA: {e}"))?;
                        env.scratch.cache.clone()
                    }
                    Root::Missing => env.scratch.root.join("does/not/exist"),
                    Root::File => {
                        let p = env.scratch.root.join("a-file");
                        let _ = std::fs::remove_dir_all(&p);
                        std::fs::write(&p, b"i am a file").map_err(|e| format!("INFRA: {e}"))?;
                        p
                    }
                };
                let ctx = Ctx::new(cache, env.scratch.scratch.clone(), &prog.keys, &prog.blobs);
                let (errs, interesting) = run_program(&ctx, prog, st, "")?;
                crate::rt::quiesce();
                st.class(match root {
                    Root::Dir => "program_on_directory_root",
                    Root::Missing => "program_on_missing_root",
                    Root::File => "program_on_file_root",
                    Root::TmpIsFile | Root::IndexIsFile | Root::ContentIsFile => "program_on_cache_with_a_file_in_place_of_an_area",
                });
                nontrivial = errs > 0 || interesting > 0;
                if matches!(root, Root::Missing | Root::File) {
                    let _ = std::fs::remove_dir_all(env.scratch.root.join("does"));
                    let _ = std::fs::remove_file(env.scratch.root.join("a-file"));
                }
            }
            Case::Hostile { recs, prog } => {
                env.scratch.reset();
                let ctx = Ctx::new(env.scratch.cache.clone(), env.scratch.scratch.clone(), &prog.keys, &prog.blobs);
                for r in recs {
                    plant(&ctx, r);
                }
                run_program(&ctx, prog, st, &format!("with planted index records {:?}: ", recs.iter().map(|r| &r.integrity).collect::<Vec<_>>()))?;
                crate::rt::quiesce();
                st.class("hostile_index_records");
                nontrivial = true;
            }
            Case::Fault(fc) => {
                let mut sub = Stats { frozen: st.frozen, ..Stats::default() };
                let res = c13::C13.run_case(fc, &mut sub, env);
                st.eval(sub.evaluations);
                for (k, v) in &sub.classes {
                    if k != "nontrivial" {
                        st.class_n(k, *v);
                    }
                }
                match res {
                    Ok(()) => {}
                    Err(m) if is_c20_failure(&m) => return Err(m),
                    Err(m) if m.contains("INFRA:") => return Err(m),
                    Err(_) => st.class("other_property_failed_in_fault_case"),
                }
                st.class("fault_injection_case");
                nontrivial = true;
            }
            Case::Crash(cc) => {
                let mut sub = Stats { frozen: st.frozen, ..Stats::default() };
                let res = c04::C04.run_case(cc, &mut sub, env);
                st.eval(sub.evaluations);
                for (k, v) in &sub.classes {
                    if k != "nontrivial" {
                        st.class_n(k, *v);
                    }
                }
                match res {
                    Ok(()) => {}
                    Err(m) if is_c20_failure(&m) => return Err(m),
                    Err(m) if m.contains("INFRA:") => return Err(m),
                    Err(_) => st.class("other_property_failed_in_crash_case"),
                }
                st.class("crash_case");
                nontrivial = true;
            }
        }
        let fp = crate::exec::FOREIGN_PANICS.lock().unwrap_or_else(|e| e.into_inner());
        if fp.len() > before {
            return Err(format!("a runtime / blocking-pool thread panicked during the case: {}", fp[before..].join(" | ")));
        }
        drop(fp);
        if nontrivial {
            st.class("nontrivial");
            st.nontrivial(hash_of(c));
        }
        st.sample(|| match c {
            Case::Program { prog, root } => serde_json::json!({"Program": super::progeng::compact_program(prog), "root": root}),
            other => serde_json::to_value(other).unwrap(),
        });
        Ok(())
    }
}
