//! C04 — a keyed write or removal interrupted by a crash is all-or-nothing.

use super::basic;
use super::{hash_of, Engine, Stats, Tier, WorkerEnv};
use crate::blob::{Algo, Blob, ALGOS};
use crate::exec::{norm_meta, now_ms, run_step, Ctx};
use crate::gen::{self, pick, SizeMix, WriteMix};
use crate::model::{entry_matches, Entry, Model};
use crate::ops::*;
use crate::ptrun::{run_supervised, Decision, Paths};
use crate::reffmt;
use proptest::collection::vec;
use proptest::prelude::*;
use serde::{Deserialize, Serialize};
use serde_json::json;

#[derive(Clone, Debug, Serialize, Deserialize, PartialEq)]
pub enum Crash {
    /// kill before the g-th mutating system call of the victim
    KillAt(usize),
    /// tear the index append: small selectors are exact byte lengths, larger ones map onto 1..n-1
    TornAppend(u16),
}

#[derive(Clone, Debug, Serialize, Deserialize)]
pub struct Case {
    /// steps[..victim] = committed preamble, steps[victim] = the interrupted operation,
    /// steps[victim+1..] = continuation after restart
    pub prog: Program,
    pub victim: usize,
    pub crash: Crash,
}

pub struct C04;

fn is_index_append(g: &crate::sup::Gate) -> bool {
    g.is_write_class() && g.get("fdpath").map(|p| p.contains("/index-v5/")).unwrap_or(false)
}

fn victim_key(op: &Op) -> Option<usize> {
    match op {
        Op::Write(w) => w.key,
        Op::Remove { key } | Op::IdxDelete { key } | Op::RemoveOpts { key, fully: false } => Some(*key),
        _ => None,
    }
}

fn meta_with_utf8() -> serde_json::Value {
    json!({"note": "héllo wörld — 日本語 😀", "n": 1})
}

fn scenarios(tier: Tier) -> Vec<(Program, usize)> {
    // keys and metadata with multi-byte UTF-8 so that a tear can fall inside a character
    let keys = vec!["ключ-é😀".to_string(), "other".to_string()];
    let blobs = vec![Blob::new(20, 31), Blob::new(33, 32), Blob::new(7, 33)];
    let mut out = Vec::new();
    let w = |key: usize, blob: usize, meta: bool, algo: Algo| {
        let mut s = WriteSpec::simple(Some(key), blob);
        if meta {
            s.entry = WEntry::Opts;
            s.metadata = Some(meta_with_utf8());
            s.raw_metadata = Some(vec![1, 2, 3]);
            s.algo = algo;
            s.chunks = vec![5];
            // an explicit timestamp: retrying the interrupted call after restart writes the
            // byte-identical record
            if blob == 0 {
                s.time = Some("424242424242".into());
            }
        }
        Op::Write(s)
    };
    let cont = |n: usize| -> Vec<Step> {
        match n % 4 {
            0 => vec![Step { op: w(0, 2, false, Algo::Sha256), fl: Fl::Sync }, Step { op: Op::Read { key: 0 }, fl: Fl::Async }],
            1 => vec![Step { op: w(1, 2, true, Algo::Sha1), fl: Fl::Async }, Step { op: w(0, 1, false, Algo::Sha256), fl: Fl::Async }],
            2 => vec![Step { op: Op::Remove { key: 0 }, fl: Fl::Sync }, Step { op: w(0, 2, true, Algo::Sha512), fl: Fl::Sync }],
            _ => vec![Step { op: Op::Meta { key: 0 }, fl: Fl::Sync }, Step { op: w(0, 0, false, Algo::Sha256), fl: Fl::Sync }, Step { op: Op::List, fl: Fl::Sync }],
        }
    };
    let mut n = 0usize;
    for fl in [Fl::Sync, Fl::Async] {
        let kinds: Vec<usize> = tier.pick(vec![0, 1, 2, 3, 6, 7, 8, 9], vec![0, 1, 2, 3, 4, 5, 6, 7, 8, 9]);
        for kind in kinds {
            n += 1;
            let mut steps = vec![Step { op: w(1, 1, false, Algo::Sha256), fl: Fl::Sync }];
            let victim_op = match kind {
                0 => w(0, 0, true, ALGOS[n % 5]),                     // first write
                1 => {
                    steps.push(Step { op: w(0, 1, true, Algo::Sha256), fl: Fl::Async });
                    w(0, 0, true, ALGOS[n % 5])                       // overwrite
                }
                2 => {
                    steps.push(Step { op: w(0, 1, true, Algo::Sha256), fl: Fl::Sync });
                    Op::Remove { key: 0 }                             // tombstone removal
                }
                3 => {
                    steps.push(Step { op: w(0, 1, false, Algo::Sha256), fl: Fl::Sync });
                    steps.push(Step { op: Op::Remove { key: 0 }, fl: Fl::Async });
                    w(0, 0, false, Algo::Sha256)                      // re-write after removal
                }
                4 => w(0, 0, false, Algo::Sha256),                    // plain first write, one-shot
                6 => {
                    // the previous entry is an index line of more than 64 KiB
                    let mut big = WriteSpec::simple(Some(0), 1);
                    big.entry = WEntry::Opts;
                    big.raw_metadata = Some(crate::gen::huge_raw_meta(30_000, 9));
                    steps.push(Step { op: Op::Write(big), fl: Fl::Async });
                    w(0, 0, true, ALGOS[n % 5])
                }
                8 => {
                    // shared data again, with the temp area on another filesystem (content is
                    // published by some fallback instead of a rename)
                    steps.push(Step { op: w(1, 0, false, Algo::Sha256), fl: Fl::Sync });
                    steps.push(Step { op: w(0, 0, false, Algo::Sha256), fl: Fl::Async });
                    steps.push(Step { op: Op::TmpElsewhere, fl: Fl::Sync });
                    w(0, 0, false, Algo::Sha256)
                }
                9 => {
                    // shared data, written again with a declared size that is too large: the
                    // commit is rejected whether or not it is interrupted, and nobody's data moves
                    steps.push(Step { op: w(1, 0, false, Algo::Sha256), fl: Fl::Sync });
                    steps.push(Step { op: w(0, 0, false, Algo::Sha256), fl: Fl::Sync });
                    let mut v = WriteSpec::simple(Some(0), 0);
                    v.entry = WEntry::Opts;
                    v.chunks = vec![7];
                    v.declare = Declare::Off(69);
                    Op::Write(v)
                }
                7 => {
                    // the data being written is already stored and shared with the other key
                    steps.push(Step { op: w(1, 0, false, Algo::Sha256), fl: Fl::Sync });
                    w(0, 0, false, Algo::Sha256)
                }
                _ => {
                    steps.push(Step { op: w(0, 2, true, Algo::Sha384), fl: Fl::Async });
                    Op::RemoveOpts { key: 0, fully: false }
                }
            };
            steps.push(Step { op: victim_op.clone(), fl });
            let victim = steps.len() - 1;
            let mut with_cont = steps.clone();
            with_cont.extend(cont(n));
            out.push((Program { keys: keys.clone(), blobs: blobs.clone(), steps: with_cont }, victim));
            // after restart the application simply retries the interrupted call (both flavours)
            let mut retry = steps.clone();
            retry.push(Step { op: victim_op.clone(), fl });
            retry.push(Step { op: Op::Meta { key: 0 }, fl: Fl::Async });
            retry.push(Step { op: victim_op, fl: if fl == Fl::Sync { Fl::Async } else { Fl::Sync } });
            out.push((Program { keys: keys.clone(), blobs: blobs.clone(), steps: retry }, victim));
        }
    }
    out
}

fn random_case() -> impl Strategy<Value = Case> {
    let wm = WriteMix { bad_decls: false, meta: true, by_hash: false, rich_matching: false, interfere: false };
    (
        gen::key_pool(2, 3),
        gen::blob_pool(2, 3, SizeMix::Small),
        vec((gen::write_spec(wm, 3, 3), gen::fl(), 0u8..10), 0..4),
        (gen::write_spec(wm, 3, 3), gen::fl(), 0u8..10),
        vec((gen::write_spec(wm, 3, 3), gen::fl(), 0u8..10), 0..4),
        prop_oneof![(0usize..24).prop_map(Crash::KillAt), any::<u16>().prop_map(Crash::TornAppend)],
    )
        .prop_map(|(keys, blobs, pre, vic, cont, crash)| {
            let nk = keys.len();
            let nb = blobs.len();
            let mk = |(mut w, fl, r): (WriteSpec, Fl, u8), allow_lookup: bool| -> Step {
                w.key = Some(w.key.unwrap_or(0) % nk);
                w.blob %= nb;
                let key = w.key.unwrap();
                let op = match r {
                    0 | 1 => Op::Remove { key },
                    2 if allow_lookup => Op::Meta { key },
                    3 if allow_lookup => Op::Read { key },
                    _ => Op::Write(w),
                };
                Step { op, fl }
            };
            let mut steps: Vec<Step> = pre.into_iter().map(|x| mk(x, false)).collect();
            let victim = steps.len();
            let retry = vic.2 % 3 == 0;
            steps.push(mk(vic, false));
            if retry {
                let v = steps[victim].clone();
                steps.push(v);
            }
            steps.extend(cont.into_iter().map(|x| mk(x, true)));
            Case { prog: Program { keys, blobs, steps }, victim, crash }
        })
}

impl Engine for C04 {
    type Case = Case;
    fn id(&self) -> &'static str {
        "C04"
    }
    fn level(&self) -> &'static str {
        "fault_enumeration"
    }
    fn rule(&self) -> String {
        "(preamble, victim, crash point, continuation): 0-3 committed operations, then a keyed write / overwrite / tombstone removal (keys and metadata with multi-byte \
         UTF-8, sync and async, both builds) run in a driver process under the ptrace supervisor and killed before its g-th mutating system call (EVERY g in the fixed \
         scenarios) or with its index append torn at byte k (EVERY k of the record in the fixed scenarios), then 0-3 continuation operations after restart. Oracle: right \
         after the kill metadata*/read* of the victim key give exactly the previous state or exactly the new one — never an error, a mixture or another key's data; if the new \
         entry is visible its content reads back completely; every other key equals the model; the bucket decodes (reference reader) to the earlier records plus at most the \
         new one; then the model is set to the observed alternative and every continuation step must follow it (which exposes a torn tail that swallows the next record). \
         Non-trivial = the kill falls after the first mutating call, or inside the append, or the continuation is non-empty; distinct = distinct (scenario, crash point)"
            .into()
    }
    fn assumptions(&self) -> Vec<String> {
        vec![
            "kill model = process death (completed system calls persist)".into(),
            "post-crash observation and continuation run through the library in the harness process: the library keeps no in-process state, which the fresh-process samples of C07/C15 cross-check".into(),
            "full removals and clear are multi-step bulk deletions and are not crash victims here (the property names tombstone removals)".into(),
        ]
    }
    fn exhaustive(&self, tier: Tier) -> Vec<Case> {
        let mut out = Vec::new();
        for (prog, victim) in scenarios(tier) {
            for g in 0..24 {
                out.push(Case { prog: prog.clone(), victim, crash: Crash::KillAt(g) });
            }
            // every byte length of the append (records here are < 600 bytes)
            for k in 1..tier.pick(420u16, 640u16) {
                out.push(Case { prog: prog.clone(), victim, crash: Crash::TornAppend(k) });
            }
        }
        out
    }
    fn exhaustive_note(&self, tier: Tier) -> String {
        format!("{} scenarios x (every kill point + every torn length of the index append)", scenarios(tier).len())
    }
    fn random_cases(&self, tier: Tier) -> u32 {
        tier.pick(600, 12000)
    }
    fn strategy(&self, _tier: Tier) -> BoxedStrategy<Case> {
        random_case().boxed()
    }
    fn max_shrink_iters(&self) -> u32 {
        300
    }
    fn run_case(&self, c: &Case, st: &mut Stats, env: &mut WorkerEnv) -> Result<(), String> {
        env.scratch.reset();
        let prog = &c.prog;
        let ctx = Ctx::new(env.scratch.cache.clone(), env.scratch.scratch.clone(), &prog.keys, &prog.blobs);
        let mut model = Model::new();
        for (i, s) in prog.steps[..c.victim].iter().enumerate() {
            let r = run_step(&ctx, s);
            st.eval(1);
            model.step(&ctx, s, &r.out, r.t0, r.t1).map_err(|e| format!("preamble {}: {e}", basic::describe_step(prog, i)))?;
        }
        let vstep = &prog.steps[c.victim];
        let vkey_idx = victim_key(&vstep.op).ok_or("harness: victim without key")?;
        let vkey = ctx.key(vkey_idx).to_string();
        let old_entry: Option<Entry> = model.entry(&vkey).cloned();
        let bucket = reffmt::bucket_path(&ctx.cache, &vkey);
        let old_records = std::fs::read(&bucket).map(|b| reffmt::parse_bucket(&b).len()).unwrap_or(0);
        let paths = Paths::new(&env.scratch.root, &env.scratch.cache, &env.scratch.scratch, prog);
        let t_start = now_ms();
        let mut crash_desc = String::new();
        let mut torn_n = 0u64;
        let run = run_supervised(&paths, c.victim, c.victim + 1, false, None, |g, idx| match &c.crash {
            Crash::KillAt(k) if idx == *k => {
                crash_desc = format!("killed before mutating system call #{idx} {}", g.short());
                Decision::Kill
            }
            Crash::TornAppend(sel) if is_index_append(g) => {
                let n = g.count().unwrap_or(0);
                torn_n = n;
                if n >= 2 {
                    // k == n: the whole record is written and the process dies at the return of the call
                    let k = if (*sel as u64) <= n && *sel > 0 { *sel as u64 } else { 1 + pick(*sel, n as usize) as u64 };
                    let k = k.clamp(1, n);
                    crash_desc = format!("index append of {n} bytes torn after {k} bytes, then killed");
                    Decision::Torn(k)
                } else {
                    Decision::Continue
                }
            }
            _ => Decision::Continue,
        })?;
        let t_end = now_ms();
        let crashed = run.killed_by_us;
        if !crashed {
            // the crash point lies beyond the end of the operation: an ordinary completed step
            if run.status != "e0" {
                return Err(format!("the victim process ended abnormally ({}) without being killed", run.status));
            }
            let (_, out, t0, t1) = run.outs.first().cloned().ok_or("INFRA: victim produced no result")?;
            model.step(&ctx, vstep, &out, t0, t1).map_err(|e| format!("victim (not crashed) {}: {e}", basic::describe_step(prog, c.victim)))?;
            st.class("crash_point_beyond_end");
        } else {
            st.class(match c.crash {
                Crash::KillAt(_) => "killed_at_gate",
                Crash::TornAppend(_) => "torn_index_append",
            });
            // --- observe, as a restarted process would -----------------------------------
            let new_entry: Option<Entry> = match &vstep.op {
                // a commit that the size / integrity check rejects maps nothing: its "new state" is the old one
                Op::Write(w) if w.entry == WEntry::Opts && !matches!(w.declare, Declare::None | Declare::Exact) => old_entry.clone(),
                Op::Write(w) => Some(Model::expected_entry(&ctx, w, t_start, t_end)),
                _ => None, // removal: new state = absent
            };
            let mut seen: Vec<Option<MetaNorm>> = Vec::new();
            for fl in [Fl::Sync, Fl::Async] {
                let r = run_step(&ctx, &Step { op: Op::Meta { key: vkey_idx }, fl });
                st.eval(1);
                match r.out {
                    Out::Meta(m) => seen.push(m),
                    o => return Err(format!("{crash_desc}: lookup ({fl:?}) of the victim key fails: {}", o.short())),
                }
            }
            if seen[0] != seen[1] {
                return Err(format!("{crash_desc}: sync lookup gives {:?}, async lookup gives {:?}", seen[0].as_ref().map(|m| &m.integrity), seen[1].as_ref().map(|m| &m.integrity)));
            }
            let got = seen.remove(0);
            let is_old = match (&got, &old_entry) {
                (None, None) => true,
                (Some(m), Some(e)) => entry_matches(e, &vkey, m).is_ok(),
                _ => false,
            };
            let is_new = match (&got, &new_entry) {
                (None, None) => true,
                (Some(m), Some(e)) => entry_matches(e, &vkey, m).is_ok(),
                _ => false,
            };
            if !is_old && !is_new {
                return Err(format!(
                    "{crash_desc}: lookup of {vkey:?} gives {:?}, which is neither the previous state ({:?}) nor the new one ({:?})",
                    got,
                    old_entry.as_ref().map(|e| &e.integrity),
                    new_entry.as_ref().map(|e| &e.integrity)
                ));
            }
            st.class(if is_new && !is_old { "new_state_visible" } else { "old_state_visible" });
            // directories created before the kill exist; the listing quirk depends on it
            model.index_dir = ctx.cache.join("index-v5").exists();
            // the content area holds complete valid files only (judged strictly: nothing in these
            // cases is harness damage), then the victim's address is adopted as found
            let bad = reffmt::content_tree_violations(&ctx.cache, false);
            st.eval(1);
            if !bad.is_empty() {
                return Err(format!("{crash_desc}: content area invalid: {}", bad.join("; ")));
            }
            if let Op::Write(w) = &vstep.op {
                // (a step of the harness inside the victim: another writer stored the pool's next value)
                if (w.aged_hours != 0 || w.crowd > 0) && w.streamed() {
                    let other = crate::exec::other_blob(&ctx, w.blob);
                    let o = (Algo::Sha256, crate::blob::hexs(&crate::blob::digest_raw(Algo::Sha256, &other)));
                    model.adopt_content(&ctx, &o);
                }
                let algo = if matches!(w.entry, WEntry::OneShot | WEntry::Create) { Algo::Sha256 } else { w.algo };
                let addr = Model::addr_of(&ctx, AddrRef { algo, blob: w.blob });
                model.adopt_content(&ctx, &addr);
                // whenever the new entry is visible its content is already completely stored
                if is_new && !is_old && !matches!(model.read_exp(&addr), crate::model::ReadExp::Bytes(_)) {
                    return Err(format!(
                        "{crash_desc}: the new entry of {vkey:?} is visible but its content is not stored (content path holds {})",
                        crate::model::cshort(&model.content.get(&addr).cloned())
                    ));
                }
            }
            if is_new && !is_old {
                model.set_entry(&vkey, new_entry.clone().map(|mut e| {
                    // pin the timestamp the library chose
                    if let Some(m) = &got {
                        e.time = crate::model::TimeSpec::Exact(m.time.parse().unwrap());
                    }
                    e
                }));
            }
            // the bucket: earlier records plus at most the new one
            let now_records = std::fs::read(&bucket).map(|b| reffmt::parse_bucket(&b).len()).unwrap_or(0);
            if now_records != old_records && now_records != old_records + 1 {
                return Err(format!("{crash_desc}: the bucket decodes to {now_records} records, {old_records} were committed before"));
            }
            // whenever an entry is visible its content reads back completely; all other keys unchanged
            basic::sweep_keys(&ctx, &mut model, st, true, 0).map_err(|e| format!("{crash_desc}: {e}"))?;
            basic::sweep_list(&ctx, &mut model, st).map_err(|e| format!("{crash_desc}: {e}"))?;
            let _ = norm_meta;
        }
        // --- continuation after restart ----------------------------------------------------
        for (j, s) in prog.steps[c.victim + 1..].iter().enumerate() {
            let i = c.victim + 1 + j;
            let r = run_step(&ctx, s);
            st.eval(1);
            model.step(&ctx, s, &r.out, r.t0, r.t1).map_err(|e| format!("{crash_desc}; continuation {}: {e}", basic::describe_step(prog, i)))?;
            basic::sweep_keys(&ctx, &mut model, st, true, i).map_err(|e| format!("{crash_desc}; after continuation {}: {e}", basic::describe_step(prog, i)))?;
        }
        basic::sweep_list(&ctx, &mut model, st).map_err(|e| format!("{crash_desc}; at the end: {e}"))?;
        let cont = prog.steps.len() > c.victim + 1;
        let inside = match &c.crash {
            Crash::KillAt(g) => crashed && *g > 0,
            Crash::TornAppend(_) => crashed,
        };
        if cont {
            st.class("has_continuation");
        }
        if crashed && (inside || cont) {
            st.class("nontrivial");
            st.nontrivial(hash_of(c));
        }
        let _ = torn_n;
        st.class(if vstep.fl == Fl::Sync { "victim_sync" } else { "victim_async" });
        st.sample(|| serde_json::to_value(c).unwrap());
        Ok(())
    }
    fn health(&self, st: &Stats, _tier: Tier) -> Result<(), String> {
        let torn = *st.classes.get("torn_index_append").unwrap_or(&0);
        let newv = *st.classes.get("new_state_visible").unwrap_or(&0);
        let oldv = *st.classes.get("old_state_visible").unwrap_or(&0);
        if st.cases >= 200 && (torn == 0 || newv == 0 || oldv == 0) {
            return Err(format!("torn={torn} new_visible={newv} old_visible={oldv}: a class is starved"));
        }
        Ok(())
    }
}
