//! C05 — a key lookup returns the most recent committed entry, or absent after removal.

use super::basic::{self, OpMix, ProgCfg};
use super::{hash_of, Engine, Stats, Tier, WorkerEnv};
use crate::blob::{Algo, Blob};
use crate::exec::{run_step, Ctx};
use crate::gen::{SizeMix, WriteMix};
use crate::model::Model;
use crate::ops::*;
use proptest::prelude::*;
use serde_json::json;

pub struct C05;

fn alphabet() -> Vec<Step> {
    let long_meta = json!({"note": "x".repeat(120), "n": [1, 2, 3, {"deep": "é\t\"q\""}]});
    let w = |key: usize, blob: usize, fl: Fl, long: bool| {
        let mut s = WriteSpec::simple(Some(key), blob);
        if long {
            s.entry = WEntry::Opts;
            s.metadata = Some(long_meta.clone());
            s.time = Some("1234567".into());
            s.raw_metadata = Some(vec![0, 1, 2, 255]);
        }
        Step { op: Op::Write(s), fl }
    };
    let a = |blob: usize| AddrRef { algo: Algo::Sha256, blob };
    vec![
        w(0, 0, Fl::Sync, false),
        w(0, 1, Fl::Async, true),
        w(1, 0, Fl::Async, false),
        w(1, 2, Fl::Sync, true),
        Step {
            op: Op::IdxInsert { key: 0, fields: IdxFields { integrity: Some(a(2)), size: Some(5), time: Some("1".into()), metadata: None, raw_metadata: None } },
            fl: Fl::Sync,
        },
        Step {
            op: Op::IdxInsert {
                key: 1,
                fields: IdxFields { integrity: Some(a(1)), size: None, time: None, metadata: Some(long_meta.clone()), raw_metadata: Some(vec![9; 40]) },
            },
            fl: Fl::Async,
        },
        Step { op: Op::Remove { key: 0 }, fl: Fl::Sync },
        Step { op: Op::Remove { key: 0 }, fl: Fl::Async },
        Step { op: Op::Remove { key: 1 }, fl: Fl::Sync },
        Step { op: Op::RemoveOpts { key: 1, fully: false }, fl: Fl::Async },
        Step { op: Op::ForeignRecord { bucket_of: 0, key: 1, addr: a(2) }, fl: Fl::Sync },
        Step { op: Op::ForeignRecord { bucket_of: 1, key: 0, addr: a(1) }, fl: Fl::Sync },
        Step { op: Op::ForeignTombstone { bucket_of: 0, key: 1 }, fl: Fl::Sync },
        Step { op: Op::ForeignTombstone { bucket_of: 1, key: 0 }, fl: Fl::Sync },
    ]
}

fn small_pools() -> (Vec<String>, Vec<Blob>) {
    (
        vec!["k0".into(), "ключ\t1".into(), "k2".into()],
        vec![Blob::new(11, 1), Blob::new(40, 2), Blob::new(3, 3)],
    )
}

fn cfg(tier: Tier) -> ProgCfg {
    ProgCfg {
        mix: OpMix {
            write: 10,
            remove: 4,
            remove_fully: 1,
            idx_insert: 3,
            idx_delete: 1,
            foreign: 2,
            meta: 1,
            read: 1,
            switch_cache: 1,
            ..OpMix::NONE
        },
        wmix: WriteMix { bad_decls: false, meta: true, by_hash: false, rich_matching: false, interfere: false },
        sizes: SizeMix::Small,
        keys: (1, 8),
        blobs: (1, 5),
        max_steps: tier.pick(25, 40),
    }
}

impl Engine for C05 {
    type Case = Program;
    fn id(&self) -> &'static str {
        "C05"
    }
    fn rule(&self) -> String {
        "histories of keyed writes (one-shot / options with long metadata), raw index inserts, removals and foreign records over a small \
         alphabet, enumerated exhaustively up to the stated length, plus random histories over up to 8 hostile keys; after EVERY step every \
         key of the pool is looked up through metadata (sync+async), index::find*, read* and judged against the reference model; a sixth of the histories is mirrored step by step, with every value replaced by the pool's next one, into a second cache \
         used by the same process (judged by a model of its own: the same keys mean something else there). \
         Non-trivial = some key received >=2 records of different length, or remove then re-insert, or a foreign record sits in a looked-up bucket; \
         distinct = distinct history"
            .into()
    }
    fn assumptions(&self) -> Vec<String> {
        vec![
            "healthy filesystem (tmpfs scratch)".into(),
            "reference model semantics of DESIGN.md 4.2".into(),
            "auto timestamps are judged against the wall-clock window of the call".into(),
        ]
    }
    fn exhaustive(&self, tier: Tier) -> Vec<Program> {
        let (keys, blobs) = small_pools();
        let al = alphabet();
        let a = |blob: usize| AddrRef { algo: Algo::Sha256, blob };
        let mut out = Vec::new();
        let maxl = tier.pick(3, 4);
        fn rec(al: &[Step], cur: &mut Vec<Step>, maxl: usize, keys: &[String], blobs: &[Blob], out: &mut Vec<Program>) {
            if !cur.is_empty() {
                out.push(Program { keys: keys.to_vec(), blobs: blobs.to_vec(), steps: cur.clone() });
            }
            if cur.len() == maxl {
                return;
            }
            for s in al {
                cur.push(s.clone());
                rec(al, cur, maxl, keys, blobs, out);
                cur.pop();
            }
        }
        rec(&al, &mut Vec::new(), maxl, &keys, &blobs, &mut out);
        // bucket files whose length is exactly (or next to) a multiple of the usual 8 KiB read
        // block when the next record is appended
        for target in [8192usize, 16384, 8191, 8193, 24576, 4096, 32768, 65536, 65535, 65537, 131072, 262144, 1 << 20] {
            for variant in 0..2usize {
                let bkeys = vec!["blk".to_string(), "other".to_string()];
                let probe = crate::reffmt::Rec {
                    key: bkeys[0].clone(),
                    integrity: Some(crate::blob::sri(Algo::Sha256, &blobs[2].bytes())),
                    time: 1,
                    size: 1,
                    metadata: crate::reffmt::Json::Str(String::new()),
                    raw_metadata: None,
                };
                let base = crate::reffmt::encode_record(&probe, crate::reffmt::EmitStyle { ascii: false, reversed: false }).len();
                if target <= base {
                    continue;
                }
                let pad = "p".repeat(target - base);
                let fl = |i: usize| if (i + variant) % 2 == 0 { Fl::Sync } else { Fl::Async };
                let steps = vec![
                    Step { op: Op::IdxInsert { key: 0, fields: IdxFields { integrity: Some(a(2)), size: Some(1), time: Some("1".into()), metadata: Some(serde_json::Value::String(pad)), raw_metadata: None } }, fl: fl(0) },
                    Step { op: Op::Write(WriteSpec::simple(Some(0), 0)), fl: fl(1) },
                    Step { op: Op::Remove { key: 0 }, fl: fl(0) },
                    Step { op: Op::Write(WriteSpec::simple(Some(0), 1)), fl: fl(1) },
                    Step { op: Op::Write(WriteSpec::simple(Some(1), 1)), fl: fl(0) },
                ];
                out.push(Program { keys: bkeys, blobs: blobs.to_vec(), steps });
            }
        }
        // a record full of multi-byte characters lying across a block boundary (8 KiB, 64 KiB,
        // 2 MiB): readers that decode block by block must not split a character
        for target in [8192usize, 65536, 2 << 20, 4 << 20] {
            for d in 0..3usize {
                let bkeys = vec!["blk-ключ".to_string(), "other".to_string()];
                let probe = crate::reffmt::Rec { key: bkeys[0].clone(), integrity: Some(crate::blob::sri(Algo::Sha256, &blobs[2].bytes())), time: 1, size: 1, metadata: crate::reffmt::Json::Str(String::new()), raw_metadata: None };
                let base = crate::reffmt::encode_record(&probe, crate::reffmt::EmitStyle { ascii: false, reversed: false }).len();
                let pad = "p".repeat(target - base - 300 - d);
                let fl = |i: usize| if (i + d) % 2 == 0 { Fl::Sync } else { Fl::Async };
                let wide = |n: usize| serde_json::Value::String(["é", "日", "😀"][n % 3].repeat(400));
                let steps = vec![
                    Step { op: Op::IdxInsert { key: 0, fields: IdxFields { integrity: Some(a(2)), size: Some(1), time: Some("1".into()), metadata: Some(serde_json::Value::String(pad)), raw_metadata: None } }, fl: fl(0) },
                    Step { op: Op::IdxInsert { key: 0, fields: IdxFields { integrity: Some(a(1)), size: Some(2), time: Some("2".into()), metadata: Some(wide(d)), raw_metadata: None } }, fl: fl(1) },
                    Step { op: Op::Meta { key: 0 }, fl: Fl::Async },
                    Step { op: Op::Meta { key: 0 }, fl: Fl::Sync },
                    Step { op: Op::Remove { key: 0 }, fl: fl(0) },
                    Step { op: Op::IdxInsert { key: 0, fields: IdxFields { integrity: Some(a(0)), size: Some(3), time: Some("3".into()), metadata: Some(wide(d + 1)), raw_metadata: None } }, fl: fl(1) },
                ];
                out.push(Program { keys: bkeys, blobs: blobs.to_vec(), steps });
            }
        }
        // keys whose buckets share an index sub-directory: what happens to one must not touch the others
        {
            let nkeys = super::c09::index_neighbours();
            let n = nkeys.len();
            for victim in 0..n {
                for fully in [true, false] {
                    let mut steps: Vec<Step> = (0..n).map(|i| Step { op: Op::Write(WriteSpec::simple(Some(i), i % 3)), fl: if i % 2 == 0 { Fl::Sync } else { Fl::Async } }).collect();
                    steps.push(Step { op: Op::RemoveOpts { key: victim, fully }, fl: if victim % 2 == 0 { Fl::Async } else { Fl::Sync } });
                    steps.push(Step { op: Op::Write(WriteSpec::simple(Some(victim), 1)), fl: Fl::Sync });
                    out.push(Program { keys: nkeys.clone(), blobs: blobs.to_vec(), steps });
                }
            }
        }
        // long histories on one key: the bucket grows past 8 KiB, 64 KiB and (thorough) 1 MiB
        for (variant, nsteps) in [(0usize, tier.pick(260usize, 1500usize)), (1, tier.pick(120, 400))] {
            let lkeys = vec!["long-history".to_string(), "bystander".to_string()];
            let mut steps = vec![Step { op: Op::Write(WriteSpec::simple(Some(1), 2)), fl: Fl::Sync }];
            for i in 0..nsteps {
                let fl = if (i / 3 + variant) % 2 == 0 { Fl::Sync } else { Fl::Async };
                let op = if i % 7 == 6 {
                    Op::Remove { key: 0 }
                } else {
                    let mut w = WriteSpec::simple(Some(0), i % 3);
                    if i % 2 == variant {
                        w.entry = WEntry::Opts;
                        w.time = Some((1000 + i).to_string());
                        // record lengths vary from ~200 bytes to several KiB
                        w.metadata = Some(serde_json::Value::String("m".repeat((i * 37) % 3000)));
                        if variant == 1 && i % 10 == 1 {
                            w.raw_metadata = Some(vec![7u8; 3000]);
                        }
                    }
                    Op::Write(w)
                };
                steps.push(Step { op, fl });
            }
            out.push(Program { keys: lkeys, blobs: blobs.to_vec(), steps });
        }
        // buckets of more than 1 MiB that are deleted (full removal / clear) or tombstoned and
        // then grown again, observed ONLY at the marked points: anything a reader remembers
        // about a big bucket between two lookups is stale by the second one
        for (vi, (raw_len, n1, n2)) in [(100_000usize, 3usize, 4usize), (100_000, 4, 4), (40_000, 8, 9), (300_000, 1, 2)].into_iter().enumerate() {
            for removal in 0..3usize {
                for look in [Fl::Sync, Fl::Async] {
                    let qkeys = vec!["quiet-big-bucket".to_string(), "bystander".to_string()];
                    let mut steps = vec![Step { op: Op::Write(WriteSpec::simple(Some(1), 2)), fl: Fl::Sync }];
                    let big = |i: usize, blob: usize| {
                        let mut w = WriteSpec::simple(Some(0), blob);
                        w.entry = WEntry::Opts;
                        w.time = Some((5000 + i).to_string());
                        w.raw_metadata = Some(crate::gen::huge_raw_meta(raw_len + i, (i * 3 + vi) as u8));
                        Step { op: Op::Write(w), fl: if i % 2 == 0 { Fl::Sync } else { Fl::Async } }
                    };
                    for i in 0..n1 {
                        steps.push(big(i, i % 2));
                    }
                    steps.push(Step { op: Op::Meta { key: 0 }, fl: look });
                    steps.push(Step { op: Op::List, fl: Fl::Sync });
                    steps.push(match removal {
                        0 => Step { op: Op::RemoveOpts { key: 0, fully: true }, fl: Fl::Sync },
                        1 => Step { op: Op::Clear, fl: Fl::Async },
                        _ => Step { op: Op::Remove { key: 0 }, fl: Fl::Sync },
                    });
                    for i in 0..n2 {
                        steps.push(big(100 + i, 1 + i % 2));
                    }
                    steps.push(Step { op: Op::Meta { key: 0 }, fl: look });
                    steps.push(Step { op: Op::List, fl: Fl::Sync });
                    out.push(Program { keys: qkeys, blobs: blobs.to_vec(), steps });
                }
            }
        }
        // a streaming writer of key 0 whose key is removed (fully / by a removal record) by the
        // same process after its last chunk and before its commit, after every history of
        // length 0..=2 over a 5-symbol sub-alphabet: the commit is the most recent event
        {
            let sub: Vec<Step> = [0usize, 1, 4, 6, 10].iter().map(|&i| al[i].clone()).collect();
            let mut prefixes: Vec<Vec<Step>> = vec![vec![]];
            for a1 in &sub {
                prefixes.push(vec![a1.clone()]);
                for a2 in &sub {
                    prefixes.push(vec![a1.clone(), a2.clone()]);
                }
            }
            for (pi, pre) in prefixes.into_iter().enumerate() {
                for interfere in [Interfere::RemoveKeyFully, Interfere::RemoveKey] {
                    for fl in [Fl::Sync, Fl::Async] {
                        let mut w = WriteSpec::simple(Some(0), (pi + 1) % 3);
                        w.entry = if pi % 2 == 0 { WEntry::Opts } else { WEntry::Create };
                        w.chunks = vec![2, 3];
                        w.interfere = interfere;
                        if w.entry == WEntry::Opts && pi % 4 == 0 {
                            w.time = Some("7654321".into());
                            w.metadata = Some(json!({"after": "removal"}));
                        }
                        let mut steps = pre.clone();
                        steps.push(Step { op: Op::Write(w), fl });
                        out.push(Program { keys: keys.to_vec(), blobs: blobs.to_vec(), steps });
                    }
                }
            }
        }
        // thousands of small records on one key (whatever housekeeping is triggered by a record
        // COUNT), observed around the round numbers only
        for variant in 0..2usize {
            let total = tier.pick(2100usize, 10_100usize);
            let qkeys = vec![format!("quiet-many-records-{variant}"), "bystander".to_string()];
            let mut steps = vec![Step { op: Op::Write(WriteSpec::simple(Some(1), 2)), fl: Fl::Sync }];
            for i in 1..=total {
                let fl = if (i / 5 + variant) % 2 == 0 { Fl::Sync } else { Fl::Async };
                let op = if i % 97 == 96 {
                    Op::Remove { key: 0 }
                } else if i % 2 == variant {
                    Op::IdxInsert { key: 0, fields: IdxFields { integrity: Some(a(i % 3)), size: Some(i), time: Some((7000 + i).to_string()), metadata: None, raw_metadata: None } }
                } else {
                    Op::Write(WriteSpec::simple(Some(0), i % 3))
                };
                steps.push(Step { op, fl });
                // i records are in the bucket now
                if [255, 256, 257, 499, 500, 501, 511, 512, 513, 999, 1000, 1001, 1023, 1024, 1025, 1999, 2000, 2001, 2047, 2048, 2049, 4095, 4096, 4097, 4999, 5000, 5001, 8191, 8192, 8193, 9999, 10_000, 10_001].contains(&i) {
                    steps.push(Step { op: Op::Meta { key: 0 }, fl: if i % 2 == 0 { Fl::Sync } else { Fl::Async } });
                    steps.push(Step { op: Op::List, fl: if i % 2 == 1 { Fl::Sync } else { Fl::Async } });
                }
            }
            out.push(Program { keys: qkeys, blobs: blobs.to_vec(), steps });
        }
        if tier == Tier::Thorough {
            // length 5 over a 6-symbol sub-alphabet
            let sub: Vec<Step> = [0usize, 1, 4, 6, 7, 10].iter().map(|&i| al[i].clone()).collect();
            let mut extra = Vec::new();
            rec(&sub, &mut Vec::new(), 5, &keys, &blobs, &mut extra);
            out.extend(extra.into_iter().filter(|p| p.steps.len() == 5));
        }
        out
    }
    fn exhaustive_note(&self, tier: Tier) -> String {
        format!(
            "all histories of length 1..={} over a 14-symbol alphabet (2 keys + 1 never-written key, 3 values, sync and async); block-boundary, index-neighbour and long single-key histories; 24 histories that grow a bucket past 1 MiB, delete or tombstone it and grow it again, observed at marked points only (a sixth of all histories is mirrored, with other values, into a second cache of the same process); 248 histories ending in a streamed write whose own key is removed (fully / by a record) between its last chunk and its commit; 2 histories of thousands of small records on one key observed around round record counts{}",
            tier.pick(3, 4),
            tier.pick("", "; all length-5 histories over a 6-symbol sub-alphabet")
        )
    }
    fn random_cases(&self, tier: Tier) -> u32 {
        tier.pick(1000, 40000)
    }
    fn strategy(&self, tier: Tier) -> BoxedStrategy<Program> {
        // an eighth of the streamed keyed writes have their own key removed before the commit
        basic::program(cfg(tier))
            .prop_map(|mut p| {
                let h = hash_of(&p);
                for (i, st) in p.steps.iter_mut().enumerate() {
                    if let Op::Write(w) = &mut st.op {
                        let sel = (h >> (i % 40)) % 8;
                        if w.streamed() && w.key.is_some() && w.interfere == Interfere::None && sel == 0 {
                            w.interfere = if (h >> 50) % 2 == 0 { Interfere::RemoveKeyFully } else { Interfere::RemoveKey };
                            // (no second harness-side actor between the last chunk and the commit)
                            w.aged_hours = 0;
                            w.crowd = 0;
                            w.churn = 0;
                        }
                    }
                }
                p
            })
            .boxed()
    }
    fn run_case(&self, prog: &Program, st: &mut Stats, env: &mut WorkerEnv) -> Result<(), String> {
        env.scratch.reset();
        // the cache directory is spelled in different (equivalent) ways from case to case
        let ctx = Ctx::new(env.scratch.cache_alias(hash_of(prog) >> 3), env.scratch.scratch.clone(), &prog.keys, &prog.blobs);
        let mut model = Model::new();
        let mut records: std::collections::HashMap<usize, Vec<usize>> = Default::default();
        let mut removed: std::collections::HashSet<usize> = Default::default();
        let mut nontrivial = false;
        // a sixth of the cases: a SECOND cache used by the same process receives the same
        // history with every value replaced by the pool's next one, step by step ahead of the
        // first cache — the same keys mean something else there, and nothing about one cache
        // may show in the other
        let twin = prog.steps.len() <= 400 && (hash_of(prog) >> 17) % 6 == 0;
        let shadow_dir = env.scratch.root.join("shadow-cache");
        let shadow_scratch = env.scratch.root.join("shadow-scratch");
        let _ = std::fs::remove_dir_all(&shadow_dir);
        let _ = std::fs::remove_dir_all(&shadow_scratch);
        if twin {
            std::fs::create_dir_all(&shadow_dir).map_err(|e| format!("INFRA: {e}"))?;
            std::fs::create_dir_all(&shadow_scratch).map_err(|e| format!("INFRA: {e}"))?;
            st.class("second_cache_with_other_values_in_the_same_process");
        }
        let sctx = Ctx::new(shadow_dir.clone(), shadow_scratch.clone(), &prog.keys, &prog.blobs);
        let mut smodel = Model::new();
        let nb = prog.blobs.len().max(1);
        for (i, step) in prog.steps.iter().enumerate() {
            if twin {
                let mut sstep = step.clone();
                basic::remap_op(&mut sstep.op, &|k| k, &|b| (b + 1) % nb);
                let r = run_step(&sctx, &sstep);
                st.eval(1);
                smodel.step(&sctx, &sstep, &r.out, r.t0, r.t1).map_err(|e| format!("second cache, {}: {e}", basic::describe_step(prog, i)))?;
            }
            let r = run_step(&ctx, step);
            st.eval(1);
            model.step(&ctx, step, &r.out, r.t0, r.t1).map_err(|e| format!("{}: {e}", basic::describe_step(prog, i)))?;
            // classification
            match &step.op {
                Op::Write(w) => {
                    if let Some(k) = w.key {
                        let len = w.metadata.as_ref().map(|m| m.to_string().len()).unwrap_or(0) + w.raw_metadata.as_ref().map(|r| r.len()).unwrap_or(0);
                        let v = records.entry(k).or_default();
                        if v.iter().any(|&l| l != len) || removed.contains(&k) {
                            nontrivial = true;
                        }
                        v.push(len);
                    }
                }
                Op::IdxInsert { key, fields } => {
                    let len = fields.metadata.as_ref().map(|m| m.to_string().len()).unwrap_or(0) + 1000;
                    let v = records.entry(*key).or_default();
                    if v.iter().any(|&l| l != len) || removed.contains(key) {
                        nontrivial = true;
                    }
                    v.push(len);
                }
                Op::Remove { key } | Op::IdxDelete { key } | Op::RemoveOpts { key, .. } => {
                    removed.insert(*key);
                }
                Op::ForeignRecord { .. } | Op::ForeignTombstone { .. } => nontrivial = true,
                _ => {}
            }
            // observation frequency varies: "quiet" programs (and a third of all others) are
            // observed through their own lookup steps and one sweep at the end only — a sweep
            // after every step would refresh whatever a reader remembers between lookups
            let quiet = prog.keys[0].starts_with("quiet-") || (hash_of(prog) >> 11) % 3 == 0;
            if !quiet || i + 1 == prog.steps.len() {
                basic::sweep_keys(&ctx, &mut model, st, true, i).map_err(|e| format!("after {}: {e}", basic::describe_step(prog, i)))?;
            }
        }
        if twin {
            basic::sweep_keys(&sctx, &mut smodel, st, true, prog.steps.len()).map_err(|e| format!("second cache, at the end: {e}"))?;
            let _ = std::fs::remove_dir_all(&shadow_dir);
            let _ = std::fs::remove_dir_all(&shadow_scratch);
        }
        ctx.cache_is_same_dir()?;
        st.class(if prog.steps.iter().any(|s| matches!(s.op, Op::ForeignRecord { .. })) { "has_foreign_record" } else { "no_foreign_record" });
        if prog.steps.iter().any(|s| s.fl == Fl::Sync) && prog.steps.iter().any(|s| s.fl == Fl::Async) {
            st.class("mixed_sync_async");
        }
        if !removed.is_empty() {
            st.class("has_removal");
        }
        if nontrivial {
            st.class("nontrivial");
            st.nontrivial(hash_of(prog));
        }
        st.sample(|| super::progeng::compact_program(prog));
        Ok(())
    }
}
