//! C18 (extraction) as an instance of the program engine.

use super::basic::{OpMix, ProgCfg};
use super::progeng::*;
use super::{Stats, Tier};
use crate::blob::{Blob, ALGOS};
use crate::gen::{SizeMix, WriteMix, MIB};
use crate::ops::*;

fn c18_cfg(tier: Tier) -> ProgCfg {
    ProgCfg {
        mix: OpMix { write: 6, extract: 12, damage_content: 4, remove: 1, remove_hash: 1, ..OpMix::NONE },
        wmix: WriteMix { bad_decls: false, meta: false, by_hash: true, rich_matching: false, interfere: false },
        sizes: SizeMix::Normal,
        keys: (2, 3),
        blobs: (2, 3),
        max_steps: tier.pick(10, 20),
    }
}

fn c18_grid(tier: Tier) -> Vec<Program> {
    let lens: Vec<usize> = tier.pick(vec![0, 100, 8193, MIB + 1], vec![0, 1, 100, 1023, 1024, 1025, 8192, 8193, MIB, MIB + 1, 2 * MIB + 3]);
    let damages: Vec<Option<CDamage>> = vec![
        None,
        Some(CDamage::FlipBit(5)),
        Some(CDamage::Truncate(3)),
        Some(CDamage::Extend(vec![7])),
        Some(CDamage::OtherBlob(1)),
        Some(CDamage::Empty),
        Some(CDamage::Delete),
        Some(CDamage::SymlinkToBlob(1)),
    ];
    let keys = vec!["present".to_string(), "other".to_string(), "missing".to_string()];
    let mut out = Vec::new();
    let mut n = 0usize;
    for &len in &lens {
        for dmg in &damages {
            // the expensive sizes see fewer damage classes
            if len > 100_000 && !matches!(dmg, None | Some(CDamage::FlipBit(_)) | Some(CDamage::Truncate(_))) {
                continue;
            }
            for kind in [XKind::Copy, XKind::HardLink, XKind::Reflink] {
                for checked in [true, false] {
                    for by_key in [true, false] {
                        for fl in [Fl::Sync, Fl::Async] {
                            for dest in [Dest::Absent, Dest::Existing, Dest::OtherFs, Dest::LongName, Dest::WithSiblings, Dest::LinkOfContent, Dest::ExistingSuperset, Dest::SymlinkToContent, Dest::Directory, Dest::ExistingSameLength] {
                                n += 1;
                                if len > 100_000 && n % 3 != 0 {
                                    continue;
                                }
                                let algo = ALGOS[n % 5];
                                let blobs = vec![Blob::new(len, 11), Blob::new(33, 12)];
                                let mut w0 = WriteSpec::simple(Some(0), 0);
                                w0.entry = WEntry::OneShotAlgo;
                                w0.algo = algo;
                                let mut w1 = WriteSpec::simple(Some(1), 1);
                                w1.entry = WEntry::OneShotAlgo;
                                w1.algo = algo;
                                let addr = AddrRef { algo, blob: 0 };
                                let mut steps = vec![Step { op: Op::Write(w0), fl: Fl::Sync }, Step { op: Op::Write(w1), fl: Fl::Async }];
                                if let Some(d) = dmg {
                                    steps.push(Step { op: Op::DamageContent { addr, dmg: d.clone() }, fl: Fl::Sync });
                                }
                                let by = if by_key { By::Key(0) } else { By::Addr(addr) };
                                steps.push(Step { op: Op::Extract { kind, checked, by, dest }, fl });
                                if n % 7 == 0 {
                                    // missing key
                                    steps.push(Step { op: Op::Extract { kind, checked, by: By::Key(2), dest }, fl });
                                }
                                // every other missing key is, as text, the address of the stored value
                                let mut keys = keys.clone();
                                if n % 14 == 0 && len <= 100_000 {
                                    keys[2] = crate::blob::sri(algo, &blobs[0].bytes());
                                }
                                out.push(Program { keys, blobs, steps });
                            }
                        }
                    }
                }
            }
        }
    }
    // entries of 16 MiB and more whose tail is a long zero run (whole 64 KiB blocks of zeros):
    // every copy entry point; then an aged, bit-rotten entry (mtime long before the index entry,
    // untouched by the damage) through every checked entry point
    for (li, (len, fill)) in [((16usize << 20) + 131072, crate::blob::Fill::ZeroTail), (16 << 20, crate::blob::Fill::Zero)].into_iter().enumerate() {
        let blobs = vec![Blob { len, salt: 13, fill }, Blob::new(33, 12)];
        let addr = AddrRef { algo: crate::blob::Algo::Sha256, blob: 0 };
        let mut steps = vec![Step { op: Op::Write(WriteSpec::simple(Some(0), 0)), fl: if li == 0 { Fl::Sync } else { Fl::Async } }];
        for fl in [Fl::Sync, Fl::Async] {
            for checked in [true, false] {
                for by in [By::Key(0), By::Addr(addr)] {
                    steps.push(Step { op: Op::Extract { kind: XKind::Copy, checked, by, dest: if checked { Dest::Absent } else { Dest::Existing } }, fl });
                }
            }
        }
        out.push(Program { keys: keys.clone(), blobs, steps });
    }
    for (di, dmg) in [CDamage::FlipBit(77), CDamage::Garbage { off: 100, len: 9, salt: 3 }].into_iter().enumerate() {
        for days in [2u32, 400] {
            let blobs = vec![Blob::new(5000, 14), Blob::new(33, 12)];
            let addr = AddrRef { algo: crate::blob::Algo::Sha256, blob: 0 };
            let mut steps = vec![
                Step { op: Op::Write(WriteSpec::simple(None, 0)), fl: Fl::Sync },
                Step { op: Op::AgeCache { days }, fl: Fl::Sync },
                Step { op: Op::DamageContent { addr, dmg: dmg.clone() }, fl: Fl::Sync },
                // the index entry is made long after the content was stored (and rotted)
                Step { op: Op::IdxInsert { key: 0, fields: IdxFields { integrity: Some(addr), size: Some(5000), time: None, metadata: None, raw_metadata: None } }, fl: if di == 0 { Fl::Sync } else { Fl::Async } },
            ];
            for fl in [Fl::Sync, Fl::Async] {
                for kind in [XKind::HardLink, XKind::Copy, XKind::Reflink] {
                    for by in [By::Key(0), By::Addr(addr)] {
                        steps.push(Step { op: Op::Extract { kind, checked: true, by, dest: Dest::Absent }, fl });
                    }
                }
                steps.push(Step { op: Op::Read { key: 0 }, fl });
            }
            out.push(Program { keys: keys.clone(), blobs, steps });
        }
    }
    out
}

fn c18_classify(t: &Trace, st: &mut Stats) -> bool {
    let mut nt = false;
    let damaged = t.prog.steps.iter().any(|s| matches!(s.op, Op::DamageContent { .. } | Op::RemoveHash { .. }));
    for (s, r) in t.prog.steps.iter().zip(&t.results) {
        if let Op::Extract { kind, checked, by, dest } = &s.op {
            st.class(&format!("{kind:?}_{}_{}", if *checked { "checked" } else { "unchecked" }, if matches!(by, By::Key(_)) { "by_key" } else { "by_addr" }));
            if *dest == Dest::Existing {
                st.class("destination_exists");
            }
            if *dest == Dest::OtherFs {
                st.class("destination_on_another_filesystem");
            }
            if damaged {
                st.class("content_damaged_or_missing");
            }
            match &r.out {
                Out::Extracted { .. } => st.class("extraction_succeeded"),
                Out::ExtractErr { kind: ErrKind::Integrity, .. } => st.class("verification_failed"),
                Out::ExtractErr { kind: ErrKind::EntryNotFound, .. } => st.class("key_missing"),
                _ => st.class("extraction_io_error"),
            }
            let big = t.prog.blobs.iter().any(|b| b.len >= 1024);
            nt |= damaged || *dest != Dest::Absent || big;
        }
    }
    nt
}

pub fn c18() -> ProgEngine {
    ProgEngine {
        id: "C18",
        rule: "factor grid over data size (0 .. multi-MiB, around the 1 KiB / 8 KiB verification buffers) x every extraction entry point (copy / hard link / reflink x \
               checked / unchecked x by key / by address x sync / async) x destination {absent, existing file} x content {pristine, bit flip, truncated, extended, bytes \
               of another entry, emptied, deleted, symlink substitution} x key {present, missing}, plus random programs; oracle (reference model): pristine + Ok => \
               destination bytes == stored data and, for copies, returned count == length; missing key => EntryNotFound and an untouched destination; missing content => \
               I/O error; checked + damaged => the integrity error AND the destination afterwards does not exist or still holds exactly what it held before. \
               Non-trivial = damaged/missing content, or an existing destination, or data >= one verification buffer; distinct = distinct program",
        assumptions: &[
            "unchecked extraction of damaged content is not judged",
            "reflink success is unreachable on tmpfs/ext4: only its failure obligations (nothing left behind) run",
            "a hard link onto an existing destination fails with an I/O error (link(2) semantics)",
        ],
        cfg: c18_cfg,
        strategy: None,
        grid: c18_grid,
        grid_note: "full grid over size x damage class x kind x checked x by x flavour x destination (thinned for MiB sizes; fixed)",
        random: (1000, 40000),
        classify: c18_classify,
        sweep_every_step: false,
        deep_sweep: false,
        allow_symlinks: true,
        after_step: no_after_step,
        post: no_post,
        min_nontrivial_pct: 40,
    }
}
