//! C17 — the on-disk layout is the fixed, versioned cacache format, readable by others.

use super::basic::{self, OpMix, ProgCfg};
use super::{hash_of, Engine, Stats, Tier, WorkerEnv};
use crate::blob::{self, Algo};
use crate::exec::{run_step, sha256_hex, Ctx};
use crate::gen::{SizeMix, WriteMix};
use crate::model::{Entry, Model, TimeSpec};
use crate::ops::*;
use crate::reffmt;
use proptest::collection::vec;
use proptest::prelude::*;
use serde::{Deserialize, Serialize};
use serde_json::{json, Value};
use std::cell::RefCell;
use std::io::{BufRead, BufReader, Write};
use std::process::{Child, ChildStdin, ChildStdout, Command, Stdio};

#[derive(Clone, Debug, Serialize, Deserialize)]
pub struct Case {
    pub prog: Program,
    /// emission style of the reference writer per step: (ascii escapes, reversed field order)
    pub styles: Vec<(bool, bool)>,
}

pub struct C17;

struct Py {
    child: Child,
    stdin: ChildStdin,
    stdout: BufReader<ChildStdout>,
}

impl Drop for Py {
    fn drop(&mut self) {
        let _ = self.child.kill();
        let _ = self.child.wait();
    }
}

thread_local! {
    static PY: RefCell<Option<Py>> = const { RefCell::new(None) };
}

fn py(req: Value) -> Result<Value, String> {
    PY.with(|cell| {
        let mut g = cell.borrow_mut();
        if g.is_none() {
            let script = std::env::var("CVH_REFCACHE").unwrap_or_else(|_| "/verif/ref/refcache.py".into());
            let mut child = Command::new("python3")
                .arg(&script)
                .stdin(Stdio::piped())
                .stdout(Stdio::piped())
                .stderr(Stdio::null())
                .spawn()
                .map_err(|e| format!("INFRA: cannot start python3 {script}: {e}"))?;
            let stdin = child.stdin.take().unwrap();
            let stdout = BufReader::new(child.stdout.take().unwrap());
            *g = Some(Py { child, stdin, stdout });
        }
        let p = g.as_mut().unwrap();
        let mut text = req.to_string();
        text.push('\n');
        let r = (|| -> std::io::Result<String> {
            p.stdin.write_all(text.as_bytes())?;
            p.stdin.flush()?;
            let mut line = String::new();
            p.stdout.read_line(&mut line)?;
            Ok(line)
        })();
        match r {
            Ok(l) if !l.trim().is_empty() => {
                let v: Value = serde_json::from_str(&l).map_err(|e| format!("INFRA: reference server answered garbage: {e}"))?;
                if v["ok"] != json!(true) {
                    return Err(format!("INFRA: reference server error: {}", v["error"]));
                }
                Ok(v)
            }
            _ => {
                *g = None;
                Err("INFRA: reference server died".into())
            }
        }
    })
}

fn cfg(tier: Tier) -> ProgCfg {
    ProgCfg {
        mix: OpMix { write: 12, remove: 3, read: 1, ..OpMix::NONE },
        wmix: WriteMix { bad_decls: false, meta: true, by_hash: true, rich_matching: false, interfere: false },
        sizes: SizeMix::Small,
        keys: (1, 5),
        blobs: (1, 4),
        max_steps: tier.pick(12, 24),
    }
}

fn entry_eq_py(e: &Entry, key: &str, p: &Value) -> Result<(), String> {
    if p.is_null() {
        return Err("the reference implementation finds no entry".into());
    }
    if p["key"] != json!(key) {
        return Err(format!("key {} != {key:?}", p["key"]));
    }
    if p["integrity"] != json!(e.integrity) {
        return Err(format!("integrity {} != {:?}", p["integrity"], e.integrity));
    }
    if p["size"] != json!(e.size) {
        return Err(format!("size {} != {}", p["size"], e.size));
    }
    let t: u128 = p["time"].as_str().unwrap_or("").parse().map_err(|_| "bad time".to_string())?;
    match e.time {
        TimeSpec::Exact(x) if x != t => return Err(format!("time {t} != {x}")),
        TimeSpec::Window(a, b) if t < a || t > b => return Err(format!("time {t} outside [{a},{b}]")),
        _ => {}
    }
    if p["metadata"] != e.metadata {
        return Err(format!("metadata {} != {}", p["metadata"], e.metadata));
    }
    let raw: Option<Vec<u8>> = if p["raw_metadata"].is_null() { None } else { serde_json::from_value(p["raw_metadata"].clone()).ok() };
    if raw != e.raw_metadata {
        return Err(format!("raw_metadata {:?} != {:?}", raw, e.raw_metadata));
    }
    Ok(())
}

impl C17 {
    /// The cache the reference implementation wrote is handed to user 65533 (files world-readable,
    /// as a shared cache would be) and read by user 65534 through every read-only call, in a driver
    /// process: reading needs nothing but read permission.
    fn read_as_other_user(&self, ctx: &Ctx, model: &Model, prog: &Program, addrs: &[AddrRef], st: &mut Stats, env: &mut WorkerEnv) -> Result<(), String> {
        let chown = Command::new("chown").args(["-R", "65533:65533"]).arg(&ctx.cache).status();
        let chmod = Command::new("chmod").args(["-R", "a+rX"]).arg(&ctx.cache).status();
        if !chown.map(|s| s.success()).unwrap_or(false) || !chmod.map(|s| s.success()).unwrap_or(false) {
            st.class("other_user_unavailable");
            return Ok(());
        }
        let mut steps = Vec::new();
        for k in 0..prog.keys.len() {
            for fl in [Fl::Sync, Fl::Async] {
                steps.push(Step { op: Op::Meta { key: k }, fl });
                steps.push(Step { op: Op::Read { key: k }, fl });
                steps.push(Step { op: Op::Stream { by: By::Key(k), bufs: vec![7, 4096] }, fl });
                steps.push(Step { op: Op::IdxFind { key: k }, fl });
            }
        }
        for a in addrs {
            for fl in [Fl::Sync, Fl::Async] {
                steps.push(Step { op: Op::Exists { addr: *a }, fl });
                steps.push(Step { op: Op::ReadHash { addr: *a }, fl });
            }
        }
        if model.index_dir {
            steps.push(Step { op: Op::List, fl: Fl::Sync });
        }
        let ro = Program { keys: prog.keys.clone(), blobs: prog.blobs.clone(), steps };
        let pf = env.scratch.root.join("ro_prog.json");
        std::fs::write(&pf, serde_json::to_string(&ro).unwrap()).map_err(|e| format!("INFRA: {e}"))?;
        let of = env.scratch.root.join("ro_out.jsonl");
        let outs = match crate::sup::run_fresh_as(65534, &ctx.cache, &ctx.scratch, &pf, 0, ro.steps.len(), &of)? {
            Some(o) => o,
            None => {
                st.class("other_user_unavailable");
                return Ok(());
            }
        };
        if outs.len() != ro.steps.len() {
            return Err(format!("reader running as another user: {} of {} calls returned", outs.len(), ro.steps.len()));
        }
        let mut m = model.clone();
        for (s, (_, o, t0, t1)) in ro.steps.iter().zip(&outs) {
            st.eval(1);
            m.step(ctx, s, o, *t0, *t1).map_err(|e| format!("cache owned by another user (world-readable), read by an unprivileged user: {:?}/{:?}: {e}", s.op, s.fl))?;
        }
        st.class("read_by_another_user");
        Ok(())
    }
}

impl Engine for C17 {
    type Case = Case;
    fn id(&self) -> &'static str {
        "C17"
    }
    fn rule(&self) -> String {
        "histories of keyed and by-address writes (all metadata shapes of C11, all five algorithms, hostile and non-ASCII keys, both flavours) and removals. Direction A: the library \
         writes; an independent Python implementation of the format (ref/refcache.py, hashlib + json) validates the layout (every index file at the SHA-1 path of the keys it holds, \
         record grammar with exactly the six fields, content files at content-v2/<algo>/<2>/<2>/<rest> hashing to their name), and its lookup / read / listing of every key must equal \
         the library's and the model's; the Rust and Python codecs must decode every bucket identically. Direction B: the Python implementation writes the same history (alternating \
         ensure_ascii and field order) into a fresh cache and the library's metadata*, index::find*, read*, exists*, read_hash* and list_sync must return exactly what was written. \
         Non-trivial = a bucket with >=2 records, or a tombstone, or a non-ASCII key, or a non-SHA-256 algorithm; distinct = distinct history"
            .into()
    }
    fn assumptions(&self) -> Vec<String> {
        vec![
            "CPython's hashlib and json as the independent implementation; it cannot compute XXH3, so for xxh3 entries it takes the digest from the harness when writing and skips content verification when reading".into(),
            "python3 is on PATH (present in the sandbox)".into(),
        ]
    }
    fn exhaustive(&self, _tier: Tier) -> Vec<Case> {
        // one index record of more than 2 MiB (600 KB of raw metadata spelled as a JSON array),
        // written through each flavour, next to ordinary records
        let mut out = Vec::new();
        for fl in [Fl::Sync, Fl::Async] {
            let mut s = WriteSpec::simple(Some(0), 0);
            s.entry = WEntry::Opts;
            s.raw_metadata = Some(crate::gen::huge_raw_meta(612_345, 3));
            s.time = Some("4242".into());
            let steps = vec![
                Step { op: Op::Write(WriteSpec::simple(Some(1), 1)), fl },
                Step { op: Op::Write(s), fl },
                Step { op: Op::Write(WriteSpec::simple(Some(1), 0)), fl },
            ];
            out.push(Case {
                prog: Program { keys: vec!["huge-record-ключ".into(), "small".into()], blobs: vec![crate::blob::Blob::new(4, 1), crate::blob::Blob::new(6, 2)], steps },
                styles: vec![(false, false), (true, true), (false, true)],
            });
        }
        out
    }
    fn exhaustive_note(&self, _tier: Tier) -> String {
        "fixed family: an index record larger than 2 MiB written through each flavour (and by the reference implementation) next to ordinary records".into()
    }
    fn random_cases(&self, tier: Tier) -> u32 {
        tier.pick(1500, 20000)
    }
    fn strategy(&self, tier: Tier) -> BoxedStrategy<Case> {
        (basic::program(cfg(tier)), vec((any::<bool>(), any::<bool>()), 24)).prop_map(|(prog, styles)| Case { prog, styles }).boxed()
    }
    fn max_shrink_iters(&self) -> u32 {
        800
    }
    fn run_case(&self, c: &Case, st: &mut Stats, env: &mut WorkerEnv) -> Result<(), String> {
        let prog = &c.prog;
        let addrs = basic::addr_universe(prog);
        // ------------------------------ direction A: library writes -----------------------
        env.scratch.reset();
        let ctx = Ctx::new(env.scratch.cache.clone(), env.scratch.scratch.clone(), &prog.keys, &prog.blobs);
        let cache_s = ctx.cache.to_string_lossy().to_string();
        let mut model = Model::new();
        let mut per_key: std::collections::HashMap<usize, usize> = Default::default();
        let mut tomb = false;
        let mut non_sha256 = false;
        for (i, s) in prog.steps.iter().enumerate() {
            let r = run_step(&ctx, s);
            st.eval(1);
            model.step(&ctx, s, &r.out, r.t0, r.t1).map_err(|e| format!("library execution, {}: {e}", basic::describe_step(prog, i)))?;
            match &s.op {
                Op::Write(w) => {
                    if let Some(k) = w.key {
                        *per_key.entry(k).or_insert(0) += 1;
                    }
                    if !matches!(w.entry, WEntry::OneShot | WEntry::Create) && w.algo != Algo::Sha256 {
                        non_sha256 = true;
                    }
                }
                Op::Remove { key } => {
                    tomb = true;
                    *per_key.entry(*key).or_insert(0) += 1;
                }
                _ => {}
            }
        }
        crate::rt::quiesce();
        let lay = py(json!({"cmd": "layout", "cache": cache_s}))?;
        st.eval(1);
        let problems = lay["problems"].as_array().cloned().unwrap_or_default();
        if !problems.is_empty() {
            return Err(format!("the independent implementation rejects the layout the library wrote: {problems:?}"));
        }
        for (k, key) in prog.keys.iter().enumerate() {
            let got = py(json!({"cmd": "lookup", "cache": cache_s, "key": key}))?;
            st.eval(1);
            match (model.entry(key), &got["entry"]) {
                (None, Value::Null) => {}
                (Some(e), p) => entry_eq_py(e, key, p).map_err(|x| format!("key {key:?}: the independent reader disagrees with what the library wrote: {x}"))?,
                (None, p) => return Err(format!("key {key:?}: the independent reader finds {p} but the key is absent")),
            }
            if let Some(e) = model.entry(key) {
                let rd = py(json!({"cmd": "read", "cache": cache_s, "key": key}))?;
                st.eval(1);
                let a = blob::sri_address(&e.integrity).ok_or("model: bad integrity")?;
                if let crate::model::ReadExp::Bytes(b) = model.read_exp(&a) {
                    if rd["len"] != json!(b.len()) || rd["sha256"] != json!(sha256_hex(&b)) || rd["verified"] == json!(false) {
                        return Err(format!("key {key:?}: the independent reader gets {rd} where the stored data has {} bytes sha256={}", b.len(), sha256_hex(&b)));
                    }
                }
            }
            let _ = k;
        }
        let lst = py(json!({"cmd": "list", "cache": cache_s}))?;
        st.eval(1);
        let ents = lst["entries"].as_array().cloned().unwrap_or_default();
        let live: Vec<(&String, &Entry)> = model.index.iter().filter_map(|(k, v)| v.entry.as_ref().map(|e| (k, e))).collect();
        if ents.len() != live.len() {
            return Err(format!("the independent listing has {} entries, {} are live", ents.len(), live.len()));
        }
        let mut sorted = ents.clone();
        sorted.sort_by(|a, b| a["key"].as_str().unwrap_or("").cmp(b["key"].as_str().unwrap_or("")));
        for ((k, e), p) in live.iter().zip(&sorted) {
            entry_eq_py(e, k, p).map_err(|x| format!("independent listing, key {k:?}: {x}"))?;
        }
        // the two reference codecs agree on every bucket
        let parsed = py(json!({"cmd": "parse", "cache": cache_s}))?;
        for (rel, ft) in reffmt::walk_files(&ctx.cache.join("index-v5")) {
            if !ft.is_file() {
                continue;
            }
            let bytes = std::fs::read(ctx.cache.join("index-v5").join(&rel)).unwrap_or_default();
            let mine = reffmt::parse_bucket(&bytes);
            let theirs = parsed["buckets"][&rel].as_array().cloned().unwrap_or_default();
            st.eval(1);
            if mine.len() != theirs.len() {
                return Err(format!("HARNESS: the Rust and Python reference readers decode bucket {rel} to {} vs {} records", mine.len(), theirs.len()));
            }
            for (a, b) in mine.iter().zip(&theirs) {
                let same = json!(a.key) == b["key"]
                    && json!(a.integrity) == b["integrity"]
                    && json!(a.time.to_string()) == b["time"]
                    && json!(a.size as u64) == b["size"]
                    && crate::model::json_to_value(&a.metadata) == b["metadata"]
                    && json!(a.raw_metadata) == b["raw_metadata"];
                if !same {
                    return Err(format!("HARNESS: the Rust and Python reference readers disagree on a record of bucket {rel}: {a:?} vs {b}"));
                }
            }
            // and the file sits exactly at the SHA-1 path of the keys it contains
            for r in &mine {
                if reffmt::bucket_rel(&r.key) != format!("index-v5/{rel}") {
                    return Err(format!("record for key {:?} sits in index-v5/{rel}, its SHA-1 path is {}", r.key, reffmt::bucket_rel(&r.key)));
                }
            }
        }
        // ------------------------------ direction B: reference writes ---------------------
        env.scratch.reset();
        let ctx = Ctx::new(env.scratch.cache.clone(), env.scratch.scratch.clone(), &prog.keys, &prog.blobs);
        let mut model = Model::new();
        let mut wrote = 0;
        for (i, s) in prog.steps.iter().enumerate() {
            let (ascii, reversed) = c.styles.get(i).copied().unwrap_or((false, false));
            let style = json!({"ascii": ascii, "reversed": reversed});
            match &s.op {
                Op::Write(w) => {
                    let data = ctx.blob(w.blob);
                    let algo = if matches!(w.entry, WEntry::OneShot | WEntry::Create) { Algo::Sha256 } else { w.algo };
                    let df = ctx.scratch.join(format!("data_{i}"));
                    std::fs::write(&df, &data[..]).map_err(|e| format!("INFRA: {e}"))?;
                    let opts = w.entry == WEntry::Opts;
                    let time: u128 = if opts { w.time_u128().unwrap_or(1000 + i as u128) } else { 1000 + i as u128 };
                    let size = data.len();
                    let metadata = if opts { w.metadata.clone().unwrap_or(Value::Null) } else { Value::Null };
                    let raw = if opts { w.raw_metadata.clone() } else { None };
                    let res = py(json!({
                        "cmd": "write_entry", "cache": ctx.cache, "key": w.key.map(|k| ctx.key(k)), "data_path": df, "algo": algo.name(),
                        "digest_hex": blob::hexs(&blob::digest_raw(algo, &data)), "time": time.to_string(), "size": size,
                        "metadata": metadata, "raw_metadata": raw, "style": style,
                    }))?;
                    let sri = blob::sri(algo, &data);
                    if res["integrity"] != json!(sri) {
                        return Err(format!("HARNESS: python computed {} , the model digest is {sri}", res["integrity"]));
                    }
                    let a = Model::addr_of(&ctx, AddrRef { algo, blob: w.blob });
                    model.adopt_content(&ctx, &a);
                    if let Some(k) = w.key {
                        model.set_entry(ctx.key(k), Some(Entry { integrity: sri.clone(), size: size as u64, time: TimeSpec::Exact(time), metadata: metadata.clone(), raw_metadata: raw.clone() }));
                        // every third keyed entry is recorded once more the way other writers spell
                        // a two-hash integrity: the WEAKER hash first (the strongest one addresses
                        // the content, whatever the order in the text)
                        if let (Some(weak), true) = (crate::exec::weaker_algo(algo), i % 3 == 0) {
                            let text = format!("{} {}", blob::sri(weak, &data), sri);
                            let time2 = if time == u128::MAX { time - 1 } else { time + 1 };
                            let rec = reffmt::Rec { key: ctx.key(k).to_string(), integrity: Some(text.clone()), time: time2, size: size as u128, metadata: reffmt::Json::from_value(&metadata), raw_metadata: raw.clone() };
                            let bucket = reffmt::bucket_path(&ctx.cache, ctx.key(k));
                            let mut f = std::fs::OpenOptions::new().append(true).open(&bucket).map_err(|e| format!("INFRA: {e}"))?;
                            f.write_all(&reffmt::encode_record(&rec, reffmt::EmitStyle { ascii, reversed })).map_err(|e| format!("INFRA: {e}"))?;
                            model.set_entry(ctx.key(k), Some(Entry { integrity: blob::sri_canon(&text).unwrap(), size: size as u64, time: TimeSpec::Exact(time2), metadata, raw_metadata: raw }));
                            st.class("two_hash_integrity_weaker_first");
                        }
                    }
                    wrote += 1;
                }
                Op::Remove { key } => {
                    py(json!({"cmd": "remove", "cache": ctx.cache, "key": ctx.key(*key), "style": style}))?;
                    model.set_entry(ctx.key(*key), None);
                }
                _ => {}
            }
        }
        basic::sweep_keys(&ctx, &mut model, st, true, 0).map_err(|e| format!("cache written by the independent implementation: {e}"))?;
        basic::sweep_addrs(&ctx, &mut model, st, &addrs, 0).map_err(|e| format!("cache written by the independent implementation: {e}"))?;
        if model.index_dir {
            basic::sweep_list(&ctx, &mut model, st).map_err(|e| format!("cache written by the independent implementation: {e}"))?;
        }
        // streams too
        for k in 0..prog.keys.len() {
            for fl in [Fl::Sync, Fl::Async] {
                let s = Step { op: Op::Stream { by: By::Key(k), bufs: vec![5] }, fl };
                let r = run_step(&ctx, &s);
                st.eval(1);
                model.step(&ctx, &s, &r.out, r.t0, r.t1).map_err(|e| format!("cache written by the independent implementation: {e}"))?;
            }
        }
        basic::content_invariant(&ctx, &model, false).map_err(|e| format!("cache written by the independent implementation: {e}"))?;
        // ---- the same cache, owned by one user and read by another (unprivileged) one ----
        if (hash_of(c) >> 9) % 3 == 0 && wrote > 0 {
            self.read_as_other_user(&ctx, &model, prog, &addrs, st, env)?;
        }
        let multi = per_key.values().any(|&n| n >= 2);
        let non_ascii = prog.keys.iter().any(|k| !k.is_ascii());
        if multi {
            st.class("bucket_with_several_records");
        }
        if tomb {
            st.class("has_tombstone");
        }
        if non_ascii {
            st.class("non_ascii_key");
        }
        if non_sha256 {
            st.class("non_sha256_algorithm");
        }
        if wrote > 0 && (multi || tomb || non_ascii || non_sha256) {
            st.class("nontrivial");
            st.nontrivial(hash_of(c));
        }
        st.sample(|| super::progeng::compact_program(prog));
        Ok(())
    }
    fn health(&self, st: &Stats, _tier: Tier) -> Result<(), String> {
        let nt = *st.classes.get("nontrivial").unwrap_or(&0);
        if st.cases >= 100 && nt * 2 < st.cases {
            return Err(format!("only {nt} of {} histories are non-trivial", st.cases));
        }
        Ok(())
    }
}
