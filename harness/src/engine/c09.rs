//! C09 — removals remove exactly what they name and nothing else.

use super::basic::{self, OpMix, ProgCfg};
use super::{hash_of, Engine, Stats, Tier, WorkerEnv};
use crate::exec::{run_step, Ctx};
use crate::gen::{SizeMix, WriteMix};
use crate::model::Model;
use crate::ops::*;
use proptest::prelude::*;

pub struct C09;

fn cfg(tier: Tier) -> ProgCfg {
    ProgCfg {
        mix: OpMix {
            write: 14,
            remove: 4,
            remove_hash: 3,
            remove_fully: 4,
            clear: 1,
            idx_delete: 1,
            read: 1,
            list: 1,
            ..OpMix::NONE
        },
        wmix: WriteMix { bad_decls: false, meta: false, by_hash: true },
        sizes: SizeMix::Small,
        keys: (2, 10),
        blobs: (1, 6),
        max_steps: tier.pick(25, 80),
    }
}

fn is_removal(op: &Op) -> bool {
    matches!(op, Op::Remove { .. } | Op::RemoveHash { .. } | Op::RemoveOpts { .. } | Op::Clear | Op::IdxDelete { .. })
}

impl Engine for C09 {
    type Case = Program;
    fn id(&self) -> &'static str {
        "C09"
    }
    fn rule(&self) -> String {
        "model-based histories over <=10 keys and <=6 values (several keys share one content file) mixing writes with remove, remove_hash, \
         RemoveOpts::remove_fully(true/false) and clear through sync and async entry points; after EVERY removal a full sweep: metadata*, \
         read*, index::find* of every key, list_sync, exists*/read_hash* of every address ever named, all compared with the model, plus the \
         content-tree validity predicate; after clear the directory must be empty. Non-trivial = a removal executed while >=2 other live \
         entries or content files exist; distinct = distinct history"
            .into()
    }
    fn assumptions(&self) -> Vec<String> {
        vec![
            "healthy filesystem (tmpfs scratch)".into(),
            "remove_fully / clear follow their documented multi-step behaviour (DESIGN.md 4.2): full removal of a key whose content file is already gone is an error that changes nothing".into(),
        ]
    }
    fn random_cases(&self, tier: Tier) -> u32 {
        tier.pick(1500, 40000)
    }
    fn strategy(&self, tier: Tier) -> BoxedStrategy<Program> {
        basic::program(cfg(tier))
    }
    fn run_case(&self, prog: &Program, st: &mut Stats, env: &mut WorkerEnv) -> Result<(), String> {
        env.scratch.reset();
        let ctx = Ctx::new(env.scratch.cache.clone(), env.scratch.scratch.clone(), &prog.keys, &prog.blobs);
        let mut model = Model::new();
        let addrs = basic::addr_universe(prog);
        let mut nontrivial = false;
        let mut removed_keys: std::collections::HashSet<usize> = Default::default();
        for (i, step) in prog.steps.iter().enumerate() {
            let removal = is_removal(&step.op);
            if removal {
                let others = model.live_keys().len() + model.content.len();
                if others >= 3 {
                    nontrivial = true;
                }
                // sub-classes
                match &step.op {
                    Op::Remove { key } | Op::RemoveOpts { key, .. } | Op::IdxDelete { key } => {
                        let k = ctx.key(*key);
                        if !model.index.contains_key(k) {
                            st.class("removal_of_never_written_key");
                        } else if model.entry(k).is_none() {
                            st.class("double_removal");
                        } else if let Some(e) = model.entry(k) {
                            let shared = model.index.values().filter(|v| v.entry.as_ref().map(|x| x.integrity == e.integrity).unwrap_or(false)).count();
                            if shared >= 2 {
                                st.class("removal_with_shared_content");
                            }
                        }
                        removed_keys.insert(*key);
                    }
                    Op::RemoveHash { .. } => st.class("remove_hash"),
                    Op::Clear => st.class("clear"),
                    _ => {}
                }
            }
            let r = run_step(&ctx, step);
            st.eval(1);
            model.step(&ctx, step, &r.out, r.t0, r.t1).map_err(|e| format!("{}: {e}", basic::describe_step(prog, i)))?;
            if removal || i + 1 == prog.steps.len() {
                let after = |e: String| format!("after {}: {e}", basic::describe_step(prog, i));
                basic::sweep_keys(&ctx, &mut model, st, true, i).map_err(after)?;
                basic::sweep_addrs(&ctx, &mut model, st, &addrs, i).map_err(after)?;
                basic::sweep_list(&ctx, &mut model, st).map_err(after)?;
                basic::content_invariant(&ctx, &model, false).map_err(after)?;
                st.eval(1);
            }
        }
        if nontrivial {
            st.class("nontrivial");
            st.nontrivial(hash_of(prog));
        }
        st.sample(|| serde_json::to_value(prog).unwrap());
        Ok(())
    }
    fn health(&self, st: &Stats, _tier: Tier) -> Result<(), String> {
        let nt = *st.classes.get("nontrivial").unwrap_or(&0);
        if st.cases >= 200 && nt * 4 < st.cases {
            return Err(format!("only {nt} of {} histories are non-trivial", st.cases));
        }
        Ok(())
    }
}
