//! C09 — removals remove exactly what they name and nothing else.

use super::basic::{self, OpMix, ProgCfg};
use super::{hash_of, Engine, Stats, Tier, WorkerEnv};
use crate::exec::{run_step, Ctx};
use crate::gen::{SizeMix, WriteMix};
use crate::model::Model;
use crate::ops::*;
use proptest::prelude::*;

pub struct C09;

fn cfg(tier: Tier) -> ProgCfg {
    ProgCfg {
        mix: OpMix {
            write: 14,
            remove: 4,
            remove_hash: 3,
            remove_fully: 4,
            clear: 1,
            idx_delete: 1,
            read: 1,
            list: 1,
            switch_cache: 1,
            ..OpMix::NONE
        },
        wmix: WriteMix { bad_decls: false, meta: true, by_hash: true, rich_matching: false, interfere: false },
        sizes: SizeMix::Small,
        keys: (2, 10),
        blobs: (1, 6),
        max_steps: tier.pick(25, 80),
    }
}

fn is_removal(op: &Op) -> bool {
    matches!(op, Op::Remove { .. } | Op::RemoveHash { .. } | Op::RemoveOpts { .. } | Op::Clear | Op::IdxDelete { .. })
}

impl Engine for C09 {
    type Case = Program;
    fn id(&self) -> &'static str {
        "C09"
    }
    fn rule(&self) -> String {
        "model-based histories over <=10 keys and <=6 values (several keys share one content file) mixing writes with remove, remove_hash, \
         RemoveOpts::remove_fully(true/false) and clear through sync and async entry points; after EVERY removal a full sweep: metadata*, \
         read*, index::find* of every key, list_sync, exists*/read_hash* of every address ever named, all compared with the model, plus the \
         content-tree validity predicate; after clear the directory must be empty. Non-trivial = a removal executed while >=2 other live \
         entries or content files exist; distinct = distinct history"
            .into()
    }
    fn assumptions(&self) -> Vec<String> {
        vec![
            "healthy filesystem (tmpfs scratch)".into(),
            "remove_fully / clear follow their documented multi-step behaviour (DESIGN.md 4.2): full removal of a key whose content file is already gone is an error that changes nothing".into(),
        ]
    }
    fn exhaustive(&self, tier: Tier) -> Vec<Program> {
        let mut v = neighbour_family(tier);
        v.extend(recycled_family());
        v
    }
    fn exhaustive_note(&self, _tier: Tier) -> String {
        "fixed family (not exhaustive): values whose digests share the first byte, and the first two bytes, of their hex address (same content sub-directories), under SHA-256 and SHA-1; every removal kind applied to one of them in both flavours".into()
    }
    fn random_cases(&self, tier: Tier) -> u32 {
        tier.pick(1500, 40000)
    }
    fn strategy(&self, tier: Tier) -> BoxedStrategy<Program> {
        basic::program(cfg(tier))
    }
    fn run_case(&self, prog: &Program, st: &mut Stats, env: &mut WorkerEnv) -> Result<(), String> {
        env.scratch.reset();
        // the "recycled" family: the cache lives on the disk filesystem (where a deleted file's
        // inode number is handed out again at once) and nobody looks between the steps
        let recycled = prog.keys.first().map(|k| k.starts_with(RECYCLED)).unwrap_or(false);
        let disk_cache = crate::exec::other_fs_dir(&env.scratch.scratch).join("recycled-cache");
        if recycled {
            let _ = std::fs::remove_dir_all(&disk_cache);
            std::fs::create_dir_all(&disk_cache).map_err(|e| format!("INFRA: {e}"))?;
            st.class("cache_on_the_disk_filesystem_no_looks_between_steps");
        }
        struct Rm(Option<std::path::PathBuf>);
        impl Drop for Rm {
            fn drop(&mut self) {
                if let Some(p) = &self.0 {
                    let _ = std::fs::remove_dir_all(p);
                }
            }
        }
        let _rm = Rm(if recycled { Some(disk_cache.clone()) } else { None });
        // the cache directory is spelled in different (equivalent) ways from case to case
        let ctx = Ctx::new(if recycled { disk_cache.clone() } else { env.scratch.cache_alias(hash_of(prog) >> 3) }, env.scratch.scratch.clone(), &prog.keys, &prog.blobs);
        let mut model = Model::new();
        let addrs = basic::addr_universe(prog);
        let mut nontrivial = false;
        let mut removed_keys: std::collections::HashSet<usize> = Default::default();
        for (i, step) in prog.steps.iter().enumerate() {
            let removal = is_removal(&step.op);
            if removal {
                let others = model.live_keys().len() + model.content.len();
                if others >= 3 {
                    nontrivial = true;
                }
                // sub-classes
                match &step.op {
                    Op::Remove { key } | Op::RemoveOpts { key, .. } | Op::IdxDelete { key } => {
                        let k = ctx.key(*key);
                        if !model.index.contains_key(k) {
                            st.class("removal_of_never_written_key");
                        } else if model.entry(k).is_none() {
                            st.class("double_removal");
                        } else if let Some(e) = model.entry(k) {
                            let shared = model.index.values().filter(|v| v.entry.as_ref().map(|x| x.integrity == e.integrity).unwrap_or(false)).count();
                            if shared >= 2 {
                                st.class("removal_with_shared_content");
                            }
                        }
                        removed_keys.insert(*key);
                    }
                    Op::RemoveHash { .. } => st.class("remove_hash"),
                    Op::Clear => st.class("clear"),
                    _ => {}
                }
            }
            let r = run_step(&ctx, step);
            st.eval(1);
            model.step(&ctx, step, &r.out, r.t0, r.t1).map_err(|e| format!("{}: {e}", basic::describe_step(prog, i)))?;
            if (removal && !recycled) || i + 1 == prog.steps.len() {
                let after = |e: String| format!("after {}: {e}", basic::describe_step(prog, i));
                basic::sweep_keys(&ctx, &mut model, st, true, i).map_err(after)?;
                basic::sweep_addrs(&ctx, &mut model, st, &addrs, i).map_err(after)?;
                basic::sweep_list(&ctx, &mut model, st).map_err(after)?;
                basic::content_invariant(&ctx, &model, false).map_err(after)?;
                st.eval(1);
            }
        }
        if nontrivial {
            st.class("nontrivial");
            st.nontrivial(hash_of(prog));
        }
        st.sample(|| serde_json::to_value(prog).unwrap());
        Ok(())
    }
    fn health(&self, st: &Stats, _tier: Tier) -> Result<(), String> {
        let nt = *st.classes.get("nontrivial").unwrap_or(&0);
        if st.cases >= 200 && nt * 4 < st.cases {
            return Err(format!("only {nt} of {} histories are non-trivial", st.cases));
        }
        Ok(())
    }
}

const RECYCLED: &str = "recycled-bucket";

/// write, look, remove everything (clear / full removal), write the same key again with a record
/// of exactly the same length, look: whatever was remembered about the first bucket file (by
/// path, length, inode number) describes the second one too — and is stale.
fn recycled_family() -> Vec<Program> {
    use crate::blob::Blob;
    let mut out = Vec::new();
    for v in 0..12usize {
        let keys = vec![format!("{RECYCLED}-{}", v % 3), "other".to_string()];
        let blobs = vec![Blob::new(40, 1 + v as u64), Blob::new(40, 100 + v as u64)];
        let fl = |n: usize| if (v + n) % 2 == 0 { Fl::Sync } else { Fl::Async };
        let wr = |blob: usize, time: &str, g: u32| {
            let mut w = WriteSpec::simple(Some(0), blob);
            w.entry = WEntry::Opts;
            w.time = Some(time.to_string());
            w.metadata = Some(serde_json::json!({ "g": g }));
            w.raw_metadata = Some(vec![g as u8; 3]);
            Op::Write(w)
        };
        let mut steps = vec![Step { op: wr(0, "1000", 1), fl: fl(0) }];
        for n in 0..3 {
            steps.push(Step { op: [Op::Meta { key: 0 }, Op::List, Op::Read { key: 0 }][(v + n) % 3].clone(), fl: if n == 2 { fl(1) } else { Fl::Sync } });
        }
        steps.push(Step { op: if v % 4 == 3 { Op::RemoveOpts { key: 0, fully: true } } else { Op::Clear }, fl: fl(2) });
        steps.push(Step { op: wr(1, "2000", 2), fl: fl(3) });
        steps.push(Step { op: Op::Meta { key: 0 }, fl: Fl::Sync });
        steps.push(Step { op: Op::Meta { key: 0 }, fl: Fl::Async });
        steps.push(Step { op: Op::Read { key: 0 }, fl: Fl::Sync });
        out.push(Program { keys, blobs, steps });
    }
    out
}

/// A value of `len` bytes whose content file (under `algo`) lives in the same
/// `content-v2/<algo>/<aa>/<bb>` directory as the content file of `of`. Memoised.
pub fn content_dir_neighbour(algo: crate::blob::Algo, of: &crate::blob::Blob, len: usize) -> crate::blob::Blob {
    use crate::blob::{digest_raw, Blob};
    use std::sync::{Mutex, OnceLock};
    static MEMO: OnceLock<Mutex<std::collections::HashMap<(String, usize, u64, usize), u64>>> = OnceLock::new();
    let memo = MEMO.get_or_init(Default::default);
    let id = (format!("{algo:?}/{:?}", of.fill), of.len, of.salt, len);
    if let Some(s) = memo.lock().unwrap().get(&id) {
        return Blob::new(len, *s);
    }
    let d0 = digest_raw(algo, &of.bytes());
    let mut found = 9_000_000u64;
    for salt in 1_000_000u64..4_000_000 {
        let b = Blob::new(len, salt);
        let d = digest_raw(algo, &b.bytes());
        if d[0] == d0[0] && d[1] == d0[1] && b.bytes() != of.bytes() {
            found = salt;
            break;
        }
    }
    memo.lock().unwrap().insert(id, found);
    Blob::new(len, found)
}

/// Values whose content files are directory neighbours: b0/b1 share the first digest byte
/// (same `<aa>` directory, different `<bb>`), b0/b2 share the first two (same `<aa>/<bb>`).
pub fn neighbours(algo: crate::blob::Algo) -> Vec<crate::blob::Blob> {
    use crate::blob::{digest_raw, Blob};
    let base = Blob::new(6, 1);
    let d0 = digest_raw(algo, &base.bytes());
    let mut same1 = None;
    let mut same2 = None;
    let mut salt = 2u64;
    while same1.is_none() || same2.is_none() {
        let b = Blob::new(6, salt);
        let d = digest_raw(algo, &b.bytes());
        if d[0] == d0[0] && d[1] != d0[1] && same1.is_none() {
            same1 = Some(b.clone());
        }
        if d[0] == d0[0] && d[1] == d0[1] && same2.is_none() {
            same2 = Some(b);
        }
        salt += 1;
        if salt > 3_000_000 {
            break;
        }
    }
    let mut v = vec![base];
    v.extend(same1);
    v.extend(same2);
    v.push(Blob::new(9, 7_000_001));
    v
}

/// A key `<stem>-<n>` whose bucket file lives in the same `index-v5/<aa>/<bb>` directory as the
/// bucket of `of` (the first two bytes of the SHA-1 agree). Memoised.
pub fn bucket_dir_neighbour(of: &str, stem: &str) -> String {
    use std::sync::{Mutex, OnceLock};
    static MEMO: OnceLock<Mutex<std::collections::HashMap<(String, String), String>>> = OnceLock::new();
    let memo = MEMO.get_or_init(Default::default);
    if let Some(k) = memo.lock().unwrap().get(&(of.to_string(), stem.to_string())) {
        return k.clone();
    }
    let h0 = crate::reffmt::sha1_hex(of.as_bytes());
    let mut found = format!("{stem}-none");
    for i in 0..3_000_000u32 {
        let k = format!("{stem}-{i}");
        if k != of && crate::reffmt::sha1_hex(k.as_bytes())[..4] == h0[..4] {
            found = k;
            break;
        }
    }
    memo.lock().unwrap().insert((of.to_string(), stem.to_string()), found.clone());
    found
}

/// Keys whose index buckets are directory neighbours: k0/k1 share the first two bytes of their
/// SHA-1 (same `index-v5/<aa>/<bb>` directory), k0/k2 only the first byte.
pub fn index_neighbours() -> Vec<String> {
    let base = "neighbour-0".to_string();
    let h0 = crate::reffmt::sha1_hex(base.as_bytes());
    let mut same2 = None;
    let mut same1 = None;
    for i in 1..400_000u32 {
        let k = format!("neighbour-{i}");
        let h = crate::reffmt::sha1_hex(k.as_bytes());
        if h[..4] == h0[..4] && same2.is_none() {
            same2 = Some(k.clone());
        }
        if h[..2] == h0[..2] && h[2..4] != h0[2..4] && same1.is_none() {
            same1 = Some(k);
        }
        if same1.is_some() && same2.is_some() {
            break;
        }
    }
    let mut v = vec![base];
    v.extend(same2);
    v.extend(same1);
    v.push("far-away".into());
    v
}

fn neighbour_family(tier: Tier) -> Vec<Program> {
    use crate::blob::Algo;
    let mut out = Vec::new();
    // keys of several KiB that share a long prefix and their length (whatever is derived from a
    // key is derived from all of it): full removal of one leaves the other
    {
        let prefix = "p".repeat(1500);
        let keys = vec![format!("{prefix}{}", "a".repeat(500)), format!("{prefix}{}", "b".repeat(500)), format!("{prefix}{}c", "a".repeat(499)), "short".to_string()];
        let blobs = vec![crate::blob::Blob::new(6, 1), crate::blob::Blob::new(7, 2)];
        for victim in 0..3usize {
            for fl in [Fl::Sync, Fl::Async] {
                for fully in [true, false] {
                    let mut steps: Vec<Step> = (0..4).map(|i| Step { op: Op::Write(WriteSpec::simple(Some(i), i % 2)), fl: if i % 2 == 0 { Fl::Sync } else { Fl::Async } }).collect();
                    steps.push(Step { op: Op::RemoveOpts { key: victim, fully }, fl });
                    steps.push(Step { op: Op::Write(WriteSpec::simple(Some((victim + 1) % 3), 1)), fl });
                    out.push(Program { keys: keys.clone(), blobs: blobs.clone(), steps });
                }
            }
        }
    }
    // caches that only ever saw by-address writes (no index directory): clear empties them too;
    // and the second clear of a history
    for fl in [Fl::Sync, Fl::Async] {
        let keys = vec!["k".to_string(), "other".to_string()];
        let blobs = vec![crate::blob::Blob::new(6, 1), crate::blob::Blob::new(7, 2)];
        let wh = |b: usize, fl: Fl| Step { op: Op::Write(WriteSpec::simple(None, b)), fl };
        let a = |b: usize| AddrRef { algo: Algo::Sha256, blob: b };
        out.push(Program { keys: keys.clone(), blobs: blobs.clone(), steps: vec![wh(0, fl), wh(1, Fl::Sync), Step { op: Op::Clear, fl }, Step { op: Op::Exists { addr: a(0) }, fl }, Step { op: Op::ReadHash { addr: a(1) }, fl }] });
        out.push(Program {
            keys: keys.clone(),
            blobs: blobs.clone(),
            steps: vec![Step { op: Op::Write(WriteSpec::simple(Some(0), 0)), fl }, Step { op: Op::Clear, fl }, wh(1, fl), Step { op: Op::Clear, fl: Fl::Sync }, Step { op: Op::ReadHash { addr: a(1) }, fl }, Step { op: Op::Clear, fl }, Step { op: Op::Clear, fl }],
        });
    }
    // index-directory neighbours: every removal kind applied to one of them
    {
        let keys = index_neighbours();
        let n = keys.len();
        let blobs = vec![crate::blob::Blob::new(5, 11), crate::blob::Blob::new(6, 12)];
        for victim in 0..n {
            for (vi, fl) in [Fl::Sync, Fl::Async].into_iter().enumerate() {
                for kind in 0..3 {
                    let mut steps: Vec<Step> = (0..n).map(|i| Step { op: Op::Write(WriteSpec::simple(Some(i), i % 2)), fl: if (i + vi) % 2 == 0 { Fl::Sync } else { Fl::Async } }).collect();
                    steps.push(Step {
                        op: match kind {
                            0 => Op::RemoveOpts { key: victim, fully: true },
                            1 => Op::Remove { key: victim },
                            _ => Op::RemoveOpts { key: victim, fully: false },
                        },
                        fl,
                    });
                    steps.push(Step { op: Op::Write(WriteSpec::simple(Some(victim), 1)), fl });
                    out.push(Program { keys: keys.clone(), blobs: blobs.clone(), steps });
                }
            }
        }
    }
    // hundreds of generations of one key, then each removal kind (tombstone newest in a long bucket)
    for (variant, kind) in [(0usize, 0usize), (1, 1), (2, 2)] {
        let n = tier.pick(262usize, 700usize) + variant;
        let mut steps: Vec<Step> = (0..n)
            .map(|i| Step { op: Op::Write(WriteSpec::simple(Some(0), i % 2)), fl: if (i / 3 + variant) % 2 == 0 { Fl::Sync } else { Fl::Async } })
            .collect();
        steps.insert(0, Step { op: Op::Write(WriteSpec::simple(Some(1), 0)), fl: Fl::Sync });
        let fl = if variant % 2 == 0 { Fl::Sync } else { Fl::Async };
        steps.push(Step {
            op: match kind {
                0 => Op::Remove { key: 0 },
                1 => Op::RemoveOpts { key: 0, fully: false },
                _ => Op::RemoveOpts { key: 0, fully: true },
            },
            fl,
        });
        steps.push(Step { op: Op::Meta { key: 0 }, fl: Fl::Sync });
        steps.push(Step { op: Op::Meta { key: 0 }, fl: Fl::Async });
        steps.push(Step { op: Op::Remove { key: 1 }, fl });
        out.push(Program { keys: vec![format!("many-generations-{variant}"), "second".into()], blobs: vec![crate::blob::Blob::new(3, 1), crate::blob::Blob::new(4, 2)], steps });
    }
    for algo in [Algo::Sha256, Algo::Sha1] {
        let blobs = neighbours(algo);
        let n = blobs.len();
        let keys: Vec<String> = (0..n).map(|i| format!("n{i}")).collect();
        let write_all = |fl0: usize| -> Vec<Step> {
            (0..n)
                .map(|i| {
                    let mut w = WriteSpec::simple(Some(i), i);
                    w.entry = WEntry::OneShotAlgo;
                    w.algo = algo;
                    Step { op: Op::Write(w), fl: if (i + fl0) % 2 == 0 { Fl::Sync } else { Fl::Async } }
                })
                .collect()
        };
        for victim in 0..n {
            for (vi, fl) in [Fl::Sync, Fl::Async].into_iter().enumerate() {
                for kind in 0..3 {
                    let mut steps = write_all(vi);
                    let a = AddrRef { algo, blob: victim };
                    steps.push(Step {
                        op: match kind {
                            0 => Op::RemoveHash { addr: a },
                            1 => Op::RemoveOpts { key: victim, fully: true },
                            _ => Op::Remove { key: victim },
                        },
                        fl,
                    });
                    // and the victim can be stored again afterwards
                    let mut w = WriteSpec::simple(Some(victim), victim);
                    w.entry = WEntry::OneShotAlgo;
                    w.algo = algo;
                    steps.push(Step { op: Op::Write(w), fl });
                    steps.push(Step { op: Op::RemoveHash { addr: AddrRef { algo, blob: (victim + 1) % n } }, fl });
                    out.push(Program { keys: keys.clone(), blobs: blobs.clone(), steps });
                }
            }
        }
    }
    out
}
