//! Generic driver shared by all property engines: regress replays, bounded-exhaustive
//! families, seeded proptest search on parallel workers, shrinking, replay files, evidence
//! parts, known-findings matching and a per-case watchdog.

use proptest::strategy::BoxedStrategy;
use proptest::test_runner::{Config, RngAlgorithm, TestCaseError, TestError, TestRng, TestRunner};
use serde::de::DeserializeOwned;
use serde::Serialize;
use serde_json::{json, Value};
use std::collections::{BTreeMap, HashSet};
use std::path::{Path, PathBuf};
use std::sync::atomic::{AtomicBool, AtomicU64, Ordering};
use std::sync::Mutex;
use std::time::Instant;

use crate::scratch::Scratch;

#[derive(Clone, Copy, Debug, PartialEq, Eq)]
pub enum Tier {
    Quick,
    Thorough,
}

impl Tier {
    pub fn name(self) -> &'static str {
        match self {
            Tier::Quick => "quick",
            Tier::Thorough => "thorough",
        }
    }
    pub fn pick<T>(self, q: T, t: T) -> T {
        match self {
            Tier::Quick => q,
            Tier::Thorough => t,
        }
    }
}

#[derive(Default)]
pub struct Stats {
    /// oracle evaluations (checked calls / inspected states)
    pub evaluations: u64,
    /// cases executed
    pub cases: u64,
    pub nontrivial: HashSet<u64>,
    pub classes: BTreeMap<String, u64>,
    pub samples: Vec<Value>,
    pub sample_stride: u64,
    /// finding id -> (times re-observed, first message)
    pub known: BTreeMap<String, (u64, String)>,
    pub frozen: bool,
}

impl Stats {
    pub fn eval(&mut self, n: u64) {
        if !self.frozen {
            self.evaluations += n;
        }
    }
    pub fn class(&mut self, name: &str) {
        if !self.frozen {
            *self.classes.entry(name.to_string()).or_insert(0) += 1;
        }
    }
    pub fn class_n(&mut self, name: &str, n: u64) {
        if !self.frozen && n > 0 {
            *self.classes.entry(name.to_string()).or_insert(0) += n;
        }
    }
    /// Marks the case (identified by a stable hash of its description) as non-trivial.
    pub fn nontrivial(&mut self, case_hash: u64) {
        if !self.frozen {
            self.nontrivial.insert(case_hash);
        }
    }
    pub fn sample(&mut self, v: impl FnOnce() -> Value) {
        if self.frozen {
            return;
        }
        // keep a handful of cases spread over the run
        let stride = self.sample_stride.max(1);
        if self.cases % stride == 0 && self.samples.len() < 8 {
            self.samples.push(v());
        }
    }
    fn merge(&mut self, o: Stats) {
        self.evaluations += o.evaluations;
        self.cases += o.cases;
        self.nontrivial.extend(o.nontrivial);
        for (k, v) in o.classes {
            *self.classes.entry(k).or_insert(0) += v;
        }
        for s in o.samples {
            if self.samples.len() < 12 {
                self.samples.push(s);
            }
        }
        for (k, (n, m)) in o.known {
            let e = self.known.entry(k).or_insert((0, m));
            e.0 += n;
        }
    }
}

pub fn hash_of<T: Serialize>(t: &T) -> u64 {
    let s = serde_json::to_string(t).unwrap_or_default();
    // FNV-1a
    let mut h: u64 = 0xcbf29ce484222325;
    for b in s.bytes() {
        h ^= b as u64;
        h = h.wrapping_mul(0x100000001b3);
    }
    h
}

pub struct WorkerEnv {
    pub idx: usize,
    pub tier: Tier,
    pub scratch: Scratch,
}

pub trait Engine: Sync {
    type Case: Clone + std::fmt::Debug + Serialize + DeserializeOwned + Send + Sync + 'static;
    fn id(&self) -> &'static str;
    fn level(&self) -> &'static str {
        "exploration"
    }
    /// how cases are generated and what makes one non-trivial
    fn rule(&self) -> String;
    fn assumptions(&self) -> Vec<String>;
    /// bounded-exhaustive families (independent of the seed)
    fn exhaustive(&self, _tier: Tier) -> Vec<Self::Case> {
        Vec::new()
    }
    fn exhaustive_note(&self, _tier: Tier) -> String {
        String::new()
    }
    fn random_cases(&self, tier: Tier) -> u32;
    fn strategy(&self, tier: Tier) -> BoxedStrategy<Self::Case>;
    fn run_case(&self, case: &Self::Case, st: &mut Stats, env: &mut WorkerEnv) -> Result<(), String>;
    /// generator health: minimum class fractions; `Err` = harness defect (exit 2)
    fn health(&self, _st: &Stats, _tier: Tier) -> Result<(), String> {
        Ok(())
    }
    fn max_shrink_iters(&self) -> u32 {
        4000
    }
    /// seconds a single case may take before the watchdog fires
    fn case_timeout_s(&self, tier: Tier) -> u64 {
        tier.pick(120, 600)
    }
    fn workers(&self, default: usize) -> usize {
        default
    }
}

#[derive(Clone, Debug)]
pub struct Args {
    pub tier: Tier,
    pub seed: u64,
    pub out: PathBuf,
    pub verif: PathBuf,
    pub workers: usize,
    pub replay: Option<PathBuf>,
    /// scale factor for random case counts (used by self-tests), 1.0 normally
    pub scale: f64,
}

#[derive(Clone, Debug, serde::Deserialize)]
pub struct Finding {
    pub id: String,
    pub property: String,
    pub status: String,
    /// regular-expression-free matching: every listed fragment must occur in the message
    #[serde(default)]
    pub all_of: Vec<String>,
    pub what: String,
}

pub struct Known {
    pub findings: Vec<Finding>,
}

impl Known {
    pub fn load(verif: &Path) -> Known {
        let p = verif.join("known_findings.json");
        let findings = std::fs::read_to_string(&p)
            .ok()
            .and_then(|s| serde_json::from_str::<Value>(&s).ok())
            .and_then(|v| v.get("findings").cloned())
            .and_then(|v| serde_json::from_value::<Vec<Finding>>(v).ok())
            .unwrap_or_default();
        Known { findings }
    }
    /// An *open* finding of this property whose signature the message carries.
    pub fn matches(&self, prop: &str, msg: &str) -> Option<&Finding> {
        self.findings.iter().find(|f| {
            f.status == "open" && f.property == prop && !f.all_of.is_empty() && f.all_of.iter().all(|frag| msg.contains(frag.as_str()))
        })
    }
}

pub struct Failure<C> {
    pub case: C,
    pub message: String,
    pub origin: String,
}

fn seed_bytes(seed: u64, prop: &str, worker: usize) -> [u8; 32] {
    let mut out = [0u8; 32];
    let mut h = seed ^ 0x9e3779b97f4a7c15;
    for b in prop.bytes().chain(crate::rt::BUILD.bytes()) {
        h = (h ^ b as u64).wrapping_mul(0x100000001b3);
    }
    h ^= (worker as u64).wrapping_mul(0xd6e8feb86659fd93);
    for i in 0..4 {
        h = (h ^ (h >> 30)).wrapping_mul(0xbf58476d1ce4e5b9);
        h = (h ^ (h >> 27)).wrapping_mul(0x94d049bb133111eb);
        h ^= h >> 31;
        out[i * 8..i * 8 + 8].copy_from_slice(&h.to_le_bytes());
        h = h.wrapping_add(0x9e3779b97f4a7c15);
    }
    out
}

fn write_replay<C: Serialize>(verif: &Path, prop: &str, seed: u64, f: &Failure<C>) -> PathBuf {
    let dir = verif.join("replays");
    let _ = std::fs::create_dir_all(&dir);
    let body = json!({
        "property": prop,
        "build": crate::rt::BUILD,
        "seed": seed,
        "origin": f.origin,
        "message": f.message,
        "case": f.case,
    });
    let h = hash_of(&body);
    let p = dir.join(format!("{prop}-{seed}-{:08x}.json", h as u32));
    let _ = std::fs::write(&p, serde_json::to_string_pretty(&body).unwrap());
    p
}

/// Runs the engine per `args`; returns the process exit code.
pub fn drive<E: Engine>(engine: &E, args: &Args) -> i32 {
    let start = Instant::now();
    crate::exec::install_panic_hook();
    let prop = engine.id();
    let known = Known::load(&args.verif);

    // ---- replay mode ------------------------------------------------------------------
    if let Some(path) = &args.replay {
        let v: Value = match std::fs::read_to_string(path).ok().and_then(|s| serde_json::from_str(&s).ok()) {
            Some(v) => v,
            None => {
                println!("cannot read replay file {}", path.display());
                return 2;
            }
        };
        if let Some(b) = v.get("build").and_then(|b| b.as_str()) {
            if b != "any" && b != crate::rt::BUILD {
                println!("replay file is for build {b}; this is {}", crate::rt::BUILD);
                return 0;
            }
        }
        let case: E::Case = match serde_json::from_value(v["case"].clone()) {
            Ok(c) => c,
            Err(e) => {
                println!("replay file does not decode: {e}");
                return 2;
            }
        };
        crate::exec::mark_worker_thread();
        // a fatal signal during the replay: exit code 5 again (the file exists already)
        let case_json = serde_json::to_string(&case).unwrap_or_default();
        crate::crash::install(prop, crate::rt::BUILD, args.seed, "", 1);
        crate::crash::set_slot(0);
        crate::crash::publish(0, &case_json);
        let mut env = WorkerEnv { idx: 0, tier: args.tier, scratch: Scratch::new() };
        let mut st = Stats::default();
        return match engine.run_case(&case, &mut st, &mut env) {
            Ok(()) => {
                println!("replay: property {prop} held on this case");
                0
            }
            Err(m) => {
                println!("VIOLATION property={prop} replay={}", path.display());
                println!("  {m}");
                1
            }
        };
    }

    let stop = AtomicBool::new(false);
    let failure: Mutex<Option<Failure<E::Case>>> = Mutex::new(None);
    let total = Mutex::new(Stats::default());
    let nworkers = engine.workers(args.workers).max(1);
    let beats: Vec<AtomicU64> = (0..nworkers).map(|_| AtomicU64::new(0)).collect();
    let current: Vec<Mutex<Option<String>>> = (0..nworkers).map(|_| Mutex::new(None)).collect();
    let done = AtomicBool::new(false);
    let hung: Mutex<Option<(usize, String)>> = Mutex::new(None);
    let timeout_s = engine.case_timeout_s(args.tier);

    // ---- regress files ----------------------------------------------------------------
    let mut regress: Vec<(String, E::Case)> = Vec::new();
    if let Ok(rd) = std::fs::read_dir(args.verif.join("regress")) {
        let mut files: Vec<_> = rd.flatten().map(|e| e.path()).collect();
        files.sort();
        for p in files {
            let name = p.file_name().unwrap().to_string_lossy().to_string();
            if !name.starts_with(&format!("{prop}-")) || !name.ends_with(".json") {
                continue;
            }
            if let Some(v) = std::fs::read_to_string(&p).ok().and_then(|s| serde_json::from_str::<Value>(&s).ok()) {
                if let Some(b) = v.get("build").and_then(|b| b.as_str()) {
                    if b != "any" && b != crate::rt::BUILD {
                        continue;
                    }
                }
                match serde_json::from_value::<E::Case>(v["case"].clone()) {
                    Ok(c) => regress.push((name, c)),
                    Err(e) => {
                        println!("regress file {name} does not decode: {e}");
                        return 2;
                    }
                }
            }
        }
    }
    let exhaustive = engine.exhaustive(args.tier);
    let n_exh = exhaustive.len();
    let n_regress = regress.len();
    let random_total = ((engine.random_cases(args.tier) as f64) * args.scale).ceil() as u32;
    let per_worker = random_total.div_ceil(nworkers as u32);

    let _ = std::fs::create_dir_all(args.verif.join("replays"));
    crate::crash::install(prop, crate::rt::BUILD, args.seed, &format!("{}/replays/{prop}-{}-crash-{}", args.verif.display(), args.seed, std::process::id()), nworkers);
    std::thread::scope(|scope| {
        // watchdog
        scope.spawn(|| {
            let t0 = Instant::now();
            while !done.load(Ordering::SeqCst) {
                std::thread::sleep(std::time::Duration::from_millis(250));
                let now = t0.elapsed().as_secs();
                for w in 0..nworkers {
                    let b = beats[w].load(Ordering::SeqCst);
                    if b != 0 && now > b && now - b > timeout_s {
                        let cur = current[w].lock().unwrap().clone().unwrap_or_default();
                        *hung.lock().unwrap() = Some((w, cur));
                        // a stuck worker cannot be joined: report and leave
                        report_hang(prop, args, &hung);
                    }
                }
            }
        });
        let mut handles = Vec::new();
        for w in 0..nworkers {
            let stop = &stop;
            let failure = &failure;
            let total = &total;
            let known = &known;
            let exhaustive = &exhaustive;
            let regress = &regress;
            let beats = &beats;
            let current = &current;
            let t_start = Instant::now();
            handles.push(scope.spawn(move || {
                crate::exec::mark_worker_thread();
                crate::crash::set_slot(w);
                let strategy = engine.strategy(args.tier);
                let mut env = WorkerEnv { idx: w, tier: args.tier, scratch: Scratch::new() };
                let mut st = Stats::default();
                st.sample_stride = ((n_exh as u64 + random_total as u64) / (nworkers as u64 * 3)).max(1);
                let beat = |case: &E::Case| {
                    {
                        let mut g = current[w].lock().unwrap();
                        *g = Some(serde_json::to_string(case).unwrap_or_default());
                        // (the string lives in the slot until the next beat of this worker)
                        crate::crash::publish(w, g.as_deref().unwrap());
                    }
                    beats[w].store(t_start.elapsed().as_secs().max(1), Ordering::SeqCst);
                };
                // one closure for all three phases
                let run_one = |case: &E::Case, st: &mut Stats, env: &mut WorkerEnv, origin: &str| -> Result<(), String> {
                    beat(case);
                    let r = engine.run_case(case, st, env);
                    if !st.frozen {
                        st.cases += 1;
                    }
                    match r {
                        Ok(()) => Ok(()),
                        Err(m) => {
                            if let Some(f) = known.matches(prop, &m) {
                                if !st.frozen {
                                    let e = st.known.entry(f.id.clone()).or_insert((0, m.clone()));
                                    e.0 += 1;
                                }
                                Ok(())
                            } else {
                                let _ = origin;
                                Err(m)
                            }
                        }
                    }
                };
                // regress replays (worker 0 only; they are few)
                if w == 0 {
                    for (name, c) in regress.iter() {
                        if stop.load(Ordering::SeqCst) {
                            break;
                        }
                        if let Err(m) = run_one(c, &mut st, &mut env, name) {
                            stop.store(true, Ordering::SeqCst);
                            let mut g = failure.lock().unwrap();
                            if g.is_none() {
                                *g = Some(Failure { case: c.clone(), message: m, origin: format!("regress/{name}") });
                            }
                            break;
                        }
                    }
                }
                // bounded-exhaustive families
                let mut i = w;
                while i < exhaustive.len() && !stop.load(Ordering::SeqCst) {
                    let c = &exhaustive[i];
                    if let Err(m) = run_one(c, &mut st, &mut env, "exhaustive") {
                        stop.store(true, Ordering::SeqCst);
                        let mut g = failure.lock().unwrap();
                        if g.is_none() {
                            *g = Some(Failure { case: c.clone(), message: m, origin: format!("exhaustive[{i}]") });
                        }
                        break;
                    }
                    i += nworkers;
                }
                // seeded random search
                if per_worker > 0 && !stop.load(Ordering::SeqCst) {
                    let cfg = Config {
                        cases: per_worker,
                        failure_persistence: None,
                        max_shrink_iters: engine.max_shrink_iters(),
                        max_global_rejects: 1_000_000,
                        ..Config::default()
                    };
                    let rng = TestRng::from_seed(RngAlgorithm::ChaCha, &seed_bytes(args.seed, prop, w));
                    let mut runner = TestRunner::new_with_rng(cfg, rng);
                    let failed_here = std::cell::Cell::new(false);
                    let cells = std::cell::RefCell::new((&mut st, &mut env));
                    let res = runner.run(&strategy, |case| {
                        if !failed_here.get() && stop.load(Ordering::SeqCst) {
                            // somebody else failed: finish quickly without judging
                            return Ok(());
                        }
                        let mut g = cells.borrow_mut();
                        let (st, env) = &mut *g;
                        match run_one(&case, st, env, "random") {
                            Ok(()) => Ok(()),
                            Err(m) => {
                                failed_here.set(true);
                                st.frozen = true;
                                Err(TestCaseError::fail(m))
                            }
                        }
                    });
                    drop(cells);
                    match res {
                        Ok(()) => {}
                        Err(TestError::Fail(reason, case)) => {
                            stop.store(true, Ordering::SeqCst);
                            let mut g = failure.lock().unwrap();
                            if g.is_none() {
                                *g = Some(Failure { case, message: reason.message().to_string(), origin: format!("random worker {w} (shrunk)") });
                            }
                        }
                        Err(TestError::Abort(reason)) => {
                            println!("generator aborted: {reason}");
                        }
                    }
                }
                beats[w].store(0, Ordering::SeqCst);
                total.lock().unwrap().merge(st);
            }));
        }
        for h in handles {
            let _ = h.join();
        }
        done.store(true, Ordering::SeqCst);
    });

    let st = std::mem::take(&mut *total.lock().unwrap());
    let fail = failure.lock().unwrap().take();
    let foreign = crate::exec::FOREIGN_PANICS.lock().unwrap_or_else(|e| e.into_inner()).clone();
    let mut code = 0;
    let mut violation_lines = Vec::new();
    let infra = fail.as_ref().map(|f| f.message.contains("INFRA:")).unwrap_or(false);
    if infra {
        println!("INCONCLUSIVE property={prop} build={}: {}", crate::rt::BUILD, fail.as_ref().unwrap().message);
        code = 2;
    } else if let Some(f) = &fail {
        let p = write_replay(&args.verif, prop, args.seed, f);
        violation_lines.push(format!("VIOLATION property={prop} replay={}", p.display()));
        violation_lines.push(format!("  build={} origin={} : {}", crate::rt::BUILD, f.origin, f.message));
        code = 1;
    }
    for (id, (n, m)) in &st.known {
        let what = known.findings.iter().find(|f| &f.id == id).map(|f| f.what.clone()).unwrap_or_default();
        println!("KNOWN-FINDING: property={prop} {id}: {what} (re-observed {n}x on build {}; e.g. {})", crate::rt::BUILD, first_line(m));
    }
    if code == 0 {
        if let Err(h) = engine.health(&st, args.tier) {
            println!("GENERATOR-HEALTH property={prop}: {h}");
            code = 2;
        }
    }
    let ev = json!({
        "property_id": prop,
        "build": crate::rt::BUILD,
        "tier": args.tier.name(),
        "seed": args.seed,
        "level": engine.level(),
        "coverage": {
            "evaluations": st.evaluations,
            "cases": st.cases,
            "distinct_nontrivial": st.nontrivial.len(),
            "rule": engine.rule(),
            "samples": st.samples,
            "classes": st.classes,
            "exhaustive_cases": n_exh,
            "exhaustive_note": engine.exhaustive_note(args.tier),
            "regress_replayed": n_regress,
            "random_cases_requested": random_total,
            "foreign_thread_panics": foreign,
        },
        "assumptions": engine.assumptions(),
        "wall_s": start.elapsed().as_secs_f64(),
        "violations": if fail.is_some() && !infra { 1 } else { 0 },
        "known_findings_reobserved": st.known.iter().map(|(k, v)| json!({"id": k, "times": v.0, "example": first_line(&v.1)})).collect::<Vec<_>>(),
        "violation_message": fail.as_ref().map(|f| f.message.clone()),
    });
    if let Some(d) = args.out.parent() {
        let _ = std::fs::create_dir_all(d);
    }
    if let Err(e) = std::fs::write(&args.out, serde_json::to_string_pretty(&ev).unwrap()) {
        println!("cannot write evidence part {}: {e}", args.out.display());
        return 2;
    }
    for l in violation_lines {
        println!("{l}");
    }
    crate::scratch::cleanup_all();
    code
}

fn first_line(s: &str) -> String {
    let l = s.lines().next().unwrap_or("");
    if l.len() > 240 {
        let mut end = 240;
        while !l.is_char_boundary(end) {
            end -= 1;
        }
        format!("{}…", &l[..end])
    } else {
        l.to_string()
    }
}

fn report_hang(prop: &str, args: &Args, hung: &Mutex<Option<(usize, String)>>) -> ! {
    let (w, cur) = hung.lock().unwrap().clone().unwrap();
    let dir = args.verif.join("replays");
    let _ = std::fs::create_dir_all(&dir);
    let case: Value = serde_json::from_str(&cur).unwrap_or(Value::Null);
    let body = json!({"property": prop, "build": crate::rt::BUILD, "seed": args.seed, "origin": format!("watchdog worker {w}"), "message": "case did not finish within the watchdog limit", "case": case});
    let p = dir.join(format!("{prop}-{}-hang-{:08x}.json", args.seed, hash_of(&body) as u32));
    let _ = std::fs::write(&p, serde_json::to_string_pretty(&body).unwrap());
    println!("WATCHDOG property={prop} build={} replay={}", crate::rt::BUILD, p.display());
    crate::scratch::cleanup_all();
    // exit code 3: the front end re-runs the case from its replay file before judging
    std::process::exit(3);
}

pub mod basic;
pub mod c01;
pub mod c03;
pub mod c04;
pub mod c05;
pub mod c06;
pub mod c07;
pub mod c09;
pub mod c10;
pub mod c12;
pub mod c13;
pub mod c15;
pub mod c17;
pub mod c19;
pub mod c20;
pub mod progeng;
pub mod props_damage;
pub mod props_misc;
pub mod props_write;
