//! C10 — listing yields exactly the live entries, once each, agreeing with lookup.

use super::basic::{self, OpMix, ProgCfg};
use super::{hash_of, Engine, Stats, Tier, WorkerEnv};
use crate::blob::{Algo, Blob};
use crate::exec::{run_step, Ctx};
use crate::gen::{SizeMix, WriteMix};
use crate::model::Model;
use crate::ops::*;
use proptest::prelude::*;

pub struct C10;

fn cfg(tier: Tier) -> ProgCfg {
    ProgCfg {
        mix: OpMix { write: 12, remove: 5, remove_fully: 1, idx_insert: 2, idx_delete: 1, link_to: 2, damage_content: 2, damage_bucket: 1, remove_hash: 1, switch_cache: 1, ..OpMix::NONE },
        wmix: WriteMix { bad_decls: false, meta: true, by_hash: false, rich_matching: false, interfere: false },
        sizes: SizeMix::Small,
        keys: (1, 12),
        blobs: (1, 4),
        max_steps: tier.pick(25, 50),
    }
}

/// Listing judged directly against lookups (independent of the model).
fn list_vs_lookup(ctx: &Ctx, st: &mut Stats, index_dir_exists: bool) -> Result<(), String> {
    let l = run_step(ctx, &Step { op: Op::List, fl: Fl::Sync });
    st.eval(1);
    let (ents, errs) = match l.out {
        Out::List(e, n) => (e, n),
        o => return Err(format!("list_sync: {}", o.short())),
    };
    if index_dir_exists && errs != 0 {
        return Err(format!("list_sync yielded {errs} error items"));
    }
    for w in ents.windows(2) {
        if w[0].key == w[1].key {
            return Err(format!("list_sync yields key {:?} twice", w[0].key));
        }
    }
    for e in &ents {
        if !ctx.keys.contains(&e.key) {
            return Err(format!("list_sync yields key {:?} which was never written", e.key));
        }
    }
    for k in 0..ctx.keys.len() {
        let listed = ents.iter().find(|e| e.key == ctx.keys[k]);
        for fl in [Fl::Sync, Fl::Async] {
            let m = run_step(ctx, &Step { op: Op::Meta { key: k }, fl });
            st.eval(1);
            match (&m.out, listed) {
                (Out::Meta(None), None) => {}
                (Out::Meta(Some(a)), Some(b)) if a == b => {}
                (o, l) => {
                    return Err(format!(
                        "key {:?}: lookup ({fl:?}) gives {} but the listing has {:?}",
                        ctx.keys[k],
                        o.short(),
                        l
                    ))
                }
            }
        }
    }
    Ok(())
}

/// The program in a driver process whose mount namespace has a tmpfs on the index shard of key 0.
fn run_with_mounted_shards(prog: &Program, st: &mut Stats, env: &mut WorkerEnv) -> Result<(), String> {
    env.scratch.reset();
    let cache = env.scratch.cache.clone();
    let bucket = crate::reffmt::bucket_path(&cache, &prog.keys[0]);
    let ishard = bucket.parent().and_then(|p| p.parent()).ok_or("harness: bucket path")?.to_path_buf();
    let hex = crate::blob::hexs(&crate::blob::digest_raw(Algo::Sha256, &prog.blobs[0].bytes()));
    let cshard = crate::reffmt::content_path(&cache, Algo::Sha256, &hex).parent().and_then(|p| p.parent()).ok_or("harness: content path")?.to_path_buf();
    let pf = env.scratch.root.join("prog.json");
    std::fs::write(&pf, serde_json::to_string(prog).unwrap()).map_err(|e| format!("INFRA: {e}"))?;
    let of = env.scratch.root.join("out.jsonl");
    let _ = std::fs::remove_file(&of);
    let mut cmd = crate::sup::driver_cmd(&cache, &env.scratch.scratch, &pf, 0, prog.steps.len(), &of);
    cmd.pop();
    // (only the index: content is published by a rename from the cache's temp area, which cannot
    // cross into a mounted content shard — a layout the library does not support)
    let _ = &cshard;
    let script = "mkdir -p \"$0\" && mount -t tmpfs tmpfs \"$0\" && exec \"$@\"";
    let o = std::process::Command::new("unshare").arg("-m").arg("sh").arg("-c").arg(script).arg(&ishard).args(&cmd).stdin(std::process::Stdio::null()).stdout(std::process::Stdio::null()).stderr(std::process::Stdio::piped()).output();
    let o = match o {
        Ok(o) => o,
        Err(_) => {
            st.class("mount_namespace_unavailable");
            return Ok(());
        }
    };
    let err = String::from_utf8_lossy(&o.stderr).to_string();
    if (err.contains("unshare") && err.contains("Operation not permitted")) || err.contains("mount:") {
        st.class("mount_namespace_unavailable");
        return Ok(());
    }
    if !o.status.success() {
        return Err(format!("with an index shard on another filesystem: the process ended abnormally ({:?}) {}", o.status, err.chars().take(300).collect::<String>()));
    }
    let outs = crate::sup::read_outs(&of)?;
    if outs.len() != prog.steps.len() {
        return Err(format!("with an index shard on another filesystem: only {} of {} steps produced a result", outs.len(), prog.steps.len()));
    }
    let ctx = Ctx::new(cache, env.scratch.scratch.clone(), &prog.keys, &prog.blobs);
    let mut model = Model::new();
    model.pure = true;
    for (i, o, t0, t1) in &outs {
        st.eval(1);
        model.step(&ctx, &prog.steps[*i], o, *t0, *t1).map_err(|e| format!("with a filesystem mounted on index-v5/<aa>: {}: {e}", basic::describe_step(prog, *i)))?;
    }
    st.class("shards_are_mount_points");
    st.class("nontrivial");
    st.nontrivial(hash_of(prog));
    Ok(())
}

impl Engine for C10 {
    type Case = Program;
    fn id(&self) -> &'static str {
        "C10"
    }
    fn rule(&self) -> String {
        "histories of keyed writes (with metadata options), raw inserts, removals and re-writes over 1..12 hostile keys (random) and bulk \
         histories over 1..300 keys (fixed family); after EVERY step list_sync is compared (a) with the reference model and (b) directly with \
         metadata_sync / async metadata of every key: no error item, no key twice, no never-written key, listed set == found set, every field \
         equal. Non-trivial = some key has >=2 records or a tombstone exists when the listing is taken; distinct = distinct history"
            .into()
    }
    fn assumptions(&self) -> Vec<String> {
        vec![
            "healthy filesystem (tmpfs scratch)".into(),
            "list_sync on a cache without an index directory yields one NotFound error item (pinned by ls::tests::test_list_sync) and is treated as the empty listing".into(),
        ]
    }
    fn exhaustive(&self, tier: Tier) -> Vec<Program> {
        // bulk family: n keys written, every 3rd removed, every 6th re-written, every 5th overwritten
        let sizes: &[usize] = tier.pick(&[1, 2, 17, 64, 300], &[1, 2, 3, 17, 64, 150, 300, 600]);
        let mut out = Vec::new();
        for &n in sizes {
            for variant in 0..2 {
                let keys: Vec<String> = (0..n).map(|i| if variant == 0 { format!("key-{i}") } else { format!("k\t{i}\né") }).collect();
                let blobs = vec![Blob::new(5, 1), Blob::new(9, 2)];
                let mut steps = Vec::new();
                let fl = |i: usize| if (i + variant) % 2 == 0 { Fl::Sync } else { Fl::Async };
                for i in 0..n {
                    steps.push(Step { op: Op::Write(WriteSpec::simple(Some(i), i % 2)), fl: fl(i) });
                }
                for i in (0..n).step_by(3) {
                    steps.push(Step { op: Op::Remove { key: i }, fl: fl(i + 1) });
                }
                for i in (0..n).step_by(6) {
                    steps.push(Step { op: Op::Write(WriteSpec::simple(Some(i), 1)), fl: fl(i) });
                }
                for i in (0..n).step_by(5) {
                    steps.push(Step { op: Op::Write(WriteSpec::simple(Some(i), 0)), fl: fl(i + 1) });
                }
                out.push(Program { keys, blobs, steps });
            }
        }
        // one key with several thousand records (bounded windows / caps in readers)
        {
            let n = tier.pick(4200usize, 9000usize);
            let keys = vec!["thousands-of-generations".to_string(), "quiet".to_string()];
            let blobs = vec![Blob::new(5, 1), Blob::new(9, 2)];
            let mut steps: Vec<Step> = vec![Step { op: Op::Write(WriteSpec::simple(Some(1), 1)), fl: Fl::Sync }];
            for i in 0..n {
                // mostly through the sync API (the async runtimes make thousands of calls slow)
                steps.push(Step { op: Op::Write(WriteSpec::simple(Some(0), i % 2)), fl: if i % 50 == 49 { Fl::Async } else { Fl::Sync } });
            }
            steps.push(Step { op: Op::Remove { key: 0 }, fl: Fl::Sync });
            steps.push(Step { op: Op::Write(WriteSpec::simple(Some(0), 1)), fl: Fl::Async });
            steps.push(Step { op: Op::Remove { key: 0 }, fl: Fl::Async });
            out.push(Program { keys, blobs, steps });
        }
        // records of 80 KiB .. 800 KiB (metadata) before, after and between small ones
        for (vi, raw_len) in [20_000usize, 70_000, 200_000].into_iter().enumerate() {
            for shape in 0..4usize {
                let keys = vec!["big-record".to_string(), "small-record".to_string()];
                let blobs = vec![Blob::new(5, 1), Blob::new(9, 2)];
                let big = |i: usize, fl: Fl| {
                    let mut w = WriteSpec::simple(Some(0), i % 2);
                    w.entry = WEntry::Opts;
                    w.raw_metadata = Some(crate::gen::huge_raw_meta(raw_len + i, (vi + i) as u8));
                    Step { op: Op::Write(w), fl }
                };
                let small = |k: usize, b: usize, fl: Fl| Step { op: Op::Write(WriteSpec::simple(Some(k), b)), fl };
                let steps = match shape {
                    0 => vec![small(1, 1, Fl::Sync), big(0, Fl::Sync)],
                    1 => vec![small(0, 0, Fl::Async), big(1, Fl::Async), small(1, 1, Fl::Sync)],
                    2 => vec![big(0, Fl::Async), small(0, 1, Fl::Sync), big(2, Fl::Sync)],
                    _ => vec![big(0, Fl::Sync), Step { op: Op::Remove { key: 0 }, fl: Fl::Async }, big(3, Fl::Async), Step { op: Op::Remove { key: 0 }, fl: Fl::Sync }, big(4, Fl::Sync)],
                };
                out.push(Program { keys, blobs, steps });
            }
        }
        // entries whose content has become unreadable in every way a content path can (the
        // listing is about the index: it must still agree with lookups)
        for (di, dmg) in [CDamage::SymlinkDangling, CDamage::Delete, CDamage::SymlinkToDir, CDamage::Empty, CDamage::SymlinkToBlob(1)].into_iter().enumerate() {
            for linked in [false, true] {
                let keys = vec!["content-gone".to_string(), "bystander".to_string()];
                let blobs = vec![Blob::new(50, 1), Blob::new(9, 2)];
                let a = AddrRef { algo: Algo::Sha256, blob: 0 };
                let first = if linked {
                    Step { op: Op::LinkTo(LinkSpec { key: Some(0), blob: 0, target: 0, relative: false, algo: Algo::Sha256, oneshot: di % 2 == 0, pre_reads: vec![], declare: Declare::Exact, integ: IntegDecl::None, dotdot_via_symlink: false, vectored_reads: false }), fl: if di % 2 == 0 { Fl::Sync } else { Fl::Async } }
                } else {
                    Step { op: Op::Write(WriteSpec::simple(Some(0), 0)), fl: Fl::Sync }
                };
                let steps = vec![Step { op: Op::Write(WriteSpec::simple(Some(1), 1)), fl: Fl::Async }, first, Step { op: Op::DamageContent { addr: a, dmg: dmg.clone() }, fl: Fl::Sync }];
                out.push(Program { keys, blobs, steps });
            }
        }
        // a part of the index is a mount point (another filesystem mounted on an index shard: bind
        // mounts, subvolumes); runs in a driver process in its own
        // mount namespace, judged by the pure model
        for fl in [Fl::Sync, Fl::Async] {
            let keys = vec!["mounted-shard-key".to_string(), "elsewhere".to_string()];
            let blobs = vec![Blob::new(50, 1), Blob::new(9, 2)];
            let w = |k: usize, b: usize| Step { op: Op::Write(WriteSpec::simple(Some(k), b)), fl };
            let steps = vec![w(0, 0), w(1, 1), Step { op: Op::Meta { key: 0 }, fl }, Step { op: Op::Read { key: 0 }, fl }, Step { op: Op::List, fl: Fl::Sync }, Step { op: Op::Remove { key: 1 }, fl }, w(0, 1), Step { op: Op::List, fl: Fl::Sync }, Step { op: Op::Read { key: 0 }, fl }];
            out.push(Program { keys, blobs, steps });
        }
        // bucket files that are symbolic links (a symlink farm of a cache): lookups follow them,
        // so does the listing
        for variant in 0..3usize {
            let keys = vec!["farmed".to_string(), "plain".to_string(), "farmed-too".to_string()];
            let blobs = vec![Blob::new(5, 1), Blob::new(9, 2)];
            let w = |k: usize, b: usize, fl: Fl| Step { op: Op::Write(WriteSpec::simple(Some(k), b)), fl };
            let farm = |k: usize| Step { op: Op::DamageBucket { key: k, dmg: BDamage::BecomeSymlink }, fl: Fl::Sync };
            let steps = match variant {
                0 => vec![w(0, 0, Fl::Sync), w(1, 1, Fl::Async), w(2, 1, Fl::Sync), farm(0), farm(2)],
                1 => vec![w(0, 0, Fl::Async), farm(0), w(0, 1, Fl::Sync), w(1, 1, Fl::Sync)],
                _ => vec![w(0, 0, Fl::Sync), w(1, 0, Fl::Sync), farm(0), farm(1), Step { op: Op::Remove { key: 0 }, fl: Fl::Async }, w(2, 1, Fl::Async), farm(2)],
            };
            out.push(Program { keys, blobs, steps });
        }
        // records whose integrity text cannot address content (planted; no well-formed call
        // writes them): the listing must still agree with lookups, whatever both make of them
        let odd: Vec<Option<String>> = vec![
            Some("".into()),
            Some(" ".into()),
            Some("sha256-".into()),
            Some("sha999-AAAA".into()),
            Some("sha256-!!!".into()),
            Some("sha256-QQ==".into()),
            Some("sha1-deadbeef".into()),
            Some("md5-1B2M2Y8AsgTpgAmY7PhCfg==".into()),
            None,
        ];
        for (n, integ) in odd.into_iter().enumerate() {
            for order in 0..3 {
                let keys = vec!["planted".to_string(), "plain".to_string()];
                let blobs = vec![Blob::new(5, 1), Blob::new(9, 2)];
                let w = |k: usize, b: usize, fl: Fl| Step { op: Op::Write(WriteSpec::simple(Some(k), b)), fl };
                let plant = Step { op: Op::PlantRecord { key: 0, integrity: integ.clone(), time: 5 + n as u64 }, fl: Fl::Sync };
                let steps = match order {
                    0 => vec![w(0, 0, Fl::Sync), w(1, 1, Fl::Async), plant],
                    1 => vec![plant, w(1, 1, Fl::Sync)],
                    _ => vec![w(0, 0, Fl::Async), plant, w(0, 1, Fl::Sync)],
                };
                out.push(Program { keys, blobs, steps });
            }
        }
        out
    }
    fn exhaustive_note(&self, _tier: Tier) -> String {
        "fixed families (not exhaustive): records of 80..800 KiB before / after / between small ones; entries whose content was deleted or replaced by dangling links, directories, other data; n keys written, every 3rd removed, every 6th re-written, every 5th overwritten, listing judged at the end and after each phase; and planted records with unusable integrity text before / after / between good records, judged by listing-vs-lookup agreement only".into()
    }
    fn random_cases(&self, tier: Tier) -> u32 {
        tier.pick(1500, 30000)
    }
    fn strategy(&self, tier: Tier) -> BoxedStrategy<Program> {
        basic::program(cfg(tier))
    }
    fn run_case(&self, prog: &Program, st: &mut Stats, env: &mut WorkerEnv) -> Result<(), String> {
        if prog.keys[0].starts_with("mounted-shard-") {
            return run_with_mounted_shards(prog, st, env);
        }
        env.scratch.reset();
        // the cache directory is spelled in different (equivalent) ways from case to case
        let ctx = Ctx::new(env.scratch.cache_alias(hash_of(prog) >> 3), env.scratch.scratch.clone(), &prog.keys, &prog.blobs);
        let mut model = Model::new();
        let bulk = prog.keys.len() > 12 || prog.steps.len() > 1000;
        let mut nrec: std::collections::HashMap<usize, usize> = Default::default();
        let mut tomb = false;
        let mut nontrivial = false;
        for (i, step) in prog.steps.iter().enumerate() {
            let r = run_step(&ctx, step);
            st.eval(1);
            model.step(&ctx, step, &r.out, r.t0, r.t1).map_err(|e| format!("{}: {e}", basic::describe_step(prog, i)))?;
            match &step.op {
                Op::Write(WriteSpec { key: Some(k), .. }) | Op::IdxInsert { key: k, .. } => *nrec.entry(*k).or_insert(0) += 1,
                Op::Remove { key } | Op::IdxDelete { key } | Op::RemoveOpts { key, fully: false } => {
                    tomb = true;
                    *nrec.entry(*key).or_insert(0) += 1
                }
                Op::RemoveOpts { key, fully: true } => {
                    nrec.remove(key);
                }
                _ => {}
            }
            // bulk programs: judge at phase ends only (listing 300 keys after each of 500 steps is quadratic)
            let judge = if bulk { i + 1 == prog.steps.len() || prog.steps[i + 1].op.name() != step.op.name() || i % 97 == 0 } else { true };
            if judge {
                if tomb || nrec.values().any(|&n| n >= 2) {
                    nontrivial = true;
                }
                let after = |e: String| format!("after {}: {e}", basic::describe_step(prog, i));
                basic::sweep_list(&ctx, &mut model, st).map_err(after)?;
                list_vs_lookup(&ctx, st, model.index_dir).map_err(after)?;
            }
        }
        st.class(if bulk { "bulk_many_keys" } else { "random_history" });
        if tomb {
            st.class("tombstone_present");
        }
        if nontrivial {
            st.class("nontrivial");
            st.nontrivial(hash_of(prog));
        }
        st.sample(|| {
            if bulk {
                serde_json::json!({"bulk_keys": prog.keys.len(), "steps": prog.steps.len(), "first_key": prog.keys[0]})
            } else {
                serde_json::to_value(prog).unwrap()
            }
        });
        Ok(())
    }
}
