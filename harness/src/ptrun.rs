//! Running driver steps under the ptrace supervisor with a per-gate decision callback.

use crate::ops::{Out, Program};
use crate::sup::{driver_cmd, read_outs, Ev, Gate, Sup};
use std::path::{Path, PathBuf};

#[derive(Clone, Debug, PartialEq)]
pub enum Decision {
    Continue,
    Kill,
    /// tear the write at byte k and kill at its return
    Torn(u64),
    /// short write of k bytes (the process lives on)
    Short(u64),
    Errno(i32),
}

#[derive(Clone, Debug)]
pub struct GateRec {
    pub gate: Gate,
    pub ret: Option<i64>,
    pub decision: Decision,
    /// index of the step whose window the gate fell in
    pub step: usize,
}

#[derive(Debug)]
pub struct SupRun {
    pub gates: Vec<GateRec>,
    /// results the driver managed to write (step index, out, t0, t1)
    pub outs: Vec<(usize, Out, u128, u128)>,
    /// "e<code>" or "s<signal>"
    pub status: String,
    pub killed_by_us: bool,
    pub log: Vec<String>,
}

thread_local! {
    static CUR_STEP: std::cell::Cell<usize> = const { std::cell::Cell::new(0) };
}

/// Inside a `decide` callback: the index of the step whose window the gate falls in.
pub fn current_step() -> usize {
    CUR_STEP.with(|c| c.get())
}

pub struct Paths {
    pub cache: PathBuf,
    pub scratch: PathBuf,
    pub prog_file: PathBuf,
    pub out_file: PathBuf,
}

impl Paths {
    pub fn new(root: &Path, cache: &Path, scratch: &Path, prog: &Program) -> Paths {
        let prog_file = root.join("prog.json");
        std::fs::write(&prog_file, serde_json::to_string(prog).unwrap()).expect("write program file");
        Paths { cache: cache.to_path_buf(), scratch: scratch.to_path_buf(), prog_file, out_file: root.join("driver_out.jsonl") }
    }
}

/// Runs steps `from..to` in one traced driver process. `decide(gate, index)` is called at
/// every gate (index counts gates of this run from 0) and may inspect the live tree: the
/// calling thread of the subject is held meanwhile.
pub fn run_supervised(
    paths: &Paths,
    from: usize,
    to: usize,
    gate_fs: bool,
    cwd: Option<&Path>,
    decide: impl FnMut(&Gate, usize) -> Decision,
) -> Result<SupRun, String> {
    run_supervised_opt(paths, from, to, gate_fs, cwd, false, decide)
}

/// `settle`: the driver waits for background work of dropped writers before it exits.
pub fn run_supervised_opt(
    paths: &Paths,
    from: usize,
    to: usize,
    gate_fs: bool,
    cwd: Option<&Path>,
    settle: bool,
    mut decide: impl FnMut(&Gate, usize) -> Decision,
) -> Result<SupRun, String> {
    let _ = std::fs::remove_file(&paths.out_file);
    let mut cmd = driver_cmd(&paths.cache, &paths.scratch, &paths.prog_file, from, to, &paths.out_file);
    if settle {
        cmd.push("--settle".into());
    }
    let mut sup = Sup::spawn(gate_fs, 120, &[cmd], cwd).map_err(|e| format!("INFRA: cannot start ptsup: {e}"))?;
    let mut gates: Vec<GateRec> = Vec::new();
    let mut status = String::new();
    let mut killed = false;
    let mut cur_step = from;
    CUR_STEP.with(|c| c.set(from));
    loop {
        match sup.next() {
            Ev::Marker { begin, n, .. } => {
                if begin {
                    cur_step = n;
                    CUR_STEP.with(|c| c.set(n));
                }
            }
            Ev::Gate(g) => {
                let idx = gates.len();
                let d = decide(&g, idx);
                match &d {
                    Decision::Continue => sup.reply("C"),
                    Decision::Kill => {
                        killed = true;
                        sup.reply("K")
                    }
                    Decision::Torn(k) => {
                        killed = true;
                        sup.reply(&format!("T {k}"))
                    }
                    Decision::Short(k) => sup.reply(&format!("W {k}")),
                    Decision::Errno(e) => sup.reply(&format!("E {e}")),
                }
                gates.push(GateRec { gate: g, ret: None, decision: d, step: cur_step });
            }
            Ev::Ret { seq, ret, .. } => {
                if let Some(g) = gates.iter_mut().rev().find(|g| g.gate.seq == seq) {
                    g.ret = Some(ret);
                }
            }
            Ev::Quiescent => sup.reply("A"),
            Ev::Exit { status: s, .. } => status = s,
            Ev::Done => break,
            Ev::Fatal(m) => {
                if m.contains("timeout") {
                    // (not a verdict: the supervised runs are slow by construction; C20 turns a
                    // reproducible one into its "does not terminate" finding)
                    return Err(format!("INFRA: the supervised call did not finish within the supervisor's time limit ({m})"));
                }
                return Err(format!("INFRA: supervisor: {m}"));
            }
        }
    }
    let log = std::mem::take(&mut sup.log);
    let code = sup.finish();
    if code != 0 && code != -1 {
        return Err(format!("INFRA: ptsup exited with {code}"));
    }
    let outs = read_outs(&paths.out_file)?;
    Ok(SupRun { gates, outs, status, killed_by_us: killed, log })
}
