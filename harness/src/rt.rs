//! Runtime glue: the same harness source is compiled against async-std or tokio.

use std::future::Future;

#[cfg(all(feature = "rt-async-std", feature = "rt-tokio"))]
compile_error!("choose one of rt-async-std / rt-tokio");
#[cfg(not(any(feature = "rt-async-std", feature = "rt-tokio")))]
compile_error!("choose one of rt-async-std / rt-tokio");

#[cfg(feature = "rt-async-std")]
pub const BUILD: &str = "async-std";
#[cfg(feature = "rt-tokio")]
pub const BUILD: &str = "tokio";

#[cfg(feature = "rt-async-std")]
pub use futures::io::{AsyncReadExt, AsyncWriteExt};
#[cfg(feature = "rt-tokio")]
pub use tokio::io::{AsyncReadExt, AsyncWriteExt};

#[cfg(feature = "rt-async-std")]
pub fn block_on<F: Future>(f: F) -> F::Output {
    async_std::task::block_on(f)
}

#[cfg(feature = "rt-tokio")]
thread_local! {
    static RT: std::cell::RefCell<Option<tokio::runtime::Runtime>> = const { std::cell::RefCell::new(None) };
}

#[cfg(feature = "rt-tokio")]
fn new_rt() -> tokio::runtime::Runtime {
    tokio::runtime::Builder::new_current_thread()
        .enable_all()
        .max_blocking_threads(8)
        .build()
        .expect("tokio runtime")
}

#[cfg(feature = "rt-tokio")]
pub fn block_on<F: Future>(f: F) -> F::Output {
    RT.with(|cell| {
        // take the runtime out while running so that a panic does not poison the cell
        let rt = cell.borrow_mut().take().unwrap_or_else(new_rt);
        let r = std::panic::catch_unwind(std::panic::AssertUnwindSafe(|| rt.block_on(f)));
        *cell.borrow_mut() = Some(rt);
        match r {
            Ok(v) => v,
            Err(p) => std::panic::resume_unwind(p),
        }
    })
}

/// Waits until background work started by dropped handles has finished.
/// tokio: drops this thread's runtime, which joins its blocking pool (started tasks finish,
/// unstarted closures are dropped) — no clock involved. async-std: nothing can be joined;
/// callers poll the observable instead.
pub fn quiesce() {
    #[cfg(feature = "rt-tokio")]
    RT.with(|cell| {
        let rt = cell.borrow_mut().take();
        drop(rt);
    });
}
