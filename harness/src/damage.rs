//! Damage library: what a fault, a crash or a foreign process could leave in content and
//! bucket files. All functions are harness-side actions; the model is told the result by
//! observing the file afterwards (`observe`).

use crate::exec::Ctx;
use crate::ops::{AddrRef, BDamage, CDamage};
use std::path::Path;
use std::sync::Arc;

/// What sits at a content path, as seen by somebody who opens and reads it.
#[derive(Clone, Debug, PartialEq)]
pub enum FileObs {
    Absent,
    /// a regular file (or a symlink resolving to one) with these bytes
    Data { bytes: Arc<Vec<u8>>, symlink: bool },
    Dangling,
    Dir,
}

pub fn observe(p: &Path) -> FileObs {
    let lm = match std::fs::symlink_metadata(p) {
        Err(_) => return FileObs::Absent,
        Ok(m) => m,
    };
    let symlink = lm.file_type().is_symlink();
    match std::fs::metadata(p) {
        Err(_) => FileObs::Dangling,
        Ok(m) if m.is_dir() => FileObs::Dir,
        Ok(_) => match std::fs::read(p) {
            Ok(b) => FileObs::Data { bytes: Arc::new(b), symlink },
            Err(_) => FileObs::Dangling,
        },
    }
}

fn garbage(len: usize, salt: u64) -> Vec<u8> {
    crate::blob::Blob { len, salt: salt ^ 0xdead_beef_cafe, fill: crate::blob::Fill::Rand }.bytes()
}

/// Applies the damage; a damage that cannot apply (file absent, index out of range on an
/// empty file) degrades to the nearest applicable one so that generated cases are never
/// discarded. Guarantees for byte-changing patterns that the bytes actually differ.
pub fn damage_content(ctx: &Ctx, addr: AddrRef, dmg: &CDamage) {
    let p = ctx.content_path(addr);
    let cur = std::fs::read(&p).ok();
    // bit rot changes the bytes of the very file (same inode: every hard link of it sees the
    // change); a foreign writer replaces the file
    let in_place = matches!(dmg, CDamage::FlipBit(_) | CDamage::Truncate(_) | CDamage::Extend(_) | CDamage::Empty | CDamage::Garbage { .. })
        && std::fs::symlink_metadata(&p).map(|m| m.file_type().is_file()).unwrap_or(false);
    // (bit rot does not touch the modification time either)
    let keep_mtime = if in_place { std::fs::metadata(&p).and_then(|m| m.modified()).ok() } else { None };
    let write = |b: &[u8]| {
        if !in_place {
            let _ = std::fs::remove_file(&p);
        }
        if let Some(d) = p.parent() {
            std::fs::create_dir_all(d).unwrap();
        }
        std::fs::write(&p, b).unwrap();
        if let Some(t) = keep_mtime {
            if let Ok(f) = std::fs::OpenOptions::new().write(true).open(&p) {
                let _ = f.set_modified(t);
            }
        }
    };
    match dmg {
        CDamage::Delete => {
            let _ = std::fs::remove_file(&p);
        }
        CDamage::FlipBit(i) => match cur {
            Some(mut b) if !b.is_empty() => {
                let bit = i % (b.len() * 8);
                b[bit / 8] ^= 1 << (bit % 8);
                write(&b);
            }
            Some(_) => write(&[0x5a]),
            None => {}
        },
        CDamage::Truncate(n) => match cur {
            Some(b) if !b.is_empty() => {
                let n = n % b.len();
                write(&b[..n]);
            }
            Some(_) => write(&[0x5a]),
            None => {}
        },
        CDamage::Extend(extra) => {
            if let Some(mut b) = cur {
                b.extend_from_slice(if extra.is_empty() { &[0u8][..] } else { &extra[..] });
                write(&b);
            }
        }
        CDamage::Empty => match cur {
            Some(b) if !b.is_empty() => write(&[]),
            Some(_) => write(&[0x5a]),
            None => {}
        },
        CDamage::Garbage { off, len, salt } => match cur {
            Some(mut b) if !b.is_empty() => {
                let off = off % b.len();
                let len = (*len).max(1).min(b.len() - off);
                let g = garbage(len, *salt);
                let before = b.clone();
                b[off..off + len].copy_from_slice(&g);
                if b == before {
                    b[off] ^= 0xff;
                }
                write(&b);
            }
            Some(_) => write(&[0x5a]),
            None => {}
        },
        CDamage::Replace { len, salt } => {
            if let Some(b) = cur {
                let mut g = garbage(*len, *salt);
                if g == b {
                    g.push(1);
                }
                write(&g);
            }
        }
        CDamage::OtherBlob(i) => {
            if let Some(b) = cur {
                let mut o = ctx.blob(*i).to_vec();
                if o == b {
                    o.push(1);
                }
                write(&o);
            }
        }
        CDamage::SwapWith(other) => {
            let q = ctx.content_path(*other);
            if let (Some(a), Ok(b)) = (cur, std::fs::read(&q)) {
                if a != b {
                    write(&b);
                    let _ = std::fs::remove_file(&q);
                    std::fs::write(&q, &a).unwrap();
                }
            }
        }
        CDamage::SymlinkToBlob(i) => {
            if cur.is_some() {
                let fodder = ctx.scratch.join(format!("fodder_{i}"));
                std::fs::write(&fodder, &ctx.blob(*i)[..]).unwrap();
                let _ = std::fs::remove_file(&p);
                std::os::unix::fs::symlink(&fodder, &p).unwrap();
            }
        }
        CDamage::SymlinkDangling => {
            if cur.is_some() {
                let _ = std::fs::remove_file(&p);
                std::os::unix::fs::symlink(ctx.scratch.join("does-not-exist"), &p).unwrap();
            }
        }
        CDamage::SymlinkToDir => {
            if cur.is_some() {
                let _ = std::fs::remove_file(&p);
                std::os::unix::fs::symlink(&ctx.scratch, &p).unwrap();
            }
        }
    }
}

/// Applies bucket damage to raw bytes (pure), so engines can also compute it without a file.
pub fn damage_bucket_bytes(cur: &[u8], dmg: &BDamage) -> Vec<u8> {
    let mut b = cur.to_vec();
    let lf_positions: Vec<usize> = b.iter().enumerate().filter(|(_, &c)| c == b'\n').map(|(i, _)| i).collect();
    match dmg {
        BDamage::CutAt(n) => {
            let n = (*n).min(b.len());
            b.truncate(n);
        }
        BDamage::FlipBit(i) => {
            if !b.is_empty() {
                let bit = i % (b.len() * 8);
                b[bit / 8] ^= 1 << (bit % 8);
            }
        }
        BDamage::Overwrite { off, bytes } => {
            if !b.is_empty() {
                let off = off % b.len();
                for (k, x) in bytes.iter().enumerate() {
                    if off + k < b.len() {
                        b[off + k] = *x;
                    }
                }
            }
        }
        BDamage::AppendLine(g) => {
            b.push(b'\n');
            b.extend(g.iter().filter(|&&c| c != b'\n'));
        }
        BDamage::InsertLine { at_record, bytes } => {
            // insert "\n<garbage>" right before the LF that starts record `at_record`
            let pos = if lf_positions.is_empty() { b.len() } else { lf_positions[at_record % lf_positions.len()] };
            let mut ins = vec![b'\n'];
            ins.extend(bytes.iter().filter(|&&c| c != b'\n'));
            b.splice(pos..pos, ins);
        }
        BDamage::DuplicateRange { off, len } => {
            if !b.is_empty() {
                let off = off % b.len();
                let len = (*len).max(1).min(b.len() - off);
                let frag = b[off..off + len].to_vec();
                b.extend_from_slice(&frag);
            }
        }
        BDamage::StripNewline(n) => {
            if !lf_positions.is_empty() {
                let pos = lf_positions[n % lf_positions.len()];
                b.remove(pos);
            }
        }
        BDamage::AppendRaw(g) => b.extend_from_slice(g),
        BDamage::AppendLineFrom(off) => {
            if !b.is_empty() {
                let off = off % b.len();
                let end = b[off..].iter().position(|&c| c == b'\n').map(|p| off + p).unwrap_or(b.len());
                let frag = b[off..end].to_vec();
                b.push(b'\n');
                b.extend_from_slice(&frag);
            }
        }
        BDamage::BecomeDir | BDamage::BecomeSymlink => {}
        BDamage::GarbageTail { total, line, salt } => {
            let line = (*line).max(1);
            let mut k = 0u64;
            let start = b.len();
            while b.len() - start < *total {
                b.push(b'\n');
                let g = garbage(line.min(*total), salt.wrapping_add(k));
                b.extend(g.iter().map(|&c| if c == b'\n' { 0xfe } else { c }));
                k += 1;
            }
        }
        BDamage::CrBeforeLf(n) => {
            // the first LF starts the first record (nothing before it): use later ones
            if lf_positions.len() >= 2 {
                let pos = lf_positions[1 + n % (lf_positions.len() - 1)];
                b.insert(pos, b'\r');
            } else if !b.is_empty() {
                // a single record: CRLF-terminate it at the end of the file
                b.extend_from_slice(b"\r\n");
            }
        }
    }
    b
}

pub fn damage_bucket(p: &Path, dmg: &BDamage) {
    if let BDamage::BecomeDir = dmg {
        if std::fs::symlink_metadata(p).map(|m| m.is_file()).unwrap_or(false) {
            let _ = std::fs::remove_file(p);
            let _ = std::fs::create_dir(p);
        }
        return;
    }
    if let BDamage::BecomeSymlink = dmg {
        if std::fs::symlink_metadata(p).map(|m| m.file_type().is_file()).unwrap_or(false) {
            // the copy lives outside the cache, in the harness's scratch directory next to it
            let farm = p.ancestors().nth(4).and_then(|c| c.parent()).map(|r| r.join("scratch").join("bucket-farm")).unwrap_or_else(std::env::temp_dir);
            let _ = std::fs::create_dir_all(&farm);
            let copy = farm.join(p.file_name().unwrap_or_default());
            if std::fs::copy(p, &copy).is_ok() {
                let _ = std::fs::remove_file(p);
                let _ = std::os::unix::fs::symlink(&copy, p);
            }
        }
        return;
    }
    let cur = match std::fs::read(p) {
        Ok(b) => b,
        Err(_) => return,
    };
    let new = damage_bucket_bytes(&cur, dmg);
    write_keeping_mtime(p, &new, new.len() == cur.len());
}

/// Writes the file; with `keep` its modification time stays what it was (bit rot, or a tool that
/// restores timestamps: nothing about a file's age says its bytes are unchanged).
pub fn write_keeping_mtime(p: &Path, bytes: &[u8], keep: bool) {
    let t = if keep { std::fs::metadata(p).and_then(|m| m.modified()).ok() } else { None };
    std::fs::write(p, bytes).unwrap();
    if let Some(t) = t {
        if let Ok(f) = std::fs::OpenOptions::new().write(true).open(p) {
            let _ = f.set_modified(t);
        }
    }
}
