//! `pbt <property> [--tier quick|thorough] [--seed N] [--out FILE] [--verif DIR]
//!      [--workers N] [--replay FILE] [--scale F]`
use cvh::engine::{Args, Tier};
use std::path::PathBuf;

fn main() {
    let argv: Vec<String> = std::env::args().collect();
    if argv.len() < 2 {
        eprintln!("usage: pbt <property> [--tier quick|thorough] [--seed N] [--out FILE] [--replay FILE]");
        std::process::exit(2);
    }
    let prop = argv[1].clone();
    let mut args = Args {
        tier: match std::env::var("VERIF_TIER").as_deref() {
            Ok("thorough") => Tier::Thorough,
            _ => Tier::Quick,
        },
        seed: std::env::var("VERIF_SEED").ok().and_then(|s| s.parse::<i64>().ok()).map(|x| x as u64).unwrap_or(20260927),
        out: PathBuf::from(format!("/verif/evidence/.parts/{prop}.{}.json", cvh::rt::BUILD)),
        verif: PathBuf::from("/verif"),
        workers: std::thread::available_parallelism().map(|n| n.get()).unwrap_or(8).min(16),
        replay: None,
        scale: 1.0,
    };
    let mut i = 2;
    while i < argv.len() {
        let val = argv.get(i + 1).cloned().unwrap_or_default();
        match argv[i].as_str() {
            "--tier" => args.tier = if val == "thorough" { Tier::Thorough } else { Tier::Quick },
            "--seed" => args.seed = val.parse::<i64>().map(|x| x as u64).unwrap_or(args.seed),
            "--out" => args.out = PathBuf::from(val),
            "--verif" => args.verif = PathBuf::from(val),
            "--workers" => args.workers = val.parse().unwrap_or(args.workers),
            "--replay" => args.replay = Some(PathBuf::from(val)),
            "--scale" => args.scale = val.parse().unwrap_or(1.0),
            other => {
                eprintln!("unknown argument {other}");
                std::process::exit(2);
            }
        }
        i += 2;
    }
    let code = cvh::run_property(&prop, &args);
    std::process::exit(code);
}
