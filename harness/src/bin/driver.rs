fn main(){}
