//! `driver exec --cache DIR --scratch DIR --prog FILE --from I --to J --out FILE [--markers]`
//! executes steps I..J of a program (one JSON line of result per step, appended to --out);
//! with --markers every step is bracketed by marker system calls the ptrace supervisor
//! recognises: write(1023, "CVH:BEGIN:<i>") / write(1023, "CVH:END:<i>").
//!
//! `driver server` reads `{"cache":..,"scratch":..,"keys":..,"blobs":..,"step":..,"dest_n":..}`
//! lines on stdin and answers one result line each (used for the tokio executor of C12).
use cvh::exec::{run_step, Ctx};
use cvh::ops::{Program, Step};
use std::io::{BufRead, Write};
use std::path::PathBuf;

fn main() {
    cvh::exec::install_panic_hook();
    cvh::exec::mark_worker_thread();
    let argv: Vec<String> = std::env::args().collect();
    if argv.len() < 2 {
        eprintln!("usage: driver exec|server ...");
        std::process::exit(2);
    }
    match argv[1].as_str() {
        "exec" => exec(&argv[2..]),
        "server" => server(),
        _ => std::process::exit(2),
    }
}

fn exec(a: &[String]) {
    let mut cache = PathBuf::new();
    let mut scratch = PathBuf::new();
    let mut prog = PathBuf::new();
    let mut out = PathBuf::new();
    let (mut from, mut to) = (0usize, usize::MAX);
    let mut markers = false;
    let mut settle = false;
    let mut i = 0;
    while i < a.len() {
        match a[i].as_str() {
            "--cache" => cache = PathBuf::from(&a[i + 1]),
            "--scratch" => scratch = PathBuf::from(&a[i + 1]),
            "--prog" => prog = PathBuf::from(&a[i + 1]),
            "--out" => out = PathBuf::from(&a[i + 1]),
            "--from" => from = a[i + 1].parse().unwrap(),
            "--to" => to = a[i + 1].parse().unwrap(),
            "--markers" => {
                markers = true;
                i += 1;
                continue;
            }
            "--settle" => {
                settle = true;
                i += 1;
                continue;
            }
            x => {
                eprintln!("driver: unknown argument {x}");
                std::process::exit(2);
            }
        }
        i += 2;
    }
    let p: Program = serde_json::from_str(&std::fs::read_to_string(&prog).expect("read program")).expect("decode program");
    cvh::exec::ALLOW_CHDIR.store(true, std::sync::atomic::Ordering::SeqCst);
    cvh::exec::IN_DRIVER.store(true, std::sync::atomic::Ordering::SeqCst);
    let ctx = Ctx::new(cache, scratch, &p.keys, &p.blobs);
    ctx.dest_n.set(from * 1000);
    // materialise blobs before any window opens so that lazily generating them is not
    // part of an operation
    for s in &p.steps {
        if let Some(b) = step_blob(s) {
            let _ = ctx.blob(b);
        }
    }
    let mut outf = std::fs::OpenOptions::new().create(true).append(true).open(&out).expect("open out");
    let to = to.min(p.steps.len());
    for i in from..to {
        cvh::exec::set_window_markers(if markers { Some(i) } else { None });
        let r = run_step(&ctx, &p.steps[i]);
        let line = serde_json::json!({"i": i, "out": r.out, "t0": r.t0.to_string(), "t1": r.t1.to_string()});
        let mut text = line.to_string();
        text.push('\n');
        outf.write_all(text.as_bytes()).expect("write out");
    }
    // destinations on the other filesystem are created under a per-process directory
    for root in ["/var/tmp", "/dev/shm"] {
        let _ = std::fs::remove_dir_all(std::path::Path::new(root).join(format!("cvh-x.{}", std::process::id())));
    }
    if settle {
        // let background work of dropped async writers finish before the process goes away
        // (tokio: join the blocking pool; async-std: nothing to join, so poll the temp area)
        cvh::exec::set_window_markers(None);
        cvh::rt::quiesce();
        let tmp = ctx.cache.join("tmp");
        let t0 = std::time::Instant::now();
        while t0.elapsed().as_millis() < 3000 {
            let empty = std::fs::read_dir(&tmp).map(|r| r.count() == 0).unwrap_or(true);
            if empty {
                break;
            }
            std::thread::sleep(std::time::Duration::from_millis(2));
        }
    }
}

fn step_blob(s: &Step) -> Option<usize> {
    use cvh::ops::Op;
    match &s.op {
        Op::Write(w) | Op::Abandon { spec: w, .. } => Some(w.blob),
        Op::LinkTo(l) => Some(l.blob),
        _ => None,
    }
}

fn server() {
    cvh::exec::IN_DRIVER.store(true, std::sync::atomic::Ordering::SeqCst);
    let stdin = std::io::stdin();
    let mut stdout = std::io::stdout();
    for line in stdin.lock().lines() {
        let line = match line {
            Ok(l) => l,
            Err(_) => break,
        };
        if line.trim().is_empty() {
            continue;
        }
        let v: serde_json::Value = serde_json::from_str(&line).expect("request");
        let keys: Vec<String> = serde_json::from_value(v["keys"].clone()).unwrap();
        let blobs: Vec<cvh::blob::Blob> = serde_json::from_value(v["blobs"].clone()).unwrap();
        let step: Step = serde_json::from_value(v["step"].clone()).unwrap();
        let ctx = Ctx::new(PathBuf::from(v["cache"].as_str().unwrap()), PathBuf::from(v["scratch"].as_str().unwrap()), &keys, &blobs);
        ctx.dest_n.set(v["dest_n"].as_u64().unwrap_or(0) as usize);
        let r = run_step(&ctx, &step);
        let resp = serde_json::json!({"out": r.out, "t0": r.t0.to_string(), "t1": r.t1.to_string()});
        let mut text = resp.to_string();
        text.push('\n');
        stdout.write_all(text.as_bytes()).unwrap();
        stdout.flush().unwrap();
    }
}
