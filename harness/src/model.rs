//! Reference model of the cache: an in-memory map from keys to entries and from addresses
//! to content states. `Model::step` judges the observed outcome of one step against the set
//! of admissible outcomes and advances the state.
//!
//! Semantics come from the property statements and the crate documentation:
//! `remove` appends a tombstone (also for a never-written key); `remove_hash` of absent
//! content is an I/O not-found error; a full removal deletes the content of the current
//! entry and then the bucket file; `clear` empties the cache directory.

use crate::blob::{self, Algo};
use crate::damage::{observe, FileObs};
use crate::exec::{declared_size, sha256_hex, Ctx, PREEXISTING};
use crate::ops::*;
use crate::reffmt;
use serde_json::Value;
use std::collections::BTreeMap;
use std::sync::Arc;

#[derive(Clone, Debug, PartialEq)]
pub enum TimeSpec {
    Exact(u128),
    /// assigned by the library: must lie inside the wall-clock window of the call
    Window(u128, u128),
}

#[derive(Clone, Debug, PartialEq)]
pub struct Entry {
    pub integrity: String,
    pub size: u64,
    pub time: TimeSpec,
    pub metadata: Value,
    pub raw_metadata: Option<Vec<u8>>,
}

#[derive(Clone, Debug, Default, PartialEq)]
pub struct KeyState {
    pub bucket_exists: bool,
    pub entry: Option<Entry>,
}

#[derive(Clone, Debug, PartialEq)]
pub enum CState {
    Data { bytes: Arc<Vec<u8>>, symlink: bool },
    Dangling,
    Dir,
}

#[derive(Clone, Debug)]
pub struct Model {
    pub index: BTreeMap<String, KeyState>,
    pub content: BTreeMap<(Algo, String), CState>,
    pub index_dir: bool,
    /// a foreign record was planted in another key's bucket: listings are no longer judged
    pub list_unjudged: bool,
    /// keys whose bucket was damaged in a way the reference reader resolved (bookkeeping)
    pub damaged_buckets: u32,
    /// keys that received a planted record with arbitrary integrity text: their lookups are
    /// not judged by the model
    pub unjudged_keys: std::collections::BTreeSet<String>,
    /// `<cache>/tmp` points to another filesystem: a write may fail with an I/O error because
    /// the temp file cannot be renamed into place (it may also succeed, if the implementation copes)
    pub tmp_elsewhere: bool,
    /// pure mode: never look at the disk (used when candidate serial orders are replayed
    /// after the fact); a successful write is taken to publish its data
    pub pure: bool,
    /// pure mode only: addresses a rejected commit may or may not have published (the data is
    /// valid either way); the first observation of such an address settles it
    pub maybe_content: BTreeMap<(Algo, String), Arc<Vec<u8>>>,
    /// link targets the user deleted (and no later step re-created)
    pub removed_targets: std::collections::BTreeSet<usize>,
    /// link targets the harness wrote (and has not deleted): index -> blob. They belong to the
    /// user: no cache call may delete, truncate or rewrite them
    pub live_targets: BTreeMap<usize, usize>,
}

pub fn entry_matches(e: &Entry, key: &str, m: &MetaNorm) -> Result<(), String> {
    if m.key != key {
        return Err(format!("key {:?} != {:?}", m.key, key));
    }
    if m.integrity != e.integrity {
        return Err(format!("integrity {:?} != expected {:?}", m.integrity, e.integrity));
    }
    if m.size != e.size {
        return Err(format!("size {} != expected {}", m.size, e.size));
    }
    let t: u128 = m.time.parse().map_err(|_| format!("bad time {:?}", m.time))?;
    match e.time {
        TimeSpec::Exact(x) => {
            if t != x {
                return Err(format!("time {t} != expected {x}"));
            }
        }
        TimeSpec::Window(a, b) => {
            if t < a || t > b {
                return Err(format!("default time {t} outside the call window [{a},{b}]"));
            }
        }
    }
    if m.metadata != e.metadata {
        return Err(format!("metadata {} != expected {}", m.metadata, e.metadata));
    }
    if m.raw_metadata != e.raw_metadata {
        return Err(format!("raw_metadata {:?} != expected {:?}", m.raw_metadata, e.raw_metadata));
    }
    Ok(())
}

fn obs_to_cstate(o: FileObs) -> Option<CState> {
    match o {
        FileObs::Absent => None,
        FileObs::Data { bytes, symlink } => Some(CState::Data { bytes, symlink }),
        FileObs::Dangling => Some(CState::Dangling),
        FileObs::Dir => Some(CState::Dir),
    }
}

/// What reading an address must give.
#[derive(Debug, PartialEq)]
pub enum ReadExp {
    Bytes(Arc<Vec<u8>>),
    ErrIntegrity,
    ErrIo { not_found: Option<bool> },
}

impl Model {
    pub fn new() -> Model {
        Model {
            index: BTreeMap::new(),
            content: BTreeMap::new(),
            index_dir: false,
            list_unjudged: false,
            damaged_buckets: 0,
            unjudged_keys: Default::default(),
            tmp_elsewhere: false,
            pure: false,
            maybe_content: BTreeMap::new(),
            removed_targets: Default::default(),
            live_targets: BTreeMap::new(),
        }
    }

    pub fn entry(&self, key: &str) -> Option<&Entry> {
        self.index.get(key).and_then(|k| k.entry.as_ref())
    }

    pub fn live_keys(&self) -> Vec<&String> {
        self.index.iter().filter(|(_, v)| v.entry.is_some()).map(|(k, _)| k).collect()
    }

    pub fn addr_of(ctx: &Ctx, a: AddrRef) -> (Algo, String) {
        (a.algo, blob::hexs(&blob::digest_raw(a.algo, &ctx.blob(a.blob))))
    }

    pub fn read_exp(&self, addr: &(Algo, String)) -> ReadExp {
        match self.content.get(addr) {
            None => ReadExp::ErrIo { not_found: Some(true) },
            Some(CState::Dangling) => ReadExp::ErrIo { not_found: Some(true) },
            Some(CState::Dir) => ReadExp::ErrIo { not_found: Some(false) },
            Some(CState::Data { bytes, .. }) => {
                if blob::hexs(&blob::digest_raw(addr.0, bytes)) == addr.1 {
                    ReadExp::Bytes(bytes.clone())
                } else {
                    ReadExp::ErrIntegrity
                }
            }
        }
    }

    fn judge_read(&self, what: &str, exp: ReadExp, out: &Out) -> Result<(), String> {
        match (&exp, out) {
            (ReadExp::Bytes(b), Out::Bytes(n, h)) => {
                if *n == b.len() as u64 && *h == sha256_hex(b) {
                    Ok(())
                } else {
                    Err(format!("{what}: delivered {n} bytes sha256={h}, stored {} bytes sha256={}", b.len(), sha256_hex(b)))
                }
            }
            (ReadExp::ErrIntegrity, Out::Err(ErrKind::Integrity, _)) => Ok(()),
            (ReadExp::ErrIo { not_found }, Out::Err(ErrKind::Io { not_found: nf }, _)) => {
                if not_found.map(|x| x == *nf).unwrap_or(true) {
                    Ok(())
                } else {
                    Err(format!("{what}: expected I/O error not_found={not_found:?}, got {}", out.short()))
                }
            }
            _ => Err(format!("{what}: expected {:?}, got {}", ExpShort(&exp), out.short())),
        }
    }

    fn set_tombstone(&mut self, key: &str) {
        let ks = self.index.entry(key.to_string()).or_default();
        ks.bucket_exists = true;
        ks.entry = None;
        self.index_dir = true;
    }

    /// After a write-like call the content file at `addr` must be `prev` or `Data(expect)`
    /// (must be `Data(expect)` when `must_publish`); adopts what is there.
    fn sync_published(
        &mut self,
        ctx: &Ctx,
        addr: &(Algo, String),
        expect: &Arc<Vec<u8>>,
        must_hold_data: bool,
        what: &str,
    ) -> Result<(), String> {
        if self.pure {
            if must_hold_data {
                self.content.insert(addr.clone(), CState::Data { bytes: expect.clone(), symlink: false });
                self.maybe_content.remove(addr);
            } else if !self.content.contains_key(addr) {
                self.maybe_content.insert(addr.clone(), expect.clone());
            }
            return Ok(());
        }
        let p = reffmt::content_path(&ctx.cache, addr.0, &addr.1);
        let now = obs_to_cstate(observe(&p));
        let prev = self.content.get(addr).cloned();
        let is_expected_data = matches!(&now, Some(CState::Data { bytes, .. }) if **bytes == **expect);
        // an earlier damaged / linked file may legitimately stay as it was (the write found
        // the address occupied); otherwise the complete data must be there
        // after a SUCCESSFUL write the complete data is there — whatever sat at the address before
        // (a damaged file, a link to something else) has been replaced; only a directory cannot be
        // renamed over and stays (the library then takes the address for occupied)
        let ok = is_expected_data || if must_hold_data { now == prev && matches!(prev, Some(CState::Dir)) } else { now == prev };
        if !ok {
            return Err(format!(
                "{what}: content file {} holds {} after the call (before: {}; data written: {} bytes)",
                reffmt::content_rel(addr.0, &addr.1),
                cshort(&now),
                cshort(&prev),
                expect.len()
            ));
        }
        match now {
            Some(c) => {
                self.content.insert(addr.clone(), c);
            }
            None => {
                self.content.remove(addr);
            }
        }
        Ok(())
    }

    /// Judges one executed step and advances the model. `Err` describes the violation.
    pub fn step(&mut self, ctx: &Ctx, step: &Step, out: &Out, t0: u128, t1: u128) -> Result<(), String> {
        if let Op::LinkTo(l) = &step.op {
            // (the harness re-creates the target file before every link call)
            self.removed_targets.remove(&l.target);
            if !l.relative {
                self.live_targets.insert(l.target, l.blob);
            }
        }
        if let Op::RemoveTarget { target } = &step.op {
            self.live_targets.remove(target);
        }
        self.step_inner(ctx, step, out, t0, t1)?;
        if !self.pure {
            for (t, b) in &self.live_targets {
                let p = ctx.target_path(*t);
                match std::fs::read(&p) {
                    Ok(bytes) if bytes[..] == ctx.blob(*b)[..] => {
                        // (odd-numbered targets were made read-only by their owner)
                        use std::os::unix::fs::PermissionsExt;
                        let mode = std::fs::metadata(&p).map(|m| m.permissions().mode() & 0o7777).unwrap_or(0o444);
                        if t % 2 == 1 && mode != 0o444 {
                            return Err(format!("after {}: the linked file {} (the user's, outside the cache, read-only) has mode {mode:o} now", step.op.name(), p.display()));
                        }
                    }
                    Ok(bytes) => {
                        return Err(format!("after {}: the linked file {} (the user's, outside the cache) was rewritten: it holds {} bytes now, {} were linked", step.op.name(), p.display(), bytes.len(), ctx.blob(*b).len()))
                    }
                    Err(e) => return Err(format!("after {}: the linked file {} (the user's, outside the cache) is gone: {e}", step.op.name(), p.display())),
                }
            }
            for t in &self.removed_targets {
                if std::fs::symlink_metadata(ctx.target_path(*t)).is_ok() {
                    return Err(format!(
                        "after {}: the file {} — a link target outside the cache which its owner had deleted — exists again",
                        step.op.name(),
                        ctx.target_path(*t).display()
                    ));
                }
            }
        }
        Ok(())
    }

    fn step_inner(&mut self, ctx: &Ctx, step: &Step, out: &Out, t0: u128, t1: u128) -> Result<(), String> {
        if let Out::Panic(m) = out {
            return Err(format!("{} panicked: {m}", step.op.name()));
        }
        if let Out::Hang = out {
            return Err(format!("{} did not return", step.op.name()));
        }
        if self.pure && !self.maybe_content.is_empty() {
            // the first observation of an address a rejected commit may have published settles it
            let a = match &step.op {
                Op::Exists { addr } | Op::ReadHash { addr } | Op::RemoveHash { addr } | Op::Stream { by: By::Addr(addr), .. } | Op::Extract { by: By::Addr(addr), .. } => {
                    Some((addr.algo, blob::hexs(&blob::digest_raw(addr.algo, &ctx.blob(addr.blob)))))
                }
                Op::Read { key } | Op::Stream { by: By::Key(key), .. } | Op::Extract { by: By::Key(key), .. } | Op::RemoveOpts { key, fully: true } => {
                    self.index.get(ctx.key(*key)).and_then(|k| k.entry.as_ref()).and_then(|e| blob::sri_address(&e.integrity))
                }
                _ => None,
            };
            if let Some(a) = a {
                if let Some(bytes) = self.maybe_content.remove(&a) {
                    let present = matches!(out, Out::Bool(true) | Out::Bytes(..) | Out::Extracted { .. } | Out::Unit);
                    if present && !self.content.contains_key(&a) {
                        self.content.insert(a, CState::Data { bytes, symlink: false });
                    }
                }
            }
            if matches!(step.op, Op::Clear) {
                self.maybe_content.clear();
            }
        }
        // lookups of a key holding a planted record: anything but a panic
        let keyed = match &step.op {
            Op::Read { key } | Op::Meta { key } | Op::IdxFind { key } | Op::Stream { by: By::Key(key), .. } | Op::Extract { by: By::Key(key), .. } => Some(*key),
            _ => None,
        };
        if let Some(k) = keyed {
            if self.unjudged_keys.contains(ctx.key(k)) {
                return Ok(());
            }
        }
        match &step.op {
            Op::TmpElsewhere => {
                self.tmp_elsewhere = true;
                Ok(())
            }
            Op::RemoveTarget { target } => {
                self.removed_targets.insert(*target);
                // every link reads what its target holds now
                let linked: Vec<(Algo, String)> =
                    self.content.iter().filter(|(_, c)| matches!(c, CState::Data { symlink: true, .. } | CState::Dangling)).map(|(a, _)| a.clone()).collect();
                if !self.pure {
                    for a in linked {
                        self.adopt_content(ctx, &a);
                    }
                }
                Ok(())
            }
            Op::PlantRecord { key, .. } => {
                self.unjudged_keys.insert(ctx.key(*key).to_string());
                self.index.entry(ctx.key(*key).to_string()).or_default().bucket_exists = true;
                self.index_dir = true;
                self.list_unjudged = true;
                Ok(())
            }
            Op::Write(s) => self.step_write(ctx, s, out, t0, t1),
            Op::TwoWriters { a, b, plan } => {
                let b_first = &crate::exec::two_b_first(*plan);
                // temp files are private: two writers open at once are their commits in order
                let (oa, ob) = match out {
                    Out::Pair(x, y) => (&**x, &**y),
                    o => return Err(format!("two writers: unexpected result {}", o.short())),
                };
                if *b_first {
                    self.step_write(ctx, b, ob, t0, t1).map_err(|e| format!("two writers open at once, the one committing first: {e}"))?;
                    self.step_write(ctx, a, oa, t0, t1).map_err(|e| format!("two writers open at once, the one committing second: {e}"))
                } else {
                    self.step_write(ctx, a, oa, t0, t1).map_err(|e| format!("two writers open at once, the one committing first: {e}"))?;
                    self.step_write(ctx, b, ob, t0, t1).map_err(|e| format!("two writers open at once, the one committing second: {e}"))
                }
            }
            Op::LinkTo(l) => self.step_link(ctx, l, out, t0, t1),
            Op::Read { key } => {
                let k = ctx.key(*key);
                match self.entry(k) {
                    None => expect_err(out, ErrKind::EntryNotFound, "read of absent key"),
                    Some(e) => {
                        let addr = blob::sri_address(&e.integrity).ok_or("model: bad integrity")?;
                        self.judge_read(&format!("read({k:?})"), self.read_exp(&addr), out)
                    }
                }
            }
            Op::ReadHash { addr } => {
                let a = Self::addr_of(ctx, *addr);
                self.judge_read("read_hash", self.read_exp(&a), out)
            }
            // a reader that is checked before its end, or dropped half-way: whatever it reports
            // (it may well have seen everything), it changes nothing and it does not panic
            Op::Stream { bufs, .. } if matches!(bufs.first(), Some(&x) if x == usize::MAX - 2 || x == usize::MAX - 3) => Ok(()),
            Op::Stream { by, .. } => match by {
                By::Key(key) => {
                    let k = ctx.key(*key);
                    match self.entry(k) {
                        None => expect_err(out, ErrKind::EntryNotFound, "stream open of absent key"),
                        Some(e) => {
                            let addr = blob::sri_address(&e.integrity).ok_or("model: bad integrity")?;
                            self.judge_read(&format!("stream({k:?})"), self.read_exp(&addr), out)
                        }
                    }
                }
                By::Addr(a) => {
                    let a = Self::addr_of(ctx, *a);
                    self.judge_read("stream_hash", self.read_exp(&a), out)
                }
            },
            Op::Meta { key } | Op::IdxFind { key } => {
                let k = ctx.key(*key);
                match (self.entry(k), out) {
                    (None, Out::Meta(None)) => Ok(()),
                    (Some(e), Out::Meta(Some(m))) => entry_matches(e, k, m).map_err(|x| format!("lookup({k:?}): {x}")),
                    (None, o) => Err(format!("lookup({k:?}): expected not found, got {}", o.short())),
                    (Some(e), o) => Err(format!("lookup({k:?}): expected entry {:?}, got {}", e.integrity, o.short())),
                }
            }
            Op::Exists { addr } => {
                let a = Self::addr_of(ctx, *addr);
                let exp = match self.content.get(&a) {
                    None | Some(CState::Dangling) => false,
                    Some(_) => true,
                };
                if *out == Out::Bool(exp) {
                    Ok(())
                } else {
                    Err(format!("exists: expected {exp}, got {}", out.short()))
                }
            }
            Op::List | Op::IdxLs => self.judge_list(out),
            Op::Extract { kind, checked, by, dest } => self.step_extract(ctx, *kind, *checked, *by, *dest, out),
            Op::Remove { key } | Op::IdxDelete { key } | Op::RemoveOpts { key, fully: false } => {
                expect_unit(out, "remove")?;
                self.set_tombstone(ctx.key(*key));
                Ok(())
            }
            Op::RemoveHash { addr } => {
                let a = Self::addr_of(ctx, *addr);
                if self.content.contains_key(&a) {
                    expect_unit(out, "remove_hash of present content")?;
                    self.content.remove(&a);
                    Ok(())
                } else {
                    expect_err(out, ErrKind::Io { not_found: true }, "remove_hash of absent content")
                }
            }
            Op::RemoveHashMulti { addr, .. } => {
                // the strongest hash is the address; the weaker one is noise
                let a = Self::addr_of(ctx, *addr);
                if self.content.contains_key(&a) {
                    expect_unit(out, "remove_hash (two-hash integrity) of present content")?;
                    self.content.remove(&a);
                    Ok(())
                } else {
                    expect_err(out, ErrKind::Io { not_found: true }, "remove_hash (two-hash integrity) of absent content")
                }
            }
            Op::SwitchCache => {
                if let Out::Bool(true) = out {
                    // the path leads to a fresh, empty directory now
                    self.index.clear();
                    self.content.clear();
                    self.index_dir = false;
                    self.list_unjudged = false;
                    self.tmp_elsewhere = false;
                    self.unjudged_keys.clear();
                    self.maybe_content.clear();
                }
                Ok(())
            }
            Op::RemoveOpts { key, fully: true } => {
                let k = ctx.key(*key).to_string();
                let ks = self.index.get(&k).cloned().unwrap_or_default();
                match ks.entry {
                    Some(e) => {
                        let addr = blob::sri_address(&e.integrity).ok_or("model: bad integrity")?;
                        if self.content.contains_key(&addr) {
                            expect_unit(out, "remove_fully")?;
                            self.content.remove(&addr);
                            self.index.insert(k, KeyState { bucket_exists: false, entry: None });
                            Ok(())
                        } else {
                            expect_err(out, ErrKind::Io { not_found: true }, "remove_fully whose content is already gone")
                        }
                    }
                    None => {
                        if ks.bucket_exists {
                            expect_unit(out, "remove_fully of a removed key")?;
                            self.index.insert(k, KeyState { bucket_exists: false, entry: None });
                            Ok(())
                        } else {
                            expect_err(out, ErrKind::Io { not_found: true }, "remove_fully of a never-written key")
                        }
                    }
                }
            }
            Op::Clear => {
                expect_unit(out, "clear")?;
                self.index.clear();
                self.content.clear();
                self.index_dir = false;
                self.list_unjudged = false;
                self.tmp_elsewhere = false;
                if self.pure {
                    return Ok(());
                }
                let left: Vec<_> = std::fs::read_dir(&ctx.cache).map(|r| r.flatten().map(|e| e.file_name()).collect()).unwrap_or_default();
                if !left.is_empty() {
                    return Err(format!("clear left {:?} in the cache directory", left));
                }
                Ok(())
            }
            Op::IdxInsert { key, fields } => {
                let k = ctx.key(*key);
                match fields.integrity {
                    Some(a) => {
                        let s = ctx.sri_of(a);
                        if *out != Out::Int(s.clone()) {
                            return Err(format!("index insert: expected {s}, got {}", out.short()));
                        }
                        let e = Entry {
                            integrity: s,
                            size: fields.size.unwrap_or(0) as u64,
                            time: match &fields.time {
                                Some(t) => TimeSpec::Exact(t.parse().unwrap()),
                                None => TimeSpec::Window(t0, t1),
                            },
                            metadata: fields.metadata.clone().unwrap_or(Value::Null),
                            raw_metadata: fields.raw_metadata.clone(),
                        };
                        let ks = self.index.entry(k.to_string()).or_default();
                        ks.bucket_exists = true;
                        ks.entry = Some(e);
                        self.index_dir = true;
                        Ok(())
                    }
                    None => {
                        if !matches!(out, Out::Int(_)) {
                            return Err(format!("index insert of a null-integrity record: got {}", out.short()));
                        }
                        self.set_tombstone(k);
                        Ok(())
                    }
                }
            }
            Op::Abandon { spec, at: AbandonAt::CancelThenCommit(_) } => {
                // whether the cancelled chunk counts is the library's choice; what its commit
                // published (if anything) is taken from the disk — the content invariant still
                // holds for it: a file under an address hashes to it
                if !matches!(out, Out::Unit) {
                    return Err(format!("cancelled write, then commit: {}", out.short()));
                }
                if !self.pure {
                    let algo = if matches!(spec.entry, WEntry::OneShot | WEntry::Create) { Algo::Sha256 } else { spec.algo };
                    // any prefix of the data may have been stored
                    let base = reffmt::content_path(&ctx.cache, algo, "000000").parent().and_then(|p| p.parent()).and_then(|p| p.parent()).map(|p| p.to_path_buf());
                    if let Some(dir) = base {
                        for (rel, ft) in reffmt::walk_files(&dir) {
                            if ft.is_file() {
                                let hex: String = rel.split('/').collect();
                                self.adopt_content(ctx, &(algo, hex));
                            }
                        }
                    }
                    if let Some(k) = spec.key {
                        let key = ctx.key(k).to_string();
                        self.adopt_bucket(ctx, &key);
                        self.index_dir = ctx.cache.join("index-v5").exists();
                    }
                }
                Ok(())
            }
            Op::Abandon { at: AbandonAt::CommitDropped(_), .. } if matches!(out, Out::Panic(m) if m.starts_with("INFRA:")) => Err(out.short()),
            Op::Abandon { spec, at: AbandonAt::CommitDropped(_) } if !matches!(out, Out::Unit) => self.step_write(ctx, spec, out, t0, t1),
            Op::Abandon { spec, at: AbandonAt::CommitDropped(_) } => {
                if self.pure {
                    return Ok(());
                }
                let data = ctx.blob(spec.blob);
                let opts = spec.entry == WEntry::Opts;
                let algo = if matches!(spec.entry, WEntry::OneShot | WEntry::Create) { Algo::Sha256 } else { spec.algo };
                let addr = (algo, blob::hexs(&blob::digest_raw(algo, &data)));
                let valid = |m: &Model| matches!(m.content.get(&addr), Some(CState::Data { bytes, .. }) if **bytes == **data);
                let had_valid = valid(self);
                self.adopt_content(ctx, &addr);
                if had_valid && !valid(self) {
                    return Err(format!("a commit cancelled in flight took away the valid {} content of {} bytes that was stored before it", algo.name(), data.len()));
                }
                if let Some(k) = spec.key {
                    let key = ctx.key(k).to_string();
                    let old = self.entry(&key).cloned();
                    let old_bucket = self.index.get(&key).map(|ks| ks.bucket_exists).unwrap_or(false);
                    self.adopt_bucket(ctx, &key);
                    self.index_dir = self.index_dir || ctx.cache.join("index-v5").exists();
                    let new = self.entry(&key).cloned();
                    let compatible = |a: &Option<Entry>, b: &Option<Entry>| match (a, b) {
                        (None, None) => true,
                        (Some(a), Some(b)) => {
                            a.integrity == b.integrity
                                && a.size == b.size
                                && a.metadata == b.metadata
                                && a.raw_metadata == b.raw_metadata
                                && match (&a.time, &b.time) {
                                    (TimeSpec::Exact(x), TimeSpec::Exact(y)) => x == y,
                                    (TimeSpec::Exact(x), TimeSpec::Window(lo, hi)) | (TimeSpec::Window(lo, hi), TimeSpec::Exact(x)) => x >= lo && x <= hi,
                                    (TimeSpec::Window(a0, a1), TimeSpec::Window(b0, b1)) => a0 == b0 && a1 == b1,
                                }
                        }
                        _ => false,
                    };
                    if !compatible(&new, &old) {
                        let (integ, declare) = if opts { (spec.integ, spec.declare) } else { (IntegDecl::None, Declare::None) };
                        let other = crate::exec::other_blob(ctx, spec.blob);
                        let (_, _, ok_int, undecided_int, ok_size) = self.commit_checks(integ, declare, algo, &data, &other);
                        let exp = Self::expected_entry(ctx, spec, t0, t1);
                        let same = match &new {
                            Some(n) => {
                                n.integrity == exp.integrity
                                    && n.size == exp.size
                                    && n.metadata == exp.metadata
                                    && n.raw_metadata == exp.raw_metadata
                                    && match (&n.time, &exp.time) {
                                        (TimeSpec::Exact(a), TimeSpec::Exact(b)) => a == b,
                                        (TimeSpec::Exact(a), TimeSpec::Window(lo, hi)) => a + 1 >= *lo && *a <= hi + 1,
                                        _ => false,
                                    }
                            }
                            None => false,
                        };
                        if !same || !((ok_int || undecided_int) && ok_size) {
                            return Err(format!("a commit cancelled in flight changed the entry of {key:?} to {new:?}: neither the previous entry {old:?} nor the one the commit would have made"));
                        }
                        // what the lookup shows from now on is that record, time as recorded
                    } else if !old_bucket {
                        // (an empty or record-less bucket file may have appeared)
                    }
                }
                Ok(())
            }
            Op::Abandon { .. } => {
                if matches!(out, Out::Unit) {
                    Ok(())
                } else {
                    Err(format!("abandoned writer: {}", out.short()))
                }
            }
            Op::DamageContent { addr, dmg } => {
                let a = Self::addr_of(ctx, *addr);
                self.adopt_content(ctx, &a);
                if let CDamage::SwapWith(o) = dmg {
                    let b = Self::addr_of(ctx, *o);
                    self.adopt_content(ctx, &b);
                }
                Ok(())
            }
            Op::DamageBucket { key, .. } => {
                let k = ctx.key(*key).to_string();
                self.adopt_bucket(ctx, &k);
                self.damaged_buckets += 1;
                Ok(())
            }
            Op::ForeignRecord { bucket_of, key, addr } if ctx.key(*bucket_of) == ctx.key(*key) => {
                // not foreign at all: a reference-written record in the key's own bucket
                let k = ctx.key(*key).to_string();
                let e = Entry {
                    integrity: ctx.sri_of(*addr),
                    size: ctx.blobs[addr.blob].len as u64,
                    time: TimeSpec::Exact(7),
                    metadata: Value::Null,
                    raw_metadata: None,
                };
                let ks = self.index.entry(k).or_default();
                ks.bucket_exists = true;
                ks.entry = Some(e);
                self.index_dir = true;
                Ok(())
            }
            Op::Chdir { .. } | Op::AgeCache { .. } => Ok(()),
            Op::ForeignTombstone { bucket_of, key } if ctx.key(*bucket_of) == ctx.key(*key) => {
                self.set_tombstone(ctx.key(*key));
                Ok(())
            }
            Op::ForeignTombstone { bucket_of, .. } | Op::ForeignRecord { bucket_of, .. } => {
                let k = ctx.key(*bucket_of).to_string();
                // the appended record begins with a line feed: when harness-side damage had left
                // the bucket ending in `...}\r`, that earlier line is CRLF-terminated — and
                // valid — from now on. The append is the harness's own (reference writer), so
                // the bucket is read again with the reference reader.
                if !self.pure && self.damaged_buckets > 0 {
                    self.adopt_bucket(ctx, &k);
                }
                self.index.entry(k).or_default().bucket_exists = true;
                self.index_dir = true;
                self.list_unjudged = true;
                Ok(())
            }
        }
    }

    pub fn adopt_content(&mut self, ctx: &Ctx, a: &(Algo, String)) {
        let p = reffmt::content_path(&ctx.cache, a.0, &a.1);
        match obs_to_cstate(observe(&p)) {
            Some(c) => {
                self.content.insert(a.clone(), c);
            }
            None => {
                self.content.remove(a);
            }
        }
    }

    /// Recomputes what a lookup of `key` must return from the bucket bytes on disk using
    /// the reference reader (used after harness-side damage, never after library calls).
    pub fn adopt_bucket(&mut self, ctx: &Ctx, key: &str) {
        let p = reffmt::bucket_path(&ctx.cache, key);
        if p.is_dir() {
            // not a damage class of any property but C20's "whatever the on-disk state":
            // engines that use it do not judge with the model
            self.index.insert(key.to_string(), KeyState { bucket_exists: true, entry: None });
            self.list_unjudged = true;
            return;
        }
        match std::fs::read(&p) {
            Err(_) => {
                self.index.insert(key.to_string(), KeyState { bucket_exists: false, entry: None });
            }
            Ok(bytes) => {
                let e = reffmt::lookup(&bytes, key).map(|r| Entry {
                    integrity: blob::sri_canon(r.integrity.as_deref().unwrap()).unwrap(),
                    size: r.size as u64,
                    time: TimeSpec::Exact(r.time),
                    metadata: json_to_value(&r.metadata),
                    raw_metadata: r.raw_metadata.clone(),
                });
                self.index.insert(key.to_string(), KeyState { bucket_exists: true, entry: e });
            }
        }
    }

    pub fn judge_list(&self, out: &Out) -> Result<(), String> {
        let (ents, errs) = match out {
            Out::List(e, n) => (e, *n),
            o => return Err(format!("list: got {}", o.short())),
        };
        if self.list_unjudged {
            return Ok(());
        }
        // a cache without an index directory lists as one NotFound error item (pinned by the
        // repository's own test); a plain empty listing is just as truthful there
        if errs > if self.index_dir { 0 } else { 1 } {
            return Err(format!("list: {errs} error items"));
        }
        let live: Vec<(&String, &Entry)> =
            self.index.iter().filter_map(|(k, v)| v.entry.as_ref().map(|e| (k, e))).collect();
        let got_keys: Vec<&String> = ents.iter().map(|m| &m.key).collect();
        let exp_keys: Vec<&String> = live.iter().map(|x| x.0).collect();
        if got_keys != exp_keys {
            return Err(format!("list: keys {:?}, expected {:?}", got_keys, exp_keys));
        }
        for ((k, e), m) in live.iter().zip(ents) {
            entry_matches(e, k, m).map_err(|x| format!("list item {k:?}: {x}"))?;
        }
        Ok(())
    }

    fn commit_checks(
        &self,
        integ: IntegDecl,
        declare: Declare,
        algo: Algo,
        data: &[u8],
        other: &[u8],
    ) -> (Option<String>, Option<usize>, bool, bool, bool) {
        let di = crate::exec::declared_integrity_ex(integ, algo, data, other).map(|s| blob::sri_canon(&s).unwrap());
        let ds = declared_size(declare, data.len());
        let ok_int = matches!(integ, IntegDecl::None | IntegDecl::Correct | IntegDecl::MultiWithCorrect | IntegDecl::MultiTwoAlgos | IntegDecl::MultiWeakerOfOther | IntegDecl::MultiStrongerOfOther | IntegDecl::MultiThree | IntegDecl::MultiRightInTheMiddle | IntegDecl::MultiWeakerOfSame)
            || (integ == IntegDecl::DigestOfOtherBlob && other == data);
        let undecided_int = matches!(integ, IntegDecl::OtherAlgoCorrect);
        let ok_size = ds.map(|n| n == data.len()).unwrap_or(true);
        (di, ds, ok_int, undecided_int, ok_size)
    }

    /// The entry a successful keyed write with this spec creates (declarations assumed to match).
    pub fn expected_entry(ctx: &Ctx, s: &WriteSpec, t0: u128, t1: u128) -> Entry {
        let data = ctx.blob(s.blob);
        let opts = s.entry == WEntry::Opts;
        let algo = if matches!(s.entry, WEntry::OneShot | WEntry::Create) { Algo::Sha256 } else { s.algo };
        let di = if opts { crate::exec::declared_integrity_ex(s.integ, algo, &data, &crate::exec::other_blob(ctx, s.blob)).map(|x| blob::sri_canon(&x).unwrap()) } else { None };
        let ds = if opts { declared_size(s.declare, data.len()) } else { None };
        Entry {
            integrity: di.unwrap_or_else(|| blob::sri(algo, &data)),
            size: ds.unwrap_or(data.len()) as u64,
            time: match (opts, s.time_u128()) {
                (true, Some(t)) => TimeSpec::Exact(t),
                _ => TimeSpec::Window(t0, t1),
            },
            metadata: if opts { s.metadata.clone().unwrap_or(Value::Null) } else { Value::Null },
            raw_metadata: if opts { s.raw_metadata.clone() } else { None },
        }
    }

    pub fn set_entry(&mut self, key: &str, e: Option<Entry>) {
        let ks = self.index.entry(key.to_string()).or_default();
        ks.bucket_exists = true;
        ks.entry = e;
        self.index_dir = true;
    }

    fn step_write(&mut self, ctx: &Ctx, s: &WriteSpec, out: &Out, t0: u128, t1: u128) -> Result<(), String> {
        let data = ctx.blob(s.blob);
        let opts = s.entry == WEntry::Opts;
        let algo = if matches!(s.entry, WEntry::OneShot | WEntry::Create) { Algo::Sha256 } else { s.algo };
        let (integ, declare) = if opts { (s.integ, s.declare) } else { (IntegDecl::None, Declare::None) };
        let d = blob::sri(algo, &data);
        let addr = (algo, blob::hexs(&blob::digest_raw(algo, &data)));
        let other = crate::exec::other_blob(ctx, s.blob);
        // (a declared digest of another value is wrong unless both values are equal)
        let (di, ds, ok_int, undecided_int, ok_size) = self.commit_checks(integ, declare, algo, &data, &other);
        let what = format!(
            "write(key={:?}, {} bytes, {}, {:?}, chunks={:?}, declare={:?}, integ={:?})",
            s.key.map(|k| ctx.key(k)),
            data.len(),
            algo.name(),
            s.entry,
            s.chunks,
            declare,
            integ
        );
        // another writer stored the pool's next value by address while this one was open
        if (s.aged_hours != 0 || s.crowd > 0) && s.streamed() {
            let o = (Algo::Sha256, blob::hexs(&blob::digest_raw(Algo::Sha256, &other)));
            self.adopt_content(ctx, &o);
        }
        // another process interfered between the last chunk and the commit: the cache state is
        // what that process left, and the commit may fail with any error
        // the writer's own key was removed (fully) between its last chunk and its commit: first
        // the removal is judged, then the commit — the most recent event for the key
        if matches!(s.interfere, Interfere::RemoveKeyFully | Interfere::RemoveKey) && s.streamed() && s.key.is_some() {
            let (first, second) = match out {
                Out::Pair(a, b) => (&**a, &**b),
                o => return Err(format!("{what}: expected the results of the removal and of the commit, got {}", o.short())),
            };
            let rm = if s.interfere == Interfere::RemoveKeyFully { Op::RemoveOpts { key: s.key.unwrap(), fully: true } } else { Op::Remove { key: s.key.unwrap() } };
            self.step_inner(ctx, &Step { op: rm, fl: Fl::Sync }, first, t0, t1).map_err(|e| format!("{what}: removal of the writer's key before its commit: {e}"))?;
            let mut plain = s.clone();
            plain.interfere = Interfere::None;
            return self.step_write(ctx, &plain, second, t0, t1);
        }
        let interfered = s.interfere != Interfere::None && s.streamed();
        if interfered {
            match s.interfere {
                Interfere::Clear => {
                    self.index.clear();
                    self.content.clear();
                    self.index_dir = false;
                    self.list_unjudged = false;
                }
                Interfere::RemoveContentArea => self.content.clear(),
                _ => {}
            }
            if let Out::Err(..) = out {
                self.adopt_content(ctx, &addr);
                self.index_dir = ctx.cache.join("index-v5").exists();
                return Ok(());
            }
        }
        if self.tmp_elsewhere {
            if let Out::Err(ErrKind::Io { .. }, _) = out {
                if !self.pure {
                    self.adopt_content(ctx, &addr);
                    self.index_dir = ctx.cache.join("index-v5").exists();
                }
                return Ok(());
            }
        }
        let must_succeed = ok_int && ok_size;
        match out {
            Out::Int(x) => {
                if !(must_succeed || (undecided_int && ok_size)) {
                    return Err(format!("{what}: commit succeeded although the declaration does not match"));
                }
                let exp = match (&s.key, &di) {
                    (Some(_), Some(decl)) => decl.clone(),
                    _ => d.clone(),
                };
                if *x != exp {
                    return Err(format!("{what}: returned {x}, true digest is {exp}"));
                }
                self.sync_published(ctx, &addr, &data, true, &what)?;
                if let Some(k) = s.key {
                    let e = Entry {
                        integrity: exp,
                        size: ds.unwrap_or(data.len()) as u64,
                        time: match (opts, s.time_u128()) {
                            (true, Some(t)) => TimeSpec::Exact(t),
                            _ => TimeSpec::Window(t0, t1),
                        },
                        metadata: if opts { s.metadata.clone().unwrap_or(Value::Null) } else { Value::Null },
                        raw_metadata: if opts { s.raw_metadata.clone() } else { None },
                    };
                    let ks = self.index.entry(ctx.key(k).to_string()).or_default();
                    ks.bucket_exists = true;
                    ks.entry = Some(e);
                    self.index_dir = true;
                }
                Ok(())
            }
            Out::Err(kind, msg) => {
                if must_succeed {
                    return Err(format!("{what}: failed on a healthy filesystem: {kind:?} {msg}"));
                }
                let kind_ok = match kind {
                    ErrKind::Integrity => !ok_int,
                    ErrKind::SizeMismatch(a, b) => {
                        !ok_size && Some(*a as usize) == ds && *b as usize == data.len()
                    }
                    _ => false,
                };
                if !kind_ok {
                    return Err(format!(
                        "{what}: rejected with {kind:?} ({msg}); expected {}",
                        if !ok_int && !ok_size {
                            "the integrity or the size-mismatch error".to_string()
                        } else if !ok_int {
                            "the integrity error".to_string()
                        } else {
                            format!("SizeMismatch({}, {})", ds.unwrap(), data.len())
                        }
                    ));
                }
                // nothing is mapped; the content area may or may not have received the data
                self.sync_published(ctx, &addr, &data, false, &what)
            }
            o => Err(format!("{what}: unexpected result {}", o.short())),
        }
    }

    fn step_link(&mut self, ctx: &Ctx, l: &LinkSpec, out: &Out, t0: u128, t1: u128) -> Result<(), String> {
        let data = ctx.blob(l.blob);
        let algo = if l.oneshot { Algo::Sha256 } else { l.algo };
        let (integ, declare) = if l.oneshot { (IntegDecl::None, Declare::Exact) } else { (l.integ, l.declare) };
        let d = blob::sri(algo, &data);
        let addr = (algo, blob::hexs(&blob::digest_raw(algo, &data)));
        let (di, ds, ok_int, undecided_int, ok_size) = self.commit_checks(integ, declare, algo, &data, &[]);
        let what = format!("link_to(key={:?}, {} bytes, {:?})", l.key.map(|k| ctx.key(k)), data.len(), l);
        // the harness (re)wrote the target file just before the call: addresses linked to an
        // earlier version of that file now read whatever it holds
        let linked: Vec<(Algo, String)> =
            self.content.iter().filter(|(_, c)| matches!(c, CState::Data { symlink: true, .. } | CState::Dangling)).map(|(a, _)| a.clone()).collect();
        for a in linked {
            if a != addr {
                self.adopt_content(ctx, &a);
            }
        }
        let must_succeed = ok_int && ok_size;
        let mut prev = self.content.get(&addr).cloned();
        let p = reffmt::content_path(&ctx.cache, addr.0, &addr.1);
        let now = obs_to_cstate(observe(&p));
        // an existing link at this very address reads whatever its (just rewritten) target holds
        let is_link = |c: &Option<CState>| matches!(c, Some(CState::Data { symlink: true, .. }) | Some(CState::Dangling));
        if is_link(&prev) && is_link(&now) {
            prev = now.clone();
        }
        match out {
            Out::Int(x) => {
                if !(must_succeed || (undecided_int && ok_size)) {
                    return Err(format!("{what}: commit succeeded although the declaration does not match"));
                }
                let exp = match (&l.key, &di) {
                    (Some(_), Some(decl)) => decl.clone(),
                    _ => d.clone(),
                };
                if *x != exp {
                    return Err(format!("{what}: returned {x}, true digest is {exp}"));
                }
                // content: a symlink to the target, or the untouched pre-existing file
                match (&prev, &now) {
                    (Some(p0), Some(n0)) if p0 == n0 => {}
                    (None, Some(CState::Data { bytes, symlink: true })) if **bytes == **data => {}
                    _ => {
                        return Err(format!(
                            "{what}: content path holds {} after linking (before: {})",
                            cshort(&now),
                            cshort(&prev)
                        ))
                    }
                }
                if let Some(n) = now {
                    self.content.insert(addr.clone(), n);
                }
                if let Some(k) = l.key {
                    let e = Entry {
                        integrity: exp,
                        size: ds.unwrap_or(data.len()) as u64,
                        time: TimeSpec::Window(t0, t1),
                        metadata: Value::Null,
                        raw_metadata: None,
                    };
                    let ks = self.index.entry(ctx.key(k).to_string()).or_default();
                    ks.bucket_exists = true;
                    ks.entry = Some(e);
                    self.index_dir = true;
                }
                Ok(())
            }
            Out::Err(kind, msg) => {
                // an address occupied by a substituted dangling link / directory (harness damage)
                // can make the link creation fail: an I/O error is a truthful answer there
                let occupied_by_junk = matches!(prev, Some(CState::Dangling) | Some(CState::Dir));
                if occupied_by_junk && matches!(kind, ErrKind::Io { .. }) {
                    return Ok(());
                }
                if must_succeed {
                    return Err(format!("{what}: failed: {kind:?} {msg}"));
                }
                let kind_ok = match kind {
                    ErrKind::Integrity => !ok_int,
                    ErrKind::SizeMismatch(a, b) => !ok_size && Some(*a as usize) == ds && *b as usize == data.len(),
                    _ => false,
                };
                if !kind_ok {
                    return Err(format!("{what}: rejected with {kind:?} ({msg})"));
                }
                // a rejected commit leaves what was at the address as it was; on an empty
                // address it may leave its own link behind (the data it points to is valid)
                let own_leftover = prev.is_none() && matches!(&now, Some(CState::Data { bytes, symlink: true }) if **bytes == **data);
                if now != prev && !own_leftover {
                    return Err(format!("{what}: the commit was rejected, yet the content path holds {} afterwards (before: {})", cshort(&now), cshort(&prev)));
                }
                match now {
                    Some(n) => {
                        self.content.insert(addr, n);
                    }
                    None => {
                        self.content.remove(&addr);
                    }
                }
                Ok(())
            }
            o => Err(format!("{what}: unexpected result {}", o.short())),
        }
    }

    fn step_extract(
        &mut self,
        ctx: &Ctx,
        kind: XKind,
        checked: bool,
        by: By,
        dest: Dest,
        out: &Out,
    ) -> Result<(), String> {
        let what = format!("extract({kind:?}, checked={checked}, {by:?}, dest={dest:?})");
        let mut pre = match dest {
            Dest::Absent | Dest::OtherFs | Dest::LongName | Dest::WithSiblings | Dest::LinkOfContent | Dest::SymlinkToContent => DestState::Absent,
            Dest::Existing | Dest::ExistingSuperset | Dest::ExistingSameLength => DestState::File(PREEXISTING.len() as u64, sha256_hex(PREEXISTING)),
            Dest::Directory => DestState::Other,
        };
        if dest == Dest::Directory {
            // nothing can be extracted onto a directory: an error (whichever), and the directory stays
            // (and stays empty: checked by the interpreter, which reports anything else as `Other` too)
            return match out {
                Out::ExtractErr { dest: DestState::Other, .. } => Ok(()),
                o => Err(format!("{what}: the destination is a directory: expected an error and the directory as it was, got {}", o.short())),
            };
        }
        // a destination that is a hard link of the content file held the content's bytes
        let mut dest = dest;
        if dest == Dest::LinkOfContent || dest == Dest::SymlinkToContent || dest == Dest::ExistingSuperset || dest == Dest::ExistingSameLength {
            let a = match by {
                By::Key(k) => self.entry(ctx.key(k)).and_then(|e| blob::sri_address(&e.integrity)),
                By::Addr(a) => Some(Self::addr_of(ctx, a)),
            };
            match a.and_then(|a| self.content.get(&a)) {
                Some(CState::Data { bytes, symlink: false }) => {
                    if dest == Dest::ExistingSuperset {
                        let mut b = bytes.to_vec();
                        b.extend_from_slice(crate::exec::SUPERSET_TAIL);
                        pre = DestState::File(b.len() as u64, sha256_hex(&b));
                    } else if dest == Dest::ExistingSameLength {
                        pre = DestState::File(bytes.len() as u64, sha256_hex(&vec![b'#'; bytes.len()]));
                    } else {
                        pre = DestState::File(bytes.len() as u64, sha256_hex(bytes));
                    }
                    // for what is expected, it is an existing destination
                    dest = Dest::Existing;
                }
                _ if dest == Dest::ExistingSuperset || dest == Dest::ExistingSameLength => dest = Dest::Existing,
                _ => dest = Dest::Absent,
            }
        }
        let pre = pre;
        let dest_untouched = |d: &DestState| *d == pre || *d == DestState::Absent;
        let addr = match by {
            By::Key(k) => match self.entry(ctx.key(k)) {
                None => {
                    return match out {
                        Out::ExtractErr { kind: ErrKind::EntryNotFound, dest: d, .. } if *d == pre => Ok(()),
                        o => Err(format!("{what}: key absent, expected EntryNotFound and an untouched destination, got {}", o.short())),
                    }
                }
                Some(e) => blob::sri_address(&e.integrity).ok_or("model: bad integrity")?,
            },
            By::Addr(a) => Self::addr_of(ctx, a),
        };
        let state = self.content.get(&addr).cloned();
        if state.is_none() {
            return match out {
                Out::ExtractErr { kind: ErrKind::Io { .. }, dest: d, .. } if dest_untouched(d) => Ok(()),
                o => Err(format!("{what}: content missing, expected an I/O error and no new file, got {}", o.short())),
            };
        }
        match state {
            None => unreachable!(),
            Some(CState::Dangling) | Some(CState::Dir) | Some(CState::Data { symlink: true, .. }) => {
                // substituted content: only "a checked extraction never delivers bytes that
                // do not hash to the address" is demanded
                match out {
                    Out::Extracted { dest: DestState::File(_, _), .. } if checked => {
                        if let Some(CState::Data { bytes, .. }) = &state {
                            if blob::hexs(&blob::digest_raw(addr.0, bytes)) == addr.1 {
                                return Ok(());
                            }
                        }
                        Err(format!("{what}: checked extraction of substituted content succeeded: {}", out.short()))
                    }
                    Out::Extracted { .. } | Out::ExtractErr { .. } => Ok(()),
                    o => Err(format!("{what}: got {}", o.short())),
                }
            }
            Some(CState::Data { bytes, symlink: false }) => {
                let valid = blob::hexs(&blob::digest_raw(addr.0, &bytes)) == addr.1;
                let want = DestState::File(bytes.len() as u64, sha256_hex(&bytes));
                if kind == XKind::Reflink {
                    // no reflink-capable filesystem here: success is unreachable; on failure
                    // nothing may be left behind
                    return match out {
                        Out::ExtractErr { dest: d, .. } if dest_untouched(d) => Ok(()),
                        Out::Extracted { dest: d, .. } if valid && *d == want => Ok(()),
                        o => Err(format!("{what}: got {}", o.short())),
                    };
                }
                if !valid {
                    if checked {
                        // any error is fine (a hard link onto an existing destination may fail
                        // before verification); what matters is that nothing unverified is left
                        return match out {
                            Out::ExtractErr { dest: d, .. } if dest_untouched(d) => Ok(()),
                            Out::ExtractErr { dest: d, .. } => Err(format!(
                                "{what}: the checked extraction failed but the destination now holds {:?} (before the call: {:?})",
                                d, pre
                            )),
                            o => Err(format!("{what}: damaged content, expected an error, got {}", o.short())),
                        };
                    }
                    return match out {
                        Out::Extracted { .. } | Out::ExtractErr { .. } => Ok(()),
                        o => Err(format!("{what}: got {}", o.short())),
                    };
                }
                // pristine content
                if kind == XKind::HardLink && dest == Dest::OtherFs {
                    // link(2) cannot cross filesystems: an I/O error with nothing left behind, or
                    // (an implementation may fall back to copying) exactly the stored bytes
                    return match out {
                        Out::ExtractErr { kind: ErrKind::Io { .. }, dest: d, .. } if *d == DestState::Absent => Ok(()),
                        Out::Extracted { dest: d, .. } if *d == want => Ok(()),
                        o => Err(format!("{what}: destination on another filesystem: expected an I/O error or the exact stored bytes, got {}", o.short())),
                    };
                }
                if kind == XKind::HardLink && dest == Dest::Existing {
                    return match out {
                        Out::ExtractErr { kind: ErrKind::Io { .. }, dest: d, .. } if *d == pre => Ok(()),
                        o => Err(format!("{what}: destination exists, expected an I/O error and an untouched file, got {}", o.short())),
                    };
                }
                match out {
                    Out::Extracted { count, dest: d } => {
                        if *d != want {
                            return Err(format!("{what}: destination holds {:?}, stored data is {:?}", d, want));
                        }
                        if kind == XKind::Copy && *count != Some(bytes.len() as u64) {
                            return Err(format!("{what}: returned count {:?}, data has {} bytes", count, bytes.len()));
                        }
                        Ok(())
                    }
                    o => Err(format!("{what}: pristine content, expected success, got {}", o.short())),
                }
            }
        }
    }
}

impl Default for Model {
    fn default() -> Self {
        Model::new()
    }
}

struct ExpShort<'a>(&'a ReadExp);
impl std::fmt::Debug for ExpShort<'_> {
    fn fmt(&self, f: &mut std::fmt::Formatter<'_>) -> std::fmt::Result {
        match self.0 {
            ReadExp::Bytes(b) => write!(f, "{} bytes sha256={}", b.len(), sha256_hex(b)),
            ReadExp::ErrIntegrity => write!(f, "integrity error"),
            ReadExp::ErrIo { not_found } => write!(f, "I/O error (not_found={not_found:?})"),
        }
    }
}

pub fn cshort(c: &Option<CState>) -> String {
    match c {
        None => "nothing".into(),
        Some(CState::Dangling) => "a dangling symlink".into(),
        Some(CState::Dir) => "a directory".into(),
        Some(CState::Data { bytes, symlink }) => format!(
            "{}{} bytes sha256={}",
            if *symlink { "symlink to " } else { "" },
            bytes.len(),
            &sha256_hex(bytes)[..16]
        ),
    }
}

fn expect_unit(out: &Out, what: &str) -> Result<(), String> {
    if *out == Out::Unit {
        Ok(())
    } else {
        Err(format!("{what}: expected success, got {}", out.short()))
    }
}

fn expect_err(out: &Out, kind: ErrKind, what: &str) -> Result<(), String> {
    match out {
        Out::Err(k, _) if *k == kind => Ok(()),
        o => Err(format!("{what}: expected {kind:?}, got {}", o.short())),
    }
}

pub fn json_to_value(j: &reffmt::Json) -> Value {
    match j {
        reffmt::Json::Null => Value::Null,
        reffmt::Json::Bool(b) => Value::Bool(*b),
        reffmt::Json::Num(s) => {
            if let Ok(u) = s.parse::<u64>() {
                Value::from(u)
            } else if let Ok(i) = s.parse::<i64>() {
                Value::from(i)
            } else {
                serde_json::Number::from_f64(s.parse::<f64>().unwrap_or(0.0)).map(Value::Number).unwrap_or(Value::Null)
            }
        }
        reffmt::Json::Str(s) => Value::String(s.clone()),
        reffmt::Json::Arr(a) => Value::Array(a.iter().map(json_to_value).collect()),
        reffmt::Json::Obj(o) => Value::Object(o.iter().map(|(k, v)| (k.clone(), json_to_value(v))).collect()),
    }
}
