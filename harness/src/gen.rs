//! proptest strategies for the operation language. Every random choice is made here, by
//! proptest's RNG, so that cases shrink and replay.

use crate::blob::{Algo, Blob, Fill, ALGOS};
use crate::ops::*;
use proptest::collection::vec;
use proptest::prelude::*;
use serde_json::Value;

/// Monotone map of a 16-bit selector onto `0..len` (shrinks towards index 0).
pub fn pick(sel: u16, len: usize) -> usize {
    if len == 0 {
        0
    } else {
        ((sel as usize) * len) >> 16
    }
}

pub const MIB: usize = 1 << 20;

pub fn algo() -> impl Strategy<Value = Algo> {
    prop_oneof![
        4 => Just(Algo::Sha256),
        2 => Just(Algo::Sha1),
        2 => Just(Algo::Sha384),
        2 => Just(Algo::Sha512),
        2 => Just(Algo::Xxh3),
    ]
}

/// Hostile / confusable key pool entries (all valid UTF-8 — keys are `&str`).
pub fn hostile_keys() -> Vec<String> {
    let mut v: Vec<String> = vec![
        "".into(),
        " ".into(),
        "my-key".into(),
        "hello".into(),
        "a\tb".into(),
        "a\nb".into(),
        "\n".into(),
        "a\r\nb".into(),
        "quote\"key".into(),
        "back\\slash".into(),
        "nul\0key".into(),
        "\u{1}\u{2}\u{7f}".into(),
        "../x".into(),
        "../../../../etc/x".into(),
        "/etc/x".into(),
        "a/b".into(),
        ".".into(),
        "..".into(),
        "dir/".into(),
        "/".into(),
        "index-v5/aa/bb".into(),
        "Key".into(),
        "key".into(),
        "KEY".into(),
        "é".into(),
        "e\u{301}".into(),
        "ﬁ".into(),
        "fi".into(),
        "ß".into(),
        "ss".into(),
        "日本語キー".into(),
        "𝔘𝔫𝔦".into(),
        "😀".into(),
        "\u{feff}bom".into(),
        "\u{202e}rtl".into(),
        "tab\tand\nnewline\"and\\".into(),
        "{\"key\":\"x\"}".into(),
        "null".into(),
    ];
    // keys that look like something the implementation names itself
    {
        use sha1::Digest;
        let h = sha1::Sha1::digest(b"my-key");
        let hex: String = h.iter().map(|b| format!("{b:02x}")).collect();
        v.push(hex.clone()); // the bucket file name of "my-key" ...
        v.push(hex[4..].to_string()); // ... and its last path component
        v.push(format!("index-v5/{}/{}/{}", &hex[..2], &hex[2..4], &hex[4..]));
        v.push("my-key.tmp".into());
        v.push(".tmpAbCdEf".into());
        v.push("tmp".into());
        v.push("content-v2".into());
        v.push("sha256-47DEQpj8HBSa+/TImW+5JCeuQeRkm5NMpJWZG3hSuFU=".into());
        v.push("my-key\n0000000000000000000000000000000000000000000000000000000000000000\t{\"key\":\"my-key\"}".into());
    }
    v.push("k".repeat(256));
    v.push("long/".repeat(900));
    v.push("é".repeat(3000));
    v
}

pub fn key() -> impl Strategy<Value = String> {
    let hostile = hostile_keys();
    let n = hostile.len();
    prop_oneof![
        5 => "[a-z]{1,8}",
        2 => "[a-zA-Z0-9:/_.-]{1,40}",
        4 => (0..n).prop_map(move |i| hostile[i].clone()),
        2 => vec(any::<char>(), 0..12).prop_map(|c| c.into_iter().collect::<String>()),
        1 => vec(prop_oneof![Just('\t'), Just('\n'), Just('"'), Just('\\'), Just('\0'), Just('a'), Just('é'), Just('/'), Just('.')], 0..10)
            .prop_map(|c| c.into_iter().collect::<String>()),
    ]
}

/// Distinct keys (the pool): duplicates are removed, order kept.
pub fn key_pool(min: usize, max: usize) -> impl Strategy<Value = Vec<String>> {
    vec(key(), min..=max).prop_map(move |v| {
        let mut out: Vec<String> = Vec::new();
        for k in v {
            if !out.contains(&k) {
                out.push(k);
            }
        }
        let mut i = 0;
        while out.len() < min {
            let k = format!("fill-{i}");
            if !out.contains(&k) {
                out.push(k);
            }
            i += 1;
        }
        out
    })
}

#[derive(Clone, Copy, Debug, PartialEq)]
pub enum SizeMix {
    /// mostly small, boundary sizes occasionally, MiB sizes rare
    Normal,
    /// small only (≤ 4 KiB)
    Small,
    /// emphasises the mmap threshold and buffer boundaries
    Boundary,
}

pub fn blob_len(mix: SizeMix) -> BoxedStrategy<usize> {
    match mix {
        SizeMix::Small => prop_oneof![
            2 => Just(0usize),
            2 => Just(1usize),
            8 => 2usize..=64,
            4 => 65usize..=4096,
        ]
        .boxed(),
        SizeMix::Normal => prop_oneof![
            3 => Just(0usize),
            3 => Just(1usize),
            14 => 2usize..=64,
            8 => 65usize..=4096,
            3 => prop_oneof![Just(8191usize), Just(8192usize), Just(8193usize)],
            2 => prop_oneof![Just(16384usize), Just(16385usize), Just(1023usize), Just(1024usize), Just(1025usize)],
            3 => prop_oneof![Just(255usize), Just(256usize), Just(257usize), Just(4095usize), Just(4097usize), Just(32768usize), Just(65535usize), Just(65536usize), Just(65537usize), Just(131072usize), Just(262144usize)],
            2 => prop_oneof![Just(MIB - 1), Just(MIB), Just(MIB + 1)],
            1 => (2 * MIB)..(3 * MIB),
        ]
        .boxed(),
        SizeMix::Boundary => prop_oneof![
            2 => Just(0usize),
            2 => Just(1usize),
            4 => 2usize..=64,
            3 => 65usize..=4096,
            3 => prop_oneof![Just(8191usize), Just(8192usize), Just(8193usize), Just(16385usize)],
            3 => prop_oneof![Just(255usize), Just(256usize), Just(4095usize), Just(4096usize), Just(65535usize), Just(65536usize), Just(65537usize), Just(262144usize), Just(524288usize)],
            5 => prop_oneof![Just(MIB - 1), Just(MIB), Just(MIB + 1)],
            1 => (2 * MIB)..(3 * MIB),
        ]
        .boxed(),
    }
}

pub fn blob(mix: SizeMix) -> impl Strategy<Value = Blob> {
    (blob_len(mix), any::<u16>(), prop_oneof![12 => Just(Fill::Rand), 2 => Just(Fill::Zero), 4 => Just(Fill::Text), 1 => Just(Fill::ZeroTail), 1 => Just(Fill::ZeroHead), 1 => Just(Fill::Lines), 1 => Just(Fill::RecordLike), 1 => Just(Fill::DigestLike), 1 => Just(Fill::Ones)])
        .prop_map(|(len, salt, fill)| {
            // now and then (1 in 64) a mined value: its digest under one algorithm starts with three zero bytes
            if salt % 64 == 63 {
                Blob::mined((salt / 64) as usize).0
            } else {
                Blob { len, salt: salt as u64, fill }
            }
        })
}

/// Distinct blobs.
pub fn blob_pool(min: usize, max: usize, mix: SizeMix) -> impl Strategy<Value = Vec<Blob>> {
    vec(blob(mix), min..=max).prop_map(move |v| {
        let mut out: Vec<Blob> = Vec::new();
        for (i, mut b) in v.into_iter().enumerate() {
            // make byte strings distinct: distinct (len, salt) pairs; empty blob only once
            let mut tries = 0;
            while out.iter().any(|o| o.len == b.len && (b.len == 0 || o.bytes() == b.bytes())) {
                if b.len == 0 {
                    b.len = 1 + i;
                } else {
                    b.salt += 1;
                }
                tries += 1;
                if tries > 6 {
                    // patterned fills have few distinct values of a given length
                    b.fill = Fill::Rand;
                }
                if tries > 300 {
                    b.len += 1;
                }
            }
            out.push(b);
        }
        out
    })
}

pub fn time_text() -> impl Strategy<Value = String> {
    prop_oneof![
        Just(0u128),
        Just(1u128),
        Just(1u128 << 63),
        Just(u64::MAX as u128),
        Just(1u128 << 64),
        Just(u128::MAX),
        // decimal texts of every length: 10^k - 1, 10^k (k = 1..38)
        (1u32..39, any::<bool>()).prop_map(|(k, nine)| if nine { 10u128.pow(k) - 1 } else { 10u128.pow(k) }),
        Just(u32::MAX as u128),
        Just(1u128 << 32),
        Just((1u128 << 53) + 1),
        Just(i64::MAX as u128),
        Just((i64::MAX as u128) + 1),
        any::<u128>(),
        any::<u64>().prop_map(|x| x as u128),
        (1_600_000_000_000u128..1_900_000_000_000u128),
    ]
    .prop_map(|t| t.to_string())
}

fn json_string() -> impl Strategy<Value = String> {
    prop_oneof![
        4 => "[a-z ]{0,12}",
        2 => vec(any::<char>(), 0..8).prop_map(|c| c.into_iter().collect::<String>()),
        2 => vec(prop_oneof![Just('\t'), Just('\n'), Just('"'), Just('\\'), Just('\0'), Just('\u{1f}'), Just('\u{7f}'), Just('é'), Just('😀'), Just('\u{2028}')], 0..8)
            .prop_map(|c| c.into_iter().collect::<String>()),
    ]
}

/// Decimal with at most 6 significant digits, built as mantissa·10^e and parsed by std
/// (correctly rounded), i.e. a value JSON text carries exactly.
fn short_decimal() -> impl Strategy<Value = Value> {
    (-999_999i64..=999_999, -9i32..=9).prop_filter_map("finite non-integer", |(m, e)| {
        let text = format!("{m}e{e}");
        let f: f64 = text.parse().ok()?;
        if !f.is_finite() {
            return None;
        }
        serde_json::Number::from_f64(f).map(Value::Number)
    })
}

pub fn json_value() -> impl Strategy<Value = Value> {
    let leaf = prop_oneof![
        2 => Just(Value::Null),
        2 => any::<bool>().prop_map(Value::Bool),
        3 => any::<i64>().prop_map(Value::from),
        2 => any::<u64>().prop_map(Value::from),
        1 => prop_oneof![Just(Value::from(i64::MIN)), Just(Value::from(i64::MAX)), Just(Value::from(u64::MAX)), Just(Value::from(0))],
        3 => short_decimal(),
        4 => json_string().prop_map(Value::String),
        // metadata that looks like index fields (text scanners of the record would be fooled)
        1 => prop_oneof![
            Just(serde_json::json!({"integrity": null, "key": "k", "size": 0, "time": 1, "metadata": null})),
            Just(serde_json::json!({"key": "other", "integrity": "sha256-47DEQpj8HBSa+/TImW+5JCeuQeRkm5NMpJWZG3hSuFU="})),
            Just(serde_json::json!("\"integrity\":null")),
            Just(serde_json::json!(["\n", "\t", {"raw_metadata": null}])),
        ],
        // strings whose TEXT is itself JSON (they stay strings)
        1 => prop_oneof![
            Just(serde_json::json!("{\"etag\":\"abc\"}")),
            Just(serde_json::json!("[1,2,3]")),
            Just(serde_json::json!("null")),
            Just(serde_json::json!("true")),
            Just(serde_json::json!("12345")),
            Just(serde_json::json!("\"quoted\"")),
            Just(serde_json::json!("{}")),
            Just(serde_json::json!(" {\"a\":1} ")),
        ],
    ];
    leaf.prop_recursive(4, 24, 5, |inner| {
        prop_oneof![
            vec(inner.clone(), 0..5).prop_map(Value::Array),
            vec((json_string(), inner), 0..5).prop_map(|kv| Value::Object(kv.into_iter().collect())),
        ]
    })
}

pub fn raw_meta() -> impl Strategy<Value = Vec<u8>> {
    prop_oneof![
        1 => Just(Vec::new()),
        4 => vec(any::<u8>(), 1..32),
        1 => vec(any::<u8>(), 200..600),
        1 => vec(any::<u8>(), 4000..4097),
    ]
}

/// Raw metadata big enough for an index record of more than 2 MiB (described, not drawn byte
/// by byte, so that generation and shrinking stay cheap).
pub fn huge_raw_meta(n: usize, s: u8) -> Vec<u8> {
    (0..n).map(|i| (i as u8).wrapping_mul(31).wrapping_add(s)).collect()
}

pub fn chunks() -> impl Strategy<Value = Vec<usize>> {
    prop_oneof![
        3 => Just(Vec::new()),
        3 => vec(prop_oneof![Just(0usize), Just(1usize), 1usize..64, 64usize..9000, Just(8192usize)], 1..6),
        1 => vec(Just(1usize), 1..40),
        1 => (1usize..5000).prop_map(|a| vec![a * 2, a, a / 2, 1, 0]),
        1 => (1usize..3000).prop_map(|a| vec![0, 1, a / 2, a, a * 2]),
        1 => vec(1usize..(MIB / 2), 1..3),
    ]
}

pub fn integ_decl() -> impl Strategy<Value = IntegDecl> {
    prop_oneof![
        6 => Just(IntegDecl::None),
        3 => Just(IntegDecl::Correct),
        2 => Just(IntegDecl::WrongDigest),
        1 => Just(IntegDecl::OtherAlgoCorrect),
        1 => Just(IntegDecl::MultiWithCorrect),
        1 => Just(IntegDecl::MultiAllWrong),
        1 => Just(IntegDecl::MultiTwoAlgos),
        2 => Just(IntegDecl::DigestOfOtherBlob),
        1 => Just(IntegDecl::WrongTail),
        1 => Just(IntegDecl::CaseToggled),
        1 => Just(IntegDecl::MultiWeakerOfOther),
        1 => Just(IntegDecl::MultiStrongerOfOther),
        1 => Just(IntegDecl::NoHashes),
        1 => Just(IntegDecl::MultiThree),
        1 => Just(IntegDecl::MultiRightInTheMiddle),
    ]
}

/// Declarations that all match the data (for engines that do not study rejections).
pub fn integ_decl_matching() -> impl Strategy<Value = IntegDecl> {
    prop_oneof![
        6 => Just(IntegDecl::None),
        3 => Just(IntegDecl::Correct),
        1 => Just(IntegDecl::MultiWithCorrect),
        1 => Just(IntegDecl::MultiTwoAlgos),
        1 => Just(IntegDecl::MultiWeakerOfOther),
        1 => Just(IntegDecl::MultiThree),
        1 => Just(IntegDecl::MultiRightInTheMiddle),
    ]
}

pub fn declare(allow_wrong: bool) -> BoxedStrategy<Declare> {
    if allow_wrong {
        prop_oneof![
            5 => Just(Declare::None),
            4 => Just(Declare::Exact),
            1 => (1i64..5).prop_map(Declare::Off),
            1 => (1i64..5).prop_map(|d| Declare::Off(-d)),
            1 => Just(Declare::Off(1 << 20)),
            1 => prop_oneof![Just(Declare::Off(1 << 32)), Just(Declare::Off(1 << 31)), Just(Declare::Off(1 << 33)), Just(Declare::Off(3 << 32)), Just(Declare::Off(1 << 16)), Just(Declare::Off(256)), Just(Declare::Off(-256)), Just(Declare::Off(-(1 << 16))), Just(Declare::Off(1 << 48))],
        ]
        .boxed()
    } else {
        prop_oneof![Just(Declare::None), Just(Declare::Exact)].boxed()
    }
}

pub fn wentry() -> impl Strategy<Value = WEntry> {
    prop_oneof![
        3 => Just(WEntry::OneShot),
        2 => Just(WEntry::OneShotAlgo),
        1 => Just(WEntry::Create),
        1 => Just(WEntry::CreateAlgo),
        4 => Just(WEntry::Opts),
    ]
}

/// Options controlling which write shapes are generated.
#[derive(Clone, Copy, Debug)]
pub struct WriteMix {
    /// allow mismatching size / integrity declarations
    pub bad_decls: bool,
    /// allow time / metadata / raw metadata options
    pub meta: bool,
    /// allow by-address writes
    pub by_hash: bool,
    /// allow multi-hash declared integrities that match (C11), pauses before commit
    pub rich_matching: bool,
    /// allow interference by another process between the last chunk and the commit (C20)
    pub interfere: bool,
}

/// A write spec with raw 16-bit selectors for key and blob, resolved by `resolve_*`.
pub fn write_spec(mix: WriteMix, nkeys: usize, nblobs: usize) -> impl Strategy<Value = WriteSpec> {
    (
        (any::<u16>(), any::<u16>(), any::<bool>(), algo(), wentry()),
        (chunks(), declare(mix.bad_decls), if mix.bad_decls { integ_decl().boxed() } else { integ_decl_matching().boxed() }),
        (proptest::option::weighted(0.3, time_text()), proptest::option::weighted(0.3, json_value()), proptest::option::weighted(0.25, raw_meta()), any::<bool>()),
        (prop_oneof![3 => Just(0u8), 1 => 3u8..6], prop_oneof![12 => Just(Interfere::None), 1 => Just(Interfere::Clear), 1 => Just(Interfere::RemoveTmp), 1 => Just(Interfere::RemoveContentArea)],
         prop_oneof![8 => Just(0u16), 2 => 1u16..4, 1 => Just(1025u16), 1 => Just(1500u16)],
         proptest::option::weighted(0.15, 0u8..8),
         prop_oneof![18 => Just(0i32), 1 => Just(2i32), 1 => Just(25i32), 1 => Just(24 * 40), 1 => Just(-1i32), 1 => Just(-24 * 400)],
         prop::bool::weighted(0.12)),
    )
        .prop_map(move |((ks, bs, hash, algo, entry), (chunks, declare, integ), (time, metadata, raw, flush), (pause, interfere, vectored, cancel_chunk, aged_hours, decoy_opts))| {
            let by_hash = mix.by_hash && hash && (ks & 3) == 0;
            let mut s = WriteSpec {
                key: if by_hash { None } else { Some(pick(ks, nkeys)) },
                blob: pick(bs, nblobs),
                algo,
                entry,
                chunks,
                declare,
                integ,
                time: if mix.meta { time } else { None },
                metadata: if mix.meta { metadata } else { None },
                raw_metadata: if mix.meta { raw } else { None },
                flush,
                pause_ms: if mix.rich_matching { pause } else { 0 },
                interfere: if mix.interfere { interfere } else { Interfere::None },
                vectored,
                cancel_chunk,
                aged_hours,
                decoy_opts,
                chdir_mid: None,
                churn: 0,
                crowd: 0,
            };
            normalise_write(&mut s);
            s
        })
}

/// Makes the spec self-consistent: entry points that take no options carry none, SHA-256-only
/// entry points say so, keyed-only entries have a key.
pub fn normalise_write(s: &mut WriteSpec) {
    if s.key.is_none() && matches!(s.entry, WEntry::Create | WEntry::CreateAlgo) {
        s.entry = WEntry::Opts;
    }
    if matches!(s.entry, WEntry::OneShot | WEntry::Create) {
        s.algo = Algo::Sha256;
    }
    if s.entry != WEntry::Opts {
        s.declare = Declare::None;
        s.integ = IntegDecl::None;
        s.time = None;
        s.metadata = None;
        s.raw_metadata = None;
    }
    if !s.streamed() {
        s.chunks.clear();
        s.flush = false;
        s.pause_ms = 0;
        s.interfere = Interfere::None;
        s.vectored = 0;
        s.cancel_chunk = None;
        s.aged_hours = 0;
    }
    if s.entry != WEntry::Opts {
        s.decoy_opts = false;
    }
}

pub fn addr_ref(nblobs: usize) -> impl Strategy<Value = AddrRef> {
    (algo(), any::<u16>()).prop_map(move |(algo, b)| AddrRef { algo, blob: pick(b, nblobs) })
}

pub fn by(nkeys: usize, nblobs: usize) -> impl Strategy<Value = By> {
    prop_oneof![
        3 => any::<u16>().prop_map(move |k| By::Key(pick(k, nkeys))),
        2 => addr_ref(nblobs).prop_map(By::Addr),
    ]
}

pub fn bufs() -> impl Strategy<Value = Vec<usize>> {
    prop_oneof![
        2 => Just(Vec::new()),
        2 => vec(prop_oneof![4 => Just(1usize), 4 => 1usize..64, 4 => 64usize..70000, 4 => Just(8192usize), 1 => Just(0usize)], 1..4),
        1 => Just(vec![1usize]),
        1 => Just(vec![usize::MAX - 1]),
        1 => Just(vec![usize::MAX - 1, 0, 3]),
        1 => (1usize..70000).prop_map(|n| vec![usize::MAX - 2, n]),
        1 => (1usize..70000).prop_map(|n| vec![usize::MAX - 3, n]),
        1 => prop_oneof![Just(0usize), 1usize..70000].prop_map(|n| vec![usize::MAX - 4, n]),
    ]
}

pub fn fl() -> impl Strategy<Value = Fl> {
    prop_oneof![Just(Fl::Sync), Just(Fl::Async)]
}

pub fn cdamage(nblobs: usize) -> impl Strategy<Value = CDamage> {
    prop_oneof![
        4 => any::<u32>().prop_map(|i| CDamage::FlipBit(i as usize)),
        3 => any::<u32>().prop_map(|i| CDamage::Truncate(i as usize)),
        2 => vec(any::<u8>(), 1..20).prop_map(CDamage::Extend),
        1 => Just(CDamage::Empty),
        3 => (any::<u32>(), 1usize..64, any::<u16>()).prop_map(|(o, l, s)| CDamage::Garbage { off: o as usize, len: l, salt: s as u64 }),
        1 => (0usize..5000, any::<u16>()).prop_map(|(l, s)| CDamage::Replace { len: l, salt: s as u64 }),
        2 => any::<u16>().prop_map(move |b| CDamage::OtherBlob(pick(b, nblobs))),
        2 => addr_ref(nblobs).prop_map(CDamage::SwapWith),
        1 => any::<u16>().prop_map(move |b| CDamage::SymlinkToBlob(pick(b, nblobs))),
        1 => Just(CDamage::SymlinkDangling),
        1 => Just(CDamage::SymlinkToDir),
        1 => Just(CDamage::Delete),
    ]
}

pub fn garbage_line() -> impl Strategy<Value = Vec<u8>> {
    prop_oneof![
        2 => "[ -~]{0,40}".prop_map(|s| s.into_bytes()),
        2 => vec(0x80u8..=0xff, 1..20),
        1 => vec(Just(0u8), 1..10),
        2 => vec(any::<u8>(), 1..60).prop_map(|v| v.into_iter().filter(|&b| b != b'\n').collect()),
        1 => Just(b"\xff\xfe\tgarbage".to_vec()),
        // valid UTF-8 text with multi-byte characters, long enough to reach past the checksum column
        2 => "[а-яё😀éa-z \t]{40,120}".prop_map(|s| s.into_bytes()),
        1 => Just(b"0000000000000000000000000000000000000000000000000000000000000000\t{}".to_vec()),
    ]
}

pub fn bdamage() -> impl Strategy<Value = BDamage> {
    prop_oneof![
        3 => any::<u16>().prop_map(|n| BDamage::CutAt(n as usize % 600)),
        3 => any::<u32>().prop_map(|n| BDamage::FlipBit(n as usize)),
        2 => (any::<u16>(), garbage_line()).prop_map(|(o, b)| BDamage::Overwrite { off: o as usize, bytes: b }),
        3 => garbage_line().prop_map(BDamage::AppendLine),
        3 => (0usize..6, garbage_line()).prop_map(|(r, b)| BDamage::InsertLine { at_record: r, bytes: b }),
        1 => (any::<u16>(), 1usize..120).prop_map(|(o, l)| BDamage::DuplicateRange { off: o as usize, len: l }),
        2 => (0usize..6).prop_map(BDamage::StripNewline),
        1 => garbage_line().prop_map(BDamage::AppendRaw),
        2 => any::<u16>().prop_map(|o| BDamage::AppendLineFrom(o as usize)),
        2 => (0usize..6).prop_map(BDamage::CrBeforeLf),
        1 => Just(BDamage::BecomeSymlink),
        1 => (prop_oneof![Just(70_000usize), Just(300_000usize), Just(1_100_000usize)], prop_oneof![Just(100usize), Just(5000usize), Just(2_000_000usize)], any::<u16>()).prop_map(|(total, line, salt)| BDamage::GarbageTail { total, line, salt: salt as u64 }),
    ]
}

pub fn all_algos() -> &'static [Algo] {
    &ALGOS
}
