//! Blob descriptors, algorithms and the model's own digest / SRI computation.
//!
//! Digests are computed with the `sha1` / `sha2` / `xxhash-rust` crates directly and
//! rendered with a local base64 / hex encoder — a different path from `ssri`'s builders
//! that the library under test uses.

use serde::{Deserialize, Serialize};
use sha1::Digest as _;

#[derive(Clone, Copy, Debug, Serialize, Deserialize, PartialEq, Eq, Hash, PartialOrd, Ord)]
pub enum Algo {
    Sha1,
    Sha256,
    Sha384,
    Sha512,
    Xxh3,
}

pub const ALGOS: [Algo; 5] = [Algo::Sha256, Algo::Sha1, Algo::Sha384, Algo::Sha512, Algo::Xxh3];

impl Algo {
    pub fn name(self) -> &'static str {
        match self {
            Algo::Sha1 => "sha1",
            Algo::Sha256 => "sha256",
            Algo::Sha384 => "sha384",
            Algo::Sha512 => "sha512",
            Algo::Xxh3 => "xxh3",
        }
    }
    pub fn from_name(s: &str) -> Option<Algo> {
        Some(match s {
            "sha1" => Algo::Sha1,
            "sha256" => Algo::Sha256,
            "sha384" => Algo::Sha384,
            "sha512" => Algo::Sha512,
            "xxh3" => Algo::Xxh3,
            _ => return None,
        })
    }
    /// Strength rank used by SRI "pick the strongest": higher is stronger.
    pub fn rank(self) -> u8 {
        match self {
            Algo::Sha512 => 4,
            Algo::Sha384 => 3,
            Algo::Sha256 => 2,
            Algo::Sha1 => 1,
            Algo::Xxh3 => 0,
        }
    }
    pub fn digest_len(self) -> usize {
        match self {
            Algo::Sha1 => 20,
            Algo::Sha256 => 32,
            Algo::Sha384 => 48,
            Algo::Sha512 => 64,
            Algo::Xxh3 => 16,
        }
    }
    pub fn to_lib(self) -> cacache::Algorithm {
        match self {
            Algo::Sha1 => cacache::Algorithm::Sha1,
            Algo::Sha256 => cacache::Algorithm::Sha256,
            Algo::Sha384 => cacache::Algorithm::Sha384,
            Algo::Sha512 => cacache::Algorithm::Sha512,
            Algo::Xxh3 => cacache::Algorithm::Xxh3,
        }
    }
}

pub fn digest_raw(algo: Algo, data: &[u8]) -> Vec<u8> {
    match algo {
        Algo::Sha1 => sha1::Sha1::digest(data).to_vec(),
        Algo::Sha256 => sha2::Sha256::digest(data).to_vec(),
        Algo::Sha384 => sha2::Sha384::digest(data).to_vec(),
        Algo::Sha512 => sha2::Sha512::digest(data).to_vec(),
        Algo::Xxh3 => xxhash_rust::xxh3::xxh3_128(data).to_be_bytes().to_vec(),
    }
}

const B64: &[u8; 64] = b"ABCDEFGHIJKLMNOPQRSTUVWXYZabcdefghijklmnopqrstuvwxyz0123456789+/";

pub fn b64(data: &[u8]) -> String {
    let mut out = String::with_capacity((data.len() + 2) / 3 * 4);
    for ch in data.chunks(3) {
        let b = [ch[0], *ch.get(1).unwrap_or(&0), *ch.get(2).unwrap_or(&0)];
        let n = ((b[0] as u32) << 16) | ((b[1] as u32) << 8) | b[2] as u32;
        out.push(B64[(n >> 18) as usize & 63] as char);
        out.push(B64[(n >> 12) as usize & 63] as char);
        out.push(if ch.len() > 1 { B64[(n >> 6) as usize & 63] as char } else { '=' });
        out.push(if ch.len() > 2 { B64[n as usize & 63] as char } else { '=' });
    }
    out
}

pub fn b64_decode(s: &str) -> Option<Vec<u8>> {
    let s = s.as_bytes();
    if s.len() % 4 != 0 {
        return None;
    }
    let mut out = Vec::new();
    for (ci, ch) in s.chunks(4).enumerate() {
        let last = ci + 1 == s.len() / 4;
        let mut n = 0u32;
        let mut pad = 0;
        for (i, &c) in ch.iter().enumerate() {
            let v = if c == b'=' {
                if !last || i < 2 {
                    return None;
                }
                pad += 1;
                0
            } else {
                if pad > 0 {
                    return None;
                }
                B64.iter().position(|&x| x == c)? as u32
            };
            n = (n << 6) | v;
        }
        out.push((n >> 16) as u8);
        if pad < 2 {
            out.push((n >> 8) as u8);
        }
        if pad < 1 {
            out.push(n as u8);
        }
    }
    Some(out)
}

pub fn hexs(data: &[u8]) -> String {
    let mut s = String::with_capacity(data.len() * 2);
    for b in data {
        s.push_str(&format!("{:02x}", b));
    }
    s
}

/// `"<algo>-<base64 digest>"` of `data`.
pub fn sri(algo: Algo, data: &[u8]) -> String {
    format!("{}-{}", algo.name(), b64(&digest_raw(algo, data)))
}

pub fn sri_from_raw(algo: Algo, raw: &[u8]) -> String {
    format!("{}-{}", algo.name(), b64(raw))
}

/// Splits a single-hash SRI string into (algo, raw digest).
pub fn sri_parse_one(s: &str) -> Option<(Algo, Vec<u8>)> {
    let (a, d) = s.split_once('-')?;
    Some((Algo::from_name(a)?, b64_decode(d)?))
}

/// The (algo, hex) a possibly multi-hash SRI string addresses: the first hash of the
/// strongest algorithm (SRI semantics).
pub fn sri_address(s: &str) -> Option<(Algo, String)> {
    let mut all: Vec<(Algo, Vec<u8>)> = Vec::new();
    for part in s.split_whitespace() {
        all.push(sri_parse_one(part)?);
    }
    // SRI semantics as implemented by ssri: stable sort by algorithm strength, first wins
    all.sort_by(|x, y| y.0.rank().cmp(&x.0.rank()));
    all.into_iter().next().map(|(a, raw)| (a, hexs(&raw)))
}

/// The canonical text of a (possibly multi-hash) SRI string: hashes stably sorted by strength.
pub fn sri_canon(s: &str) -> Option<String> {
    let mut all: Vec<(Algo, &str)> = Vec::new();
    for part in s.split_whitespace() {
        let (a, _) = sri_parse_one(part)?;
        all.push((a, part));
    }
    all.sort_by(|x, y| y.0.rank().cmp(&x.0.rank()));
    Some(all.iter().map(|x| x.1).collect::<Vec<_>>().join(" "))
}

#[derive(Clone, Copy, Debug, Serialize, Deserialize, PartialEq, Eq, Hash)]
pub enum Fill {
    /// pseudo-random bytes expanded from the salt
    Rand,
    /// all zero bytes (the "hole" pattern an fallocate'd file would show)
    Zero,
    /// printable ASCII text
    Text,
    /// random bytes whose last third is zero (what a preallocated, not fully written file
    /// looks like; an implementation trimming "unused" zeros would shorten it)
    ZeroTail,
    /// zeros followed by random bytes
    ZeroHead,
    /// nothing but line terminators: LF, CR LF, CR in rotation
    Lines,
    /// bytes that look like the records of an index bucket ("\n<hex>\t{json}")
    RecordLike,
    /// the text of an integrity value ("sha256-....=")
    DigestLike,
    /// 0xff bytes (never valid UTF-8)
    Ones,
    /// the text `cvh-mined-<salt>` (the length is that of the text): values found by search,
    /// whose digest under some algorithm starts with three zero bytes — `AAAA` in base64,
    /// `000000` in hex — see `MINED`
    Mined,
}

/// (salt, algorithm) of values `cvh-mined-<salt>` whose digest under that algorithm starts with
/// three zero bytes (found offline by brute force, 2^24 tries each).
pub const MINED: &[(u64, Algo)] = &[(43444413, Algo::Sha256), (6401090, Algo::Sha1), (9582249, Algo::Sha512)];

impl Blob {
    pub fn mined(i: usize) -> (Blob, Algo) {
        let (salt, algo) = MINED[i % MINED.len()];
        (Blob { len: format!("cvh-mined-{salt}").len(), salt, fill: Fill::Mined }, algo)
    }
}

/// A described (not stored) byte string: cheap to shrink and to serialise.
#[derive(Clone, Debug, Serialize, Deserialize, PartialEq, Eq, Hash)]
pub struct Blob {
    pub len: usize,
    pub salt: u64,
    pub fill: Fill,
}

fn mix(mut z: u64) -> u64 {
    z = z.wrapping_add(0x9e3779b97f4a7c15);
    z = (z ^ (z >> 30)).wrapping_mul(0xbf58476d1ce4e5b9);
    z = (z ^ (z >> 27)).wrapping_mul(0x94d049bb133111eb);
    z ^ (z >> 31)
}

impl Blob {
    pub fn new(len: usize, salt: u64) -> Blob {
        Blob { len, salt, fill: Fill::Rand }
    }
    /// Deterministic expansion of the descriptor (a pure function, not a random choice).
    pub fn bytes(&self) -> Vec<u8> {
        let mut v = Vec::with_capacity(self.len);
        match self.fill {
            Fill::Zero => {
                v.resize(self.len, 0);
                // keep blobs with different salts distinct when non-empty
                if self.len > 0 {
                    v[0] = (self.salt & 0xff) as u8;
                }
            }
            Fill::ZeroTail | Fill::ZeroHead => {
                let r = Blob { len: self.len, salt: self.salt, fill: Fill::Rand }.bytes();
                let cut = self.len - self.len / 3;
                v = r;
                if self.fill == Fill::ZeroTail {
                    for b in &mut v[cut..] {
                        *b = 0;
                    }
                    if cut > 0 && v[cut - 1] == 0 {
                        v[cut - 1] = 1;
                    }
                } else {
                    let z = self.len / 3;
                    for b in &mut v[..z] {
                        *b = 0;
                    }
                    if z < self.len && v[z] == 0 {
                        v[z] = 1;
                    }
                }
            }
            Fill::Lines => {
                let pat: &[u8] = b"\n\r\n\r";
                for i in 0..self.len {
                    v.push(pat[(i + self.salt as usize) % pat.len()]);
                }
            }
            Fill::Mined => {
                v = format!("cvh-mined-{}", self.salt).into_bytes();
                v.resize(self.len, b'.');
            }
            Fill::Ones => {
                v.resize(self.len, 0xff);
                if self.len > 0 {
                    v[self.len - 1] = 0x80 | (self.salt & 0x7f) as u8;
                }
            }
            Fill::RecordLike | Fill::DigestLike => {
                let seed = Blob { len: 12, salt: self.salt, fill: Fill::Rand }.bytes();
                let unit: Vec<u8> = if self.fill == Fill::DigestLike {
                    sri(Algo::Sha256, &seed).into_bytes()
                } else {
                    let json = format!("{{\"key\":\"k{}\",\"integrity\":\"{}\",\"time\":{},\"size\":12,\"metadata\":null}}", self.salt, sri(Algo::Sha256, &seed), self.salt);
                    format!("\n{}\t{}", hexs(&digest_raw(Algo::Sha256, json.as_bytes())), json).into_bytes()
                };
                while v.len() < self.len {
                    let take = unit.len().min(self.len - v.len());
                    v.extend_from_slice(&unit[..take]);
                }
            }
            Fill::Rand | Fill::Text => {
                let mut s = mix(self.salt ^ 0x5851f42d4c957f2d);
                let mut i = 0;
                while i < self.len {
                    s = mix(s);
                    let w = s.to_le_bytes();
                    for b in w {
                        if i >= self.len {
                            break;
                        }
                        v.push(if self.fill == Fill::Text { b' ' + (b % 95) } else { b });
                        i += 1;
                    }
                }
            }
        }
        v
    }
}

#[cfg(test)]
mod tests {
    use super::*;
    #[test]
    fn b64_roundtrip() {
        for n in 0..40usize {
            let d: Vec<u8> = (0..n as u8).collect();
            assert_eq!(b64_decode(&b64(&d)).unwrap(), d);
        }
        assert_eq!(b64(b"hello"), "aGVsbG8=");
    }
    #[test]
    fn known_digest() {
        assert_eq!(sri(Algo::Sha256, b"hello"), "sha256-LPJNul+wow4m6DsqxbninhsWHlwfp0JecwQzYpOLmCQ=");
    }
}
