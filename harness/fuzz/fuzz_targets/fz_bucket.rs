//! libFuzzer target: the input is decoded (arbitrary::Unstructured) into a list of chunks —
//! raw bytes, a well-formed record from generated fields, or arbitrary text wrapped with a
//! CORRECT checksum — written as one bucket file. Oracles inside the target:
//!  * never a panic, sync lookups == async lookups, listing never yields an error item;
//!  * when no checksum-wrapped chunk is present (only damage classes the property states):
//!    lookup and listing equal the fold over the records the independent reference reader
//!    accepts, and every returned entry was written verbatim by a record chunk.
#![no_main]
use arbitrary::Unstructured;
use cvh::exec::norm_meta;
use cvh::reffmt::{self, EmitStyle, Json, Rec};
use libfuzzer_sys::fuzz_target;
use std::path::PathBuf;

fn dir() -> PathBuf {
    PathBuf::from(format!("/dev/shm/cvh.fuzz.{}", std::process::id()))
}

fn run(data: &[u8]) {
    let mut u = Unstructured::new(data);
    let keys = ["k", "other"];
    let mut bytes: Vec<u8> = Vec::new();
    let mut written: Vec<Rec> = Vec::new();
    let mut wrapped = false;
    let n = u.int_in_range(0..=8).unwrap_or(0);
    for _ in 0..n {
        match u.int_in_range(0..=3).unwrap_or(0) {
            0 => {
                let len = u.int_in_range(0..=40).unwrap_or(0);
                let b = u.bytes(len.min(u.len())).unwrap_or(&[]).to_vec();
                bytes.extend_from_slice(&b);
            }
            1 | 2 => {
                let key = keys[u.int_in_range(0..=1).unwrap_or(0)].to_string();
                let tomb = u.ratio(1, 5).unwrap_or(false);
                let salt: u8 = u.arbitrary().unwrap_or(0);
                let rec = Rec {
                    key,
                    integrity: if tomb { None } else { Some(cvh::blob::sri(cvh::blob::Algo::Sha256, &[salt])) },
                    time: u.arbitrary::<u64>().unwrap_or(1) as u128,
                    size: u.arbitrary::<u32>().unwrap_or(0) as u128,
                    metadata: if u.ratio(1, 3).unwrap_or(false) { Json::Str(String::from_utf8_lossy(u.bytes(4.min(u.len())).unwrap_or(&[])).to_string()) } else { Json::Null },
                    raw_metadata: None,
                };
                bytes.extend_from_slice(&reffmt::encode_record(&rec, EmitStyle { ascii: u.arbitrary().unwrap_or(false), reversed: u.arbitrary().unwrap_or(false) }));
                written.push(rec);
            }
            _ => {
                wrapped = true;
                let len = u.int_in_range(0..=60).unwrap_or(0);
                let t = String::from_utf8_lossy(u.bytes(len.min(u.len())).unwrap_or(&[])).replace(['\n', '\t'], " ");
                bytes.extend_from_slice(format!("\n{}\t{}", reffmt::sha256_hex(t.as_bytes()), t).as_bytes());
            }
        }
    }
    let cache = dir().join("cache");
    let _ = std::fs::remove_dir_all(&cache);
    let bucket = reffmt::bucket_path(&cache, "k");
    std::fs::create_dir_all(bucket.parent().unwrap()).unwrap();
    std::fs::write(&bucket, &bytes).unwrap();
    let s = cacache::metadata_sync(&cache, "k").expect("metadata_sync must not fail on a damaged bucket").as_ref().map(norm_meta);
    let a = cvh::rt::block_on(cacache::metadata(&cache, "k")).expect("metadata must not fail on a damaged bucket").as_ref().map(norm_meta);
    assert_eq!(s, a, "sync and async lookups disagree");
    let mut list = Vec::new();
    for item in cacache::list_sync(&cache) {
        list.push(norm_meta(&item.expect("list_sync yields an error item")));
    }
    if !wrapped {
        let exp = reffmt::lookup(&bytes, "k");
        let same = match (&s, &exp) {
            (None, None) => true,
            (Some(m), Some(r)) => m.key == r.key && Some(&m.integrity) == r.integrity.as_ref() && m.time == r.time.to_string() && m.size as u128 == r.size,
            _ => false,
        };
        assert!(same, "lookup {:?} but the undamaged records imply {:?}", s, exp);
        for m in list.iter().chain(s.iter()) {
            assert!(
                written.iter().any(|w| w.key == m.key && w.integrity.as_deref() == Some(m.integrity.as_str()) && w.time.to_string() == m.time && w.size == m.size as u128),
                "an entry was returned that no record chunk wrote: {:?}",
                m
            );
        }
    }
    // reads through a possibly hostile entry must not panic either
    let _ = cacache::read_sync(&cache, "k");
}

fuzz_target!(|data: &[u8]| {
    run(data);
});
