//! libFuzzer target: the input is decoded into a program of the operation language (hand
//! decoding with arbitrary::Unstructured); the interpreter runs it against the real library
//! and the reference model judges every step (semantic oracle inside the target), so the
//! fuzzer's coverage feedback drives the model-based search of C02/C08/C20.
#![no_main]
use arbitrary::Unstructured;
use cvh::blob::{Algo, Blob, Fill, ALGOS};
use cvh::exec::{run_step, Ctx};
use cvh::model::Model;
use cvh::ops::*;
use libfuzzer_sys::fuzz_target;
use std::path::PathBuf;

fn dir() -> PathBuf {
    PathBuf::from(format!("/dev/shm/cvh.fuzzp.{}", std::process::id()))
}

fn addr(u: &mut Unstructured, nb: usize) -> AddrRef {
    AddrRef { algo: ALGOS[u.int_in_range(0..=4).unwrap_or(0)], blob: u.int_in_range(0..=nb - 1).unwrap_or(0) }
}

fn write_spec(u: &mut Unstructured, nk: usize, nb: usize) -> WriteSpec {
    let entry = [WEntry::OneShot, WEntry::OneShotAlgo, WEntry::Create, WEntry::CreateAlgo, WEntry::Opts, WEntry::Opts][u.int_in_range(0..=5).unwrap_or(0)];
    let mut s = WriteSpec::simple(if u.ratio(1, 5).unwrap_or(false) { None } else { Some(u.int_in_range(0..=nk - 1).unwrap_or(0)) }, u.int_in_range(0..=nb - 1).unwrap_or(0));
    s.entry = entry;
    s.algo = ALGOS[u.int_in_range(0..=4).unwrap_or(0)];
    let nch = u.int_in_range(0..=4).unwrap_or(0);
    s.chunks = (0..nch).map(|_| u.int_in_range(0..=70).unwrap_or(0)).collect();
    s.declare = [Declare::None, Declare::Exact, Declare::Off(1), Declare::Off(-1), Declare::Off(-1000)][u.int_in_range(0..=4).unwrap_or(0)];
    s.integ = [IntegDecl::None, IntegDecl::Correct, IntegDecl::WrongDigest, IntegDecl::MultiWithCorrect, IntegDecl::MultiAllWrong, IntegDecl::OtherAlgoCorrect][u.int_in_range(0..=5).unwrap_or(0)];
    s.flush = u.arbitrary().unwrap_or(false);
    if u.ratio(1, 4).unwrap_or(false) {
        s.time = Some(u.arbitrary::<u64>().unwrap_or(0).to_string());
    }
    cvh::gen::normalise_write(&mut s);
    s
}

fn run(data: &[u8]) {
    let mut u = Unstructured::new(data);
    let nk = 3;
    let keys: Vec<String> = vec!["a".into(), "b/../é\t".into(), "".into()];
    let nb = 3;
    let blobs: Vec<Blob> = (0..nb)
        .map(|i| Blob { len: [0usize, 1, 9, 70, 8193][u.int_in_range(0..=4).unwrap_or(0)] + i, salt: i as u64, fill: Fill::Rand })
        .collect();
    let cache = dir().join("cache");
    let scratch = dir().join("scratch");
    let _ = std::fs::remove_dir_all(dir());
    std::fs::create_dir_all(&cache).unwrap();
    std::fs::create_dir_all(&scratch).unwrap();
    let ctx = Ctx::new(cache, scratch, &keys, &blobs);
    let mut model = Model::new();
    let n = u.int_in_range(0..=12).unwrap_or(0);
    for _ in 0..n {
        let k = u.int_in_range(0..=nk - 1).unwrap_or(0);
        let op = match u.int_in_range(0..=13).unwrap_or(0) {
            0..=3 => Op::Write(write_spec(&mut u, nk, nb)),
            4 => Op::Read { key: k },
            5 => Op::ReadHash { addr: addr(&mut u, nb) },
            6 => Op::Meta { key: k },
            7 => Op::Remove { key: k },
            8 => Op::RemoveHash { addr: addr(&mut u, nb) },
            9 => Op::RemoveOpts { key: k, fully: u.arbitrary().unwrap_or(true) },
            10 => Op::List,
            11 => Op::Stream { by: By::Key(k), bufs: vec![u.int_in_range(1..=9000).unwrap_or(1)] },
            12 => Op::Extract { kind: [XKind::Copy, XKind::HardLink][u.int_in_range(0..=1).unwrap_or(0)], checked: u.arbitrary().unwrap_or(true), by: By::Key(k), dest: Dest::Absent },
            _ => Op::DamageContent { addr: AddrRef { algo: Algo::Sha256, blob: u.int_in_range(0..=nb - 1).unwrap_or(0) }, dmg: CDamage::FlipBit(u.arbitrary::<u16>().unwrap_or(0) as usize) },
        };
        // the fuzz target is single-threaded and synchronous (async-std's pools make coverage noisy)
        let step = Step { op, fl: Fl::Sync };
        let r = run_step(&ctx, &step);
        if let Err(e) = model.step(&ctx, &step, &r.out, r.t0, r.t1) {
            panic!("model violation: {:?}: {e}", step);
        }
    }
}

fuzz_target!(|data: &[u8]| {
    run(data);
});
