#!/usr/bin/env python3
"""Regenerates /verif/MANIFEST.json from the table below (kept next to the checks so the
manifest, the engines and DESIGN.md stay in step)."""
import json, os
V = os.path.dirname(os.path.dirname(os.path.abspath(__file__)))
props = [json.loads(l) for l in open(os.path.join(V, "properties.jsonl"))]

PBT = "cvh-pbt"
# id -> (level, technique, text, note)
CHECKS = {
 "C01": ("exploration", "bounded-exhaustive damage enumeration + seeded random PBT; error-or-original and digest==address oracles",
  "Every single-bit flip and every truncation length of small entries, 12 damage classes under each of the 5 algorithms, and random damage over all sizes; after the damage every checked retrieval entry point (read, read_hash, SyncReader/Reader+check, copy, copy_hash, hard_link*, reflink*) by key and by address in both flavours must return an error or exactly the stored bytes. Every entry point first runs on the pristine entry; large entries are also retrieved by 6 threads at once (before and after the damage) and read with one read_exact; destinations include another filesystem and a hard link of the content file.",
  "Stream bytes before check() are not judged; reflink success is unreachable on this filesystem."),
 "C03": ("fault_enumeration", "system-call-level crash-point enumeration under a ptrace supervisor (pause-inspect, torn writes, kills) + no-crash PBT invariant",
  "Write scenarios run in a driver process under ptrace: the writer is held before EVERY mutating system call and the live content tree is judged (file at its address <=> bytes hash to it, readable through the library); data write(2) calls are torn at every byte length (small data) or generated lengths and the process killed; real kills at selected calls; plus random no-crash programs with rejected commits and abandoned writers.",
  "Kill model = process death; stores through the memory mapping are not system calls and are not interleaved; supervisor's syscall classification is trusted (cross-checked by C15's outside snapshot)."),
 "C04": ("fault_enumeration", "system-call-level crash-point enumeration (every kill point, every torn byte length of the index append) + model-based continuation after restart",
  "For first writes, overwrites, tombstone removals and re-writes with multi-byte UTF-8 keys/metadata: kill before every mutating system call and tear the index append at every byte length; afterwards lookups must show exactly the old or exactly the new state, all other keys the model state, the bucket must decode to the earlier records plus at most the new one, and a generated continuation history must then behave per the model.",
  "Kill model = process death. Post-crash observation runs through the library in the harness process (the library has no in-process state)."),
 "C06": ("exploration", "bounded-exhaustive damage enumeration + seeded random PBT against an independent reference reader; verbatim and sync==async clauses",
  "Every cut length and every single-bit flip of small buckets, each followed by appends, plus random multi-damage cases (garbage incl. invalid UTF-8 and NUL, inserted lines, duplicated fragments, stripped newlines, torn tails) over histories written by the library and by an independent writer; lookups and listing must equal the fold over the records an independent reference reader accepts, sync == async, every returned entry was written verbatim, and appended records are effective. After every library append the file must imply what its valid records plus the appended one imply, and hold exactly one more valid record; garbage tails up to 1.1 MiB, garbage lines of 2^k-1 / 2^k / 2^k+1 bytes, records beyond 256 KiB before a torn tail; same-length damage keeps the modification time.",
  "Reference reader written from the C17 statement; checksum-valid ill-formed records are out of the stated damage classes."),
 "C12": ("exploration", "three-way differential PBT (sync / async-std / tokio) over generated programs incl. damage steps + mixed-flavour execution against the reference model",
  "The same generated program (all option combinations, extraction, link_to, removals, raw index calls, damage to content and bucket files between steps) runs in three fresh caches through the _sync API, this build's async runtime and the other runtime (the other build's driver process, step-synchronous); per step the normalised results must be equal and admitted by the model, the final trees must decode to the same records and content; a mixed execution assigns each step a generated flavour and is judged by the model, then read through all three. Two further case kinds without a model: planted odd index records (read side must agree), and programs run in three single-threaded driver processes with a relative cache path and a changing working directory.",
  "The remote flavour is the other build's driver binary; timestamps assigned by the library are blanked after the model judged them."),
 "C13": ("fault_enumeration", "system-call fault injection at every call of each operation under a ptrace supervisor; truthfulness + model sweep + fault-free re-run oracle",
  "27 victim operations x 2 flavours x 2 builds: a fault-free traced run lists the filesystem system calls of the operation, then every call in turn is made to fail with EIO and a class-specific errno (all applicable errnos and fault pairs in the thorough tier), plus short-write-then-ENOSPC; the call must return, successes must be truthful per the model, 'not found' for a present key is a violation, afterwards every other key/address equals the model, the content tree is valid, and the same call re-run without faults behaves normally. The traced process carries on after the faulty call with further writes, a removal and lookups (state a failed call leaves inside the process leaks into those); victims include values another key already holds, writes short of the declared size, a key whose bucket exceeds 1 MiB, the temp area on another filesystem, and a really full tmpfs mounted on the cache (private mount namespace).",
  "Only the stated fault classes are injected; leftovers in the temp area and partial index lines are legal; destination of a failed extraction is not judged."),
 "C14": ("exploration", "model-based stateful PBT with abandonment points incl. mid-flight drop; temp-area drain oracle",
  "Programs interleaving successful writes, rejected commits and writers abandoned after creation / after j chunks / mid-flight (future polled once then dropped) / after flush; the model must be unchanged by them after every step and the temp area must drain (tokio: runtime dropped = pool joined; async-std: polled, two snapshots).",
  "async-std background cleanup is awaited by polling (bounded); a still-changing temp area is inconclusive (exit 2), never a violation."),
 "C17": ("exploration", "two-way interchange PBT against an independent Python implementation of the format (hashlib/json); codec cross-check",
  "Direction A: the library writes generated histories; ref/refcache.py validates the layout (SHA-1 bucket paths, record grammar, six fields, content paths and digests) and its lookups/reads/listing must equal the library's and the model's; Rust and Python reference codecs must agree on every bucket. Direction B: the Python implementation writes the same history (alternating escaping and field order) and every library read entry point must return exactly what was written. A third of the cases then hand the reference-written cache to another user and read it through a driver process running as an unprivileged third user (setpriv): reading needs nothing but read permission.",
  "CPython hashlib/json as the independent implementation (no XXH3: digest supplied by the harness, verification skipped)."),
 "C18": ("exploration", "factor-grid + random PBT against the reference model; destination-state oracle",
  "Full grid over size x damage class x extraction kind x checked x by key/address x flavour x destination state: success leaves exactly the stored bytes (and the byte count for copies); missing key / content give the stated errors; a failed checked extraction leaves the destination absent or exactly as it was. Destination classes: absent, existing file, another filesystem, 255-byte name, next to somebody else's sibling files, an existing hard link of the entry's own content file.",
  "Unchecked extraction of damaged content is not judged; reflink success unreachable here."),
 "C19": ("exploration", "factor-grid + random PBT of link_to with relative paths in a subprocess, partial reads, post-link target changes; model + target-stat oracle",
  "Every link_to entry point (sync/async, keyed/by-hash, one-shot/builder) over target sizes around the 8-byte probe and 16 KiB buffer, absolute and relative targets (driver process with its own working directory, depth 0-3), partial reads before commit, pre-existing address, declarations; reads by key/address/stream and metadata.size must give the target's bytes as of link time, the content path must be a symlink (or the untouched existing file), no copy may appear in the cache, the target's bytes/inode/mtime never change, and after the target is modified, truncated, removed or replaced reads must fail.",
  "Harness builds enable the link_to feature."),
 "C20": ("exploration", "union PBT campaign under catch_unwind + panic hook + watchdog: random programs, hostile on-disk records, fault-injection and crash cases; libFuzzer targets in the thorough tier",
  "Random programs over the whole operation language on directory / missing / file cache roots; checksum-valid index records with hostile fields planted before programs (fixed family of 17 integrity strings x every read-side call, plus random); C13 fault cases and C04 crash cases judged for panics, hangs and abnormal exits only; panics on runtime threads are collected; a per-case watchdog bounds termination. Fatal signals inside a case (SIGSEGV / SIGBUS / SIGABRT / SIGILL / SIGFPE) dump the running case, which the front end re-runs: a reproducible process death is the violation.",
  "Integrity arguments are well-formed as the property assumes; 'never hangs' is bounded by a watchdog, not proved."),
 "C02": ("exploration", "round-trip PBT (proptest) over a factor grid + seeded random cases; model digest oracle",
  "Factor grid over algorithm x boundary length (0, 1, 8 KiB±1, 1 MiB±1, multi-MiB) x every write entry point x flavour x size declaration x chunking, plus random writes with hostile keys; every write must succeed, return the independently computed digest, and read back exactly through six read entry points by key and by the returned address. Both async builds.",
  "Healthy tmpfs; digests computed with sha1/sha2/xxhash-rust + own base64 (not ssri). Exploration: no claim beyond the generated inputs."),
 "C05": ("exploration", "model-based stateful PBT (proptest) + bounded-exhaustive history enumeration",
  "All histories up to length 3 (quick) / 4, and 5 on a sub-alphabet (thorough), over a 12-symbol alphabet, plus seeded random histories; every key looked up through every lookup entry point after every step and compared with a reference model; sync and async mixed, both builds.",
  "Reference model of DESIGN.md 4.2; healthy tmpfs; nothing is claimed beyond the enumerated bound."),
 "C07": ("exploration", "schedule enumeration at system-call granularity (context-bounded + random) under a ptrace supervisor; serialisability search against the reference model; splice detector",
  "2-3 operations sharing keys/addresses, each in its own sync driver process; one supervisor holds every process before every filesystem system call and the generated schedule picks who continues: all start orders and all schedules with <=1 preemption (<=2 for pairs, thorough) for 14 fixed operation sets, random schedules and operation sets beyond, plus uncontrolled in-process stress for the async flavours. Some permutation of the operations replayed on the model must explain every result and the final state; every bucket must decode to valid records only, as many as succeeded.",
  "Controlled schedules exist for the sync flavour only (async runtimes cannot be scheduled from outside); serialisability, not real-time order, is demanded."),
 "C08": ("exploration", "factor-grid + random PBT against the reference model (expected error variant, mapping unchanged)",
  "Full grid over length (both sides of the mmap threshold) x declared size x declared integrity x prior key state x keyed/by-address x flavour; the error variant and its payload are checked and a full sweep of lookups/listing/addresses after each rejected commit shows the previous mapping untouched.",
  "Healthy tmpfs. Declared integrity that is correct only for another algorithm is left undecided by the statement (both outcomes admitted)."),
 "C09": ("exploration", "model-based stateful PBT with a full observation sweep after every removal",
  "Random histories over <=10 keys sharing <=6 values mixing writes with remove, remove_hash, remove_fully and clear; after every removal every key, every address and the listing are compared with the model, and the content tree must stay valid.",
  "remove_fully / clear follow their documented multi-step semantics (DESIGN.md 4.2)."),
 "C10": ("exploration", "model-based stateful PBT + direct listing-vs-lookup differential",
  "Random histories (several records per bucket, tombstones anywhere) and bulk histories up to 300 (600 thorough) keys; after every step list_sync is compared both with the model and directly with sync and async lookups of every key. Fixed families: records of 80..800 KiB, entries whose content is gone or substituted, bucket files that are symbolic links, a filesystem mounted on an index shard (driver process in a private mount namespace), planted odd records.",
  "The empty-cache listing quirk pinned by the repository's own test is treated as the empty listing."),
 "C11": ("exploration", "round-trip PBT over generated metadata values, default-window oracle",
  "Generated keys, 128-bit timestamps, JSON trees, raw bytes and sizes through every keyed write entry point and raw index insert of both flavours; lookups and listing items must return every field unchanged; default timestamp must fall inside the clock window of the call, default size must be the byte count.",
  "System clock monotone during a call; decimals restricted as the property states."),
 "C15": ("exploration", "system-call tracing of generated programs with hostile keys in a sandbox + outside snapshot + model-based opacity check",
  "Programs over the full API with keys from a hostile/confusable pool run (A) in process against the model (confusable keys never alias, read-only calls leave the tree byte- and mtime-identical) and (B) in a driver process under ptrace inside a sandbox with sentinel and decoy siblings: every mutating system call's paths must lie under the cache root (or be the extraction destination), index paths must be the reference bucket path of the step's key, read-only calls issue no mutating call, and a snapshot of everything outside the cache root (incl. a TMPDIR sentinel) is unchanged.",
  "Supervisor's classification of mutating calls, cross-checked by the snapshot which does not depend on it."),
 "C16": ("exploration", "model-based PBT + differential against coreutils sha*sum; file-count invariant",
  "Histories re-writing equal data through different keys/entry points/flavours and under all five algorithms; addresses compared with the model digest and with coreutils; content file count equals distinct (algorithm, data); damaging one algorithm's copy leaves the others readable.",
  "coreutils as the independent digest implementation (none exists for XXH3 here)."),
}
# what waves 8 and 9 of the seeded changes added to each check (appended to the text above)
GROWN = {
 "C01": "Victim shapes added later: the same bytes also stored intact under a weaker algorithm with both hashes in the index entry (damage on the file the strongest hash names); a victim key whose previous value is still in the cache; streams consumed by one read_to_end into a non-empty vector.",
 "C02": "Also: single chunks of 32 MiB+ (128 MiB+ thorough), values mined offline whose digest starts with three zero bytes, read-back streams consumed by small reads / one read_to_end into a non-empty vector / one read_exact.",
 "C05": "Also: one key grown to thousands of small records observed around round record counts; a sixth of all histories mirrored with other values into a second cache of the same process; streaming writers whose own key is removed (fully / by a record) between their last chunk and their commit.",
 "C07": "Also: processes that run two or three operations in a row, real-time order demanded on top of serialisability in scheduled runs, schedules that back-date the whole cache at the preemption, and the operations as futures joined in one task (async flavours).",
 "C09": "Also: a write / look / clear-or-remove-fully / rewrite-with-a-record-of-the-same-length / look family in a cache on the disk filesystem (freed inode numbers are reused at once) with no observation between the steps.",
 "C13": "Also: the bystander key's bucket and the bystander's content file share the victim's index / content sub-directory; extraction victims onto an existing file of exactly the entry's length and onto the entry's own hard link, with EACCES among the injected errors.",
 "C14": "Also: async commits cancelled in flight (future polled 1-4 times and dropped; run in a process of its own so that the judged state is final: the key shows its old or its new entry, content that was valid before stays valid); the index area (directories included) and the raw listing are unchanged by every abandoned writer, rejected commit and write by address.",
 "C15": "Modes and owners are part of every snapshot; every other link target is a read-only file that must stay so.",
 "C18": "Also: destinations that are an existing file of exactly the entry's length, or (linked entries) another hard-link name of the user's file; missing keys whose text is the address of stored content.",
 "C19": "Also: read-only targets (mode and owner are part of 'never modified'); the entry removed through the cache in every way there is (the user's file stays); for relative targets through the builder a change of the working directory between opening the linker and its commit.",
}
for _k, _t in GROWN.items():
    _l, _te, _tx, _n = CHECKS[_k]
    CHECKS[_k] = (_l, _te, _tx + " " + _t, _n)
REF = {k: f"5/{k}" for k in CHECKS}

checks = []
for pid in sorted(CHECKS):
    level, tech, text, note = CHECKS[pid]
    checks.append({
        "property_id": pid,
        "quick_cmd": f"./check {pid} quick",
        "thorough_cmd": f"./check {pid} thorough",
        "evidence_file": f"/verif/evidence/{pid}.json",
        "replay_cmd_template": "./check replay {path}",
        "engine": PBT,
        "level_claimed": {"category": level, "text": text, "design_ref": REF[pid]},
        "level_note": note,
        "technique": tech,
    })
m = {
 "version": 1,
 "setup_cmd": "./check setup",
 "hooks": {"guard": "none", "enable": "no source hooks: the checks observe through the public API, the directory tree and system calls (ptrace)",
           "baseline_off_cmd": "cd /repo && cargo test --workspace --no-fail-fast --offline", "source_commits": [], "add_only": True},
 "engines": [{"name": PBT, "path": "/verif/harness", "serves_properties": sorted(CHECKS),
              "kind_free_text": "Rust harness (proptest) built twice against /repo (async-std and tokio): operation language + interpreter, reference model, independent format codec, damage library, generic driver with regress replays, bounded-exhaustive families, seeded parallel random search, shrinking, replay files, evidence, watchdog"},
             {"name": "ptsup", "path": "/verif/ptsup/ptsup.c", "serves_properties": ["C03", "C04", "C07", "C13", "C14", "C15", "C20"],
              "kind_free_text": "ptrace supervisor: holds subject processes at every filesystem system call inside an operation window; the generated case decides continue / kill / torn write / short write / errno / which process runs next"},
             {"name": "refcache", "path": "/verif/ref/refcache.py", "serves_properties": ["C17"],
              "kind_free_text": "independent Python implementation of the on-disk format (hashlib/json): reader, writer, layout validator; JSON-lines server"},
             {"name": "cvh-fuzz", "path": "/verif/harness/fuzz", "serves_properties": ["C06", "C20", "C02", "C08"],
              "kind_free_text": "cargo-fuzz / libFuzzer targets fz_bucket and fz_program with the semantic oracle (reference reader / reference model) inside the target; fixed-work campaigns in the thorough tier"}],
 "checks": checks,
 "notes": "Every check builds the harness against /repo's current working tree (content-hash stamp forces recompilation). VERIF_SEED selects the random part; exhaustive families do not depend on it. Exit 2 = inconclusive (build failure, watchdog, generator health). tools/selftest.py re-runs the sensitivity test over seeded/ (47 seeded changes, all caught by the quick tier).",
 "not_applicable": [{"property_id": p["id"], "reason": "check not built yet (in progress, see DESIGN.md section 5)"} for p in props if p["id"] not in CHECKS],
}
json.dump(m, open(os.path.join(V, "MANIFEST.json"), "w"), indent=1)
print("claimed:", " ".join(sorted(CHECKS)))
