#!/usr/bin/env python3
"""Regenerates /verif/MANIFEST.json from the table below (kept next to the checks so the
manifest, the engines and DESIGN.md stay in step)."""
import json, os
V = os.path.dirname(os.path.dirname(os.path.abspath(__file__)))
props = [json.loads(l) for l in open(os.path.join(V, "properties.jsonl"))]

PBT = "cvh-pbt"
# id -> (level, technique, text, note)
CHECKS = {
 "C01": ("exploration", "bounded-exhaustive damage enumeration + seeded random PBT; error-or-original and digest==address oracles",
  "Every single-bit flip and every truncation length of small entries, 12 damage classes under each of the 5 algorithms, and random damage over all sizes; after the damage every checked retrieval entry point (read, read_hash, SyncReader/Reader+check, copy, copy_hash, hard_link*, reflink*) by key and by address in both flavours must return an error or exactly the stored bytes.",
  "Stream bytes before check() are not judged; reflink success is unreachable on this filesystem."),
 "C03": ("fault_enumeration", "system-call-level crash-point enumeration under a ptrace supervisor (pause-inspect, torn writes, kills) + no-crash PBT invariant",
  "Write scenarios run in a driver process under ptrace: the writer is held before EVERY mutating system call and the live content tree is judged (file at its address <=> bytes hash to it, readable through the library); data write(2) calls are torn at every byte length (small data) or generated lengths and the process killed; real kills at selected calls; plus random no-crash programs with rejected commits and abandoned writers.",
  "Kill model = process death; stores through the memory mapping are not system calls and are not interleaved; supervisor's syscall classification is trusted (cross-checked by C15's outside snapshot)."),
 "C04": ("fault_enumeration", "system-call-level crash-point enumeration (every kill point, every torn byte length of the index append) + model-based continuation after restart",
  "For first writes, overwrites, tombstone removals and re-writes with multi-byte UTF-8 keys/metadata: kill before every mutating system call and tear the index append at every byte length; afterwards lookups must show exactly the old or exactly the new state, all other keys the model state, the bucket must decode to the earlier records plus at most the new one, and a generated continuation history must then behave per the model.",
  "Kill model = process death. Post-crash observation runs through the library in the harness process (the library has no in-process state)."),
 "C06": ("exploration", "bounded-exhaustive damage enumeration + seeded random PBT against an independent reference reader; verbatim and sync==async clauses",
  "Every cut length and every single-bit flip of small buckets, each followed by appends, plus random multi-damage cases (garbage incl. invalid UTF-8 and NUL, inserted lines, duplicated fragments, stripped newlines, torn tails) over histories written by the library and by an independent writer; lookups and listing must equal the fold over the records an independent reference reader accepts, sync == async, every returned entry was written verbatim, and appended records are effective.",
  "Reference reader written from the C17 statement; checksum-valid ill-formed records are out of the stated damage classes."),
 "C14": ("exploration", "model-based stateful PBT with abandonment points incl. mid-flight drop; temp-area drain oracle",
  "Programs interleaving successful writes, rejected commits and writers abandoned after creation / after j chunks / mid-flight (future polled once then dropped) / after flush; the model must be unchanged by them after every step and the temp area must drain (tokio: runtime dropped = pool joined; async-std: polled, two snapshots).",
  "async-std background cleanup is awaited by polling (bounded); a still-changing temp area is inconclusive (exit 2), never a violation."),
 "C18": ("exploration", "factor-grid + random PBT against the reference model; destination-state oracle",
  "Full grid over size x damage class x extraction kind x checked x by key/address x flavour x destination state: success leaves exactly the stored bytes (and the byte count for copies); missing key / content give the stated errors; a failed checked extraction leaves the destination absent or exactly as it was.",
  "Unchecked extraction of damaged content is not judged; reflink success unreachable here."),
 "C02": ("exploration", "round-trip PBT (proptest) over a factor grid + seeded random cases; model digest oracle",
  "Factor grid over algorithm x boundary length (0, 1, 8 KiB±1, 1 MiB±1, multi-MiB) x every write entry point x flavour x size declaration x chunking, plus random writes with hostile keys; every write must succeed, return the independently computed digest, and read back exactly through six read entry points by key and by the returned address. Both async builds.",
  "Healthy tmpfs; digests computed with sha1/sha2/xxhash-rust + own base64 (not ssri). Exploration: no claim beyond the generated inputs."),
 "C05": ("exploration", "model-based stateful PBT (proptest) + bounded-exhaustive history enumeration",
  "All histories up to length 3 (quick) / 4, and 5 on a sub-alphabet (thorough), over a 12-symbol alphabet, plus seeded random histories; every key looked up through every lookup entry point after every step and compared with a reference model; sync and async mixed, both builds.",
  "Reference model of DESIGN.md 4.2; healthy tmpfs; nothing is claimed beyond the enumerated bound."),
 "C08": ("exploration", "factor-grid + random PBT against the reference model (expected error variant, mapping unchanged)",
  "Full grid over length (both sides of the mmap threshold) x declared size x declared integrity x prior key state x keyed/by-address x flavour; the error variant and its payload are checked and a full sweep of lookups/listing/addresses after each rejected commit shows the previous mapping untouched.",
  "Healthy tmpfs. Declared integrity that is correct only for another algorithm is left undecided by the statement (both outcomes admitted)."),
 "C09": ("exploration", "model-based stateful PBT with a full observation sweep after every removal",
  "Random histories over <=10 keys sharing <=6 values mixing writes with remove, remove_hash, remove_fully and clear; after every removal every key, every address and the listing are compared with the model, and the content tree must stay valid.",
  "remove_fully / clear follow their documented multi-step semantics (DESIGN.md 4.2)."),
 "C10": ("exploration", "model-based stateful PBT + direct listing-vs-lookup differential",
  "Random histories (several records per bucket, tombstones anywhere) and bulk histories up to 300 (600 thorough) keys; after every step list_sync is compared both with the model and directly with sync and async lookups of every key.",
  "The empty-cache listing quirk pinned by the repository's own test is treated as the empty listing."),
 "C11": ("exploration", "round-trip PBT over generated metadata values, default-window oracle",
  "Generated keys, 128-bit timestamps, JSON trees, raw bytes and sizes through every keyed write entry point and raw index insert of both flavours; lookups and listing items must return every field unchanged; default timestamp must fall inside the clock window of the call, default size must be the byte count.",
  "System clock monotone during a call; decimals restricted as the property states."),
 "C16": ("exploration", "model-based PBT + differential against coreutils sha*sum; file-count invariant",
  "Histories re-writing equal data through different keys/entry points/flavours and under all five algorithms; addresses compared with the model digest and with coreutils; content file count equals distinct (algorithm, data); damaging one algorithm's copy leaves the others readable.",
  "coreutils as the independent digest implementation (none exists for XXH3 here)."),
}
REF = {k: f"5/{k}" for k in CHECKS}

checks = []
for pid in sorted(CHECKS):
    level, tech, text, note = CHECKS[pid]
    checks.append({
        "property_id": pid,
        "quick_cmd": f"./check {pid} quick",
        "thorough_cmd": f"./check {pid} thorough",
        "evidence_file": f"/verif/evidence/{pid}.json",
        "replay_cmd_template": "./check replay {path}",
        "engine": PBT,
        "level_claimed": {"category": level, "text": text, "design_ref": REF[pid]},
        "level_note": note,
        "technique": tech,
    })
m = {
 "version": 1,
 "setup_cmd": "./check setup",
 "hooks": {"guard": "none", "enable": "no source hooks: the checks observe through the public API, the directory tree and system calls (ptrace)",
           "baseline_off_cmd": "cd /repo && cargo test --workspace --no-fail-fast --offline", "source_commits": [], "add_only": True},
 "engines": [{"name": PBT, "path": "/verif/harness", "serves_properties": sorted(CHECKS),
              "kind_free_text": "Rust harness (proptest) built twice against /repo (async-std and tokio): operation language + interpreter, reference model, independent format codec, damage library, generic driver with bounded-exhaustive families, seeded random search, shrinking, replay files, evidence"}],
 "checks": checks,
 "notes": "Every check builds the harness against /repo's current working tree (content-hash stamp forces recompilation). VERIF_SEED selects the random part; exhaustive families do not depend on it. Exit 2 = inconclusive (build failure, watchdog, generator health).",
 "not_applicable": [{"property_id": p["id"], "reason": "check not built yet (in progress, see DESIGN.md section 5)"} for p in props if p["id"] not in CHECKS],
}
json.dump(m, open(os.path.join(V, "MANIFEST.json"), "w"), indent=1)
print("claimed:", " ".join(sorted(CHECKS)))
