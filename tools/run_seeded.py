#!/usr/bin/env python3
"""Applies a seeded change to /repo, runs the named checks (quick tier), restores /repo.
usage: run_seeded.py <patch.diff> <PROP> [<PROP>...]   (prints one line per check)"""
import subprocess, sys, os, time
REPO = os.environ.get("CVH_REPO", "/repo")
VERIF = os.path.dirname(os.path.dirname(os.path.abspath(__file__)))
patch = os.path.abspath(sys.argv[1])
props = sys.argv[2:]
def sh(*a, **k):
    return subprocess.run(*a, **k)
st = sh(["git", "-C", REPO, "status", "--porcelain", "--untracked-files=no"], capture_output=True, text=True).stdout.strip()
if st:
    print("refusing: the repository has local modifications:\n" + st); sys.exit(2)
r = sh(["git", "-C", REPO, "apply", patch], capture_output=True, text=True)
if r.returncode != 0:
    print("patch does not apply:", r.stderr); sys.exit(2)
try:
    for p in props:
        t = time.time()
        r = sh([os.path.join(VERIF, "check"), p, "quick"], capture_output=True, text=True, cwd=VERIF)
        first = next((l for l in r.stdout.splitlines() if l.startswith("VIOLATION")), "")
        detail = next((l for l in r.stdout.splitlines() if l.startswith("  build=")), "")
        print(f"{p}: exit={r.returncode} {time.time()-t:.0f}s {first} {detail[:300]}", flush=True)
finally:
    sh(["git", "-C", REPO, "checkout", "--", "."])
