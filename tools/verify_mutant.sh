#!/bin/bash
# verify_mutant.sh <mutant-id e.g. C06A> [cargo feature args for the demo]
# Confirms in the sub-agent's scratch worktree: demo passes without the patch, existing
# unit tests pass with it, demo fails with it. Prints a one-line verdict.
id=$1; shift
prop=${id:0:3}
wt=/tmp/wt/$prop
m=/tmp/mut/$id
[ -f $m/patch.diff ] || { echo "$id: no patch"; exit 2; }
cd $wt && git checkout -q -- . && git clean -fdq -e target
mkdir -p tests
demo=$(ls $m/demo/*.rs 2>/dev/null | head -1)
[ -n "$demo" ] || { echo "$id: no .rs demo (see $m/demo)"; exit 2; }
name=$(basename $demo .rs)
cp $demo tests/$name.rs
cargo test --offline --test $name "$@" > /tmp/mut/$id.without.log 2>&1; without=$?
git apply $m/patch.diff || { echo "$id: patch does not apply"; exit 2; }
cargo test --offline --lib > /tmp/mut/$id.lib.log 2>&1; lib=$?
libn=$(grep -o "[0-9]* passed" /tmp/mut/$id.lib.log | head -1)
cargo test --offline --test $name "$@" > /tmp/mut/$id.with.log 2>&1; with=$?
git checkout -q -- . && git clean -fdq -e target
echo "$id: demo without patch exit=$without (want 0); unit tests with patch exit=$lib ($libn); demo with patch exit=$with (want !=0)"
