#!/usr/bin/env python3
"""Sensitivity self-test: applies every seeded change under /verif/seeded to /repo in turn,
runs the quick tier of the checks named in its meta.json ("caught_by"), restores /repo and
reports which changes were caught. Takes ~25 minutes for all of them.
usage: tools/selftest.py [id-prefix ...]"""
import glob, json, os, subprocess, sys
V = os.path.dirname(os.path.dirname(os.path.abspath(__file__)))
sel = sys.argv[1:]
bad = 0
for d in sorted(glob.glob(os.path.join(V, "seeded", "*"))):
    mid = os.path.basename(d)
    if sel and not any(mid.startswith(s) for s in sel):
        continue
    meta = json.load(open(os.path.join(d, "meta.json")))
    if "caught_by" in meta and not meta["caught_by"]:
        print("SKIPPED " + mid + " (recorded as not caught / not claimed: see its note)", flush=True)
        continue
    props = meta.get("caught_by") or [meta.get("breaks")]
    r = subprocess.run([os.path.join(V, "tools", "run_seeded.py"), os.path.join(d, "patch.diff"), props[0]], capture_output=True, text=True)
    line = (r.stdout.strip().splitlines() or ["(no output)"])[-1]
    ok = "exit=1" in line
    bad += 0 if ok else 1
    print(("CAUGHT " if ok else "MISSED ") + mid + " by " + props[0] + " :: " + line[:160], flush=True)
sys.exit(1 if bad else 0)
