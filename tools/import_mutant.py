#!/usr/bin/env python3
"""import_mutant.py <id> <caught_by comma list or -> <missed_by comma list or -> [note]
Copies /tmp/mut/<id> into /verif/seeded/<id> and records what was run."""
import json, os, shutil, sys
mid, caught, missed = sys.argv[1], sys.argv[2], sys.argv[3]
note = sys.argv[4] if len(sys.argv) > 4 else ""
src, dst = f"/tmp/mut/{mid}", f"/verif/seeded/{mid}"
os.makedirs(dst, exist_ok=True)
shutil.copy(f"{src}/patch.diff", f"{dst}/patch.diff")
if os.path.isdir(f"{src}/demo"):
    shutil.copytree(f"{src}/demo", f"{dst}/demo", dirs_exist_ok=True)
m = json.load(open(f"{src}/meta.json")) if os.path.exists(f"{src}/meta.json") else {}
m.update({
 "origin": "written by an independent sub-agent that saw only the property text and a scratch worktree of /repo",
 "confirmed": "tools/verify_mutant.sh: demo passes without the patch, `cargo test --offline --lib` passes (38) with it, demo fails with it",
 "ran": "tools/run_seeded.py (git -C /repo apply; ./check <P> quick on both builds; git -C /repo checkout -- .)",
 "caught_by": [] if caught == "-" else caught.split(","),
 "missed_by_at_first": [] if missed == "-" else missed.split(","),
})
if note:
    m["note"] = note
json.dump(m, open(f"{dst}/meta.json", "w"), indent=1)
print("imported", mid)
