/* ptsup — ptrace supervisor for the cacache verification harness.
 *
 *   ptsup [-g mut|fs] [-t seconds] -- cmd args... [--- cmd args...]*
 *
 * Starts 1..8 subject processes under ptrace (following all their threads), and turns
 * every filesystem system call they make inside an *operation window* into an event on
 * stdout, waiting for a decision on stdin. The window is opened / closed by the subject
 * with marker calls: write(1023, "CVH:BEGIN:<n>") / write(1023, "CVH:END:<n>").
 *
 * Events (one line each):
 *   M <cid> B|E <n>                                   marker seen (no reply expected)
 *   S <cid> <tid> <seq> <nr> <name> k=v ...           gate reached, thread held: reply expected
 *   X <cid> <tid> <seq> <retval>                      a gated call returned (no reply)
 *   Q                                                 every live thread is held: reply expected
 *   Z <cid> <status>                                  subject exited (no reply); status: e<code> | s<signal>
 *   F <text>                                          fatal supervisor error
 * Replies to S:
 *   C            let the call run
 *   H            hold the thread (it stays stopped before the call)
 *   K            kill the whole subject now, before the call executes
 *   T <k>        set the byte count of a write-class call to k, let it run, kill the subject at its return
 *   W <k>        set the byte count to k and let the call run (short write)
 *   E <errno>    do not execute the call; make it return -errno
 *   D            detach from gating: the subject runs free until it exits
 * Replies to Q:
 *   R <tid>      release a held thread (its call runs)
 *   K <cid>      kill a subject
 *   A            kill everything and finish
 *
 * Gate sets: "mut" = calls that can change the filesystem; "fs" = mut + read-side calls.
 * Writes to pipes, sockets, eventfds and other anonymous inodes are never gates.
 */
#define _GNU_SOURCE
#include <errno.h>
#include <fcntl.h>
#include <signal.h>
#include <stdio.h>
#include <stdlib.h>
#include <string.h>
#include <sys/ptrace.h>
#include <sys/syscall.h>
#include <sys/types.h>
#include <sys/uio.h>
#include <sys/user.h>
#include <sys/wait.h>
#include <unistd.h>

#define MAXT 512
#define MAXC 8

enum { ST_RUN = 0, ST_HELD = 1 };

struct thr {
    pid_t tid;
    int cid;
    int used;
    int state;
    int gated;        /* the current syscall was gated (report its return) */
    long seq;
    int kill_at_exit; /* torn write: kill the process when this call returns */
    int fake_errno;   /* >0: patch return value at exit */
    int seen_first_stop;
};

struct subj {
    pid_t pid;
    int alive;
    int window;
    int free_run;
};

static struct thr T[MAXT];
static struct subj C[MAXC];
static int ncid = 0;
static int gate_fs = 0;
static long seqno = 0;

static void die(const char *m) {
    printf("F %s: %s\n", m, strerror(errno));
    fflush(stdout);
    for (int i = 0; i < ncid; i++)
        if (C[i].alive) kill(C[i].pid, SIGKILL);
    exit(4);
}

static struct thr *find(pid_t tid) {
    for (int i = 0; i < MAXT; i++)
        if (T[i].used && T[i].tid == tid) return &T[i];
    return NULL;
}

static struct thr *add(pid_t tid, int cid) {
    for (int i = 0; i < MAXT; i++)
        if (!T[i].used) {
            memset(&T[i], 0, sizeof T[i]);
            T[i].used = 1;
            T[i].tid = tid;
            T[i].cid = cid;
            return &T[i];
        }
    errno = ENOMEM;
    die("too many threads");
    return NULL;
}

static int tgid_of(pid_t tid) {
    char p[64], buf[4096];
    snprintf(p, sizeof p, "/proc/%d/status", tid);
    FILE *f = fopen(p, "r");
    if (!f) return -1;
    int tg = -1;
    while (fgets(buf, sizeof buf, f))
        if (sscanf(buf, "Tgid: %d", &tg) == 1) break;
    fclose(f);
    return tg;
}

static int cid_of_pid(pid_t pid) {
    for (int i = 0; i < ncid; i++)
        if (C[i].pid == pid) return i;
    return -1;
}

static size_t read_str(pid_t tid, unsigned long addr, char *out, size_t max) {
    size_t n = 0;
    if (!addr) {
        out[0] = 0;
        return 0;
    }
    while (n + 1 < max) {
        char buf[256];
        struct iovec l = {buf, sizeof buf}, r = {(void *)(addr + n), sizeof buf};
        /* do not cross a page boundary in one read */
        size_t room = 4096 - ((addr + n) & 4095);
        if (room < sizeof buf) {
            l.iov_len = room;
            r.iov_len = room;
        }
        ssize_t k = process_vm_readv(tid, &l, 1, &r, 1, 0);
        if (k <= 0) break;
        for (ssize_t i = 0; i < k; i++) {
            if (n + 1 >= max) break;
            out[n] = buf[i];
            if (!buf[i]) return n;
            n++;
        }
    }
    out[n] = 0;
    return n;
}

static void esc(const char *s, char *out, size_t max) {
    size_t o = 0;
    for (; *s && o + 5 < max; s++) {
        unsigned char c = (unsigned char)*s;
        if (c <= 0x20 || c == '%' || c == '=' || c >= 0x7f) {
            o += snprintf(out + o, max - o, "%%%02X", c);
        } else
            out[o++] = c;
    }
    out[o] = 0;
}

static void fd_path(pid_t tid, long fd, char *out, size_t max) {
    char p[64];
    if (fd == AT_FDCWD)
        snprintf(p, sizeof p, "/proc/%d/cwd", tid);
    else
        snprintf(p, sizeof p, "/proc/%d/fd/%ld", tid, fd);
    ssize_t k = readlink(p, out, max - 1);
    if (k < 0) k = 0;
    out[k] = 0;
}

struct sysdesc {
    long nr;
    const char *name;
    int kind; /* see below */
    int mut;  /* 1 = mutating class, 0 = read side, 2 = depends on flags (open) */
};
/* kinds: 1 path(arg0) ; 2 dirfd(arg0)+path(arg1) ; 3 fd(arg0)+count(arg2) ; 4 fd(arg0) ;
 * 5 two paths (arg0,arg1) ; 6 dirfd,path,dirfd,path (arg0..3) ; 7 path(arg0),dirfd(arg1),path(arg2) (symlinkat)
 * 8 open(path=arg0, flags=arg1) ; 9 openat(dirfd=arg0,path=arg1,flags=arg2) ; 10 mmap ; 11 ioctl ;
 * 12 copy_file_range/sendfile (fd out) ; 13 symlink(linktext=arg0, path=arg1) */
static const struct sysdesc SYS[] = {
    {SYS_read, "read", 3, 0},         {SYS_pread64, "pread64", 3, 0},     {SYS_readv, "readv", 3, 0},
    {SYS_write, "write", 3, 1},       {SYS_pwrite64, "pwrite64", 3, 1},   {SYS_writev, "writev", 3, 1},
    {SYS_open, "open", 8, 2},         {SYS_openat, "openat", 9, 2},       {SYS_creat, "creat", 1, 1},
    {SYS_stat, "stat", 1, 0},         {SYS_lstat, "lstat", 1, 0},         {SYS_access, "access", 1, 0},
    {SYS_newfstatat, "newfstatat", 2, 0}, {SYS_statx, "statx", 2, 0},     {SYS_faccessat, "faccessat", 2, 0},
    {SYS_readlink, "readlink", 1, 0}, {SYS_readlinkat, "readlinkat", 2, 0}, {SYS_getdents64, "getdents64", 4, 0},
    {SYS_fstat, "fstat", 4, 0},
    {SYS_mkdir, "mkdir", 1, 1},       {SYS_mkdirat, "mkdirat", 2, 1},     {SYS_rmdir, "rmdir", 1, 1},
    {SYS_unlink, "unlink", 1, 1},     {SYS_unlinkat, "unlinkat", 2, 1},   {SYS_rename, "rename", 5, 1},
    {SYS_renameat, "renameat", 6, 1}, {SYS_renameat2, "renameat2", 6, 1}, {SYS_link, "link", 5, 1},
    {SYS_linkat, "linkat", 6, 1},     {SYS_symlink, "symlink", 13, 1},     {SYS_symlinkat, "symlinkat", 7, 1},
    {SYS_chmod, "chmod", 1, 1},       {SYS_fchmod, "fchmod", 4, 1},       {SYS_fchmodat, "fchmodat", 2, 1},
    {SYS_chown, "chown", 1, 1},       {SYS_fchown, "fchown", 4, 1},       {SYS_fchownat, "fchownat", 2, 1},
    {SYS_utimensat, "utimensat", 2, 1}, {SYS_truncate, "truncate", 1, 1}, {SYS_ftruncate, "ftruncate", 4, 1},
    {SYS_fallocate, "fallocate", 4, 1}, {SYS_copy_file_range, "copy_file_range", 12, 1},
    {SYS_sendfile, "sendfile", 12, 1}, {SYS_mmap, "mmap", 10, 1},         {SYS_msync, "msync", 0, 1},
    {SYS_ioctl, "ioctl", 11, 1},      {SYS_fsync, "fsync", 4, 1},         {SYS_fdatasync, "fdatasync", 4, 1},
#ifdef SYS_faccessat2
    {SYS_faccessat2, "faccessat2", 2, 0},
#endif
#ifdef SYS_openat2
    {SYS_openat2, "openat2", 9, 2},
#endif
};

static const struct sysdesc *lookup(long nr) {
    for (size_t i = 0; i < sizeof SYS / sizeof SYS[0]; i++)
        if (SYS[i].nr == nr) return &SYS[i];
    return NULL;
}

static int noise_path(const char *p) {
    if (!strncmp(p, "/dev/shm/", 9) || !strcmp(p, "/dev/shm")) return 0;
    return !strncmp(p, "/dev/", 5) || !strncmp(p, "/proc/", 6) || !strncmp(p, "/sys/", 5) || !strncmp(p, "/etc/", 5);
}

static int anon_fd(const char *p) {
    return !p[0] || !strncmp(p, "pipe:", 5) || !strncmp(p, "socket:", 7) || !strncmp(p, "anon_inode:", 11) || noise_path(p);
}

/* Decides whether the call is a gate and, if so, formats its description into `desc`. */
static int describe(struct thr *t, struct __ptrace_syscall_info *si, char *desc, size_t max) {
    const struct sysdesc *d = lookup(si->entry.nr);
    if (!d) return 0;
    unsigned long long *a = (unsigned long long *)si->entry.args;
    char p1[4200], p2[4200], e1[8500], e2[8500], dp[4200], dp2[4200], ed[8500], ed2[8500];
    int mut = d->mut;
    size_t o = 0;
    desc[0] = 0;
    switch (d->kind) {
    case 0: /* msync */
        o = snprintf(desc, max, "addr=%llu", a[0]);
        break;
    case 1:
        read_str(t->tid, a[0], p1, sizeof p1);
        fd_path(t->tid, AT_FDCWD, dp, sizeof dp);
        esc(p1, e1, sizeof e1);
        esc(dp, ed, sizeof ed);
        o = snprintf(desc, max, "path=%s dir=%s", e1, ed);
        break;
    case 2:
        read_str(t->tid, a[1], p1, sizeof p1);
        fd_path(t->tid, (int)a[0], dp, sizeof dp);
        esc(p1, e1, sizeof e1);
        esc(dp, ed, sizeof ed);
        o = snprintf(desc, max, "path=%s dir=%s flags=%llu", e1, ed, a[2]);
        /* fstat via newfstatat(fd, "", AT_EMPTY_PATH) on anonymous fds is noise */
        if (!p1[0] && anon_fd(dp)) return 0;
        break;
    case 3:
        if ((long)a[0] == 1023) return 0;
        fd_path(t->tid, (long)a[0], dp, sizeof dp);
        if (anon_fd(dp)) return 0;
        esc(dp, ed, sizeof ed);
        o = snprintf(desc, max, "fd=%lld fdpath=%s count=%llu", (long long)a[0], ed, a[2]);
        break;
    case 4:
        fd_path(t->tid, (long)a[0], dp, sizeof dp);
        if (anon_fd(dp)) return 0;
        esc(dp, ed, sizeof ed);
        o = snprintf(desc, max, "fd=%lld fdpath=%s arg1=%llu arg2=%llu arg3=%llu", (long long)a[0], ed, a[1], a[2], a[3]);
        break;
    case 5:
        read_str(t->tid, a[0], p1, sizeof p1);
        read_str(t->tid, a[1], p2, sizeof p2);
        fd_path(t->tid, AT_FDCWD, dp, sizeof dp);
        esc(p1, e1, sizeof e1);
        esc(p2, e2, sizeof e2);
        esc(dp, ed, sizeof ed);
        o = snprintf(desc, max, "path=%s dir=%s path2=%s dir2=%s", e1, ed, e2, ed);
        break;
    case 6:
        read_str(t->tid, a[1], p1, sizeof p1);
        read_str(t->tid, a[3], p2, sizeof p2);
        fd_path(t->tid, (int)a[0], dp, sizeof dp);
        fd_path(t->tid, (int)a[2], dp2, sizeof dp2);
        esc(p1, e1, sizeof e1);
        esc(p2, e2, sizeof e2);
        esc(dp, ed, sizeof ed);
        esc(dp2, ed2, sizeof ed2);
        o = snprintf(desc, max, "path=%s dir=%s path2=%s dir2=%s", e1, ed, e2, ed2);
        break;
    case 13: /* symlink(linktext, linkpath) */
        read_str(t->tid, a[0], p1, sizeof p1);
        read_str(t->tid, a[1], p2, sizeof p2);
        fd_path(t->tid, AT_FDCWD, dp2, sizeof dp2);
        esc(p1, e1, sizeof e1);
        esc(p2, e2, sizeof e2);
        esc(dp2, ed2, sizeof ed2);
        o = snprintf(desc, max, "linktext=%s path2=%s dir2=%s", e1, e2, ed2);
        break;
    case 7:
        read_str(t->tid, a[0], p1, sizeof p1);
        read_str(t->tid, a[2], p2, sizeof p2);
        fd_path(t->tid, (int)a[1], dp2, sizeof dp2);
        esc(p1, e1, sizeof e1);
        esc(p2, e2, sizeof e2);
        esc(dp2, ed2, sizeof ed2);
        /* path2 is what gets created; path is the link text */
        o = snprintf(desc, max, "linktext=%s path2=%s dir2=%s", e1, e2, ed2);
        break;
    case 8:
    case 9: {
        unsigned long long flags = d->kind == 8 ? a[1] : a[2];
        read_str(t->tid, d->kind == 8 ? a[0] : a[1], p1, sizeof p1);
        fd_path(t->tid, d->kind == 8 ? AT_FDCWD : (int)a[0], dp, sizeof dp);
        if (d->nr != SYS_open && d->nr != SYS_openat) flags = 0; /* openat2: flags live in a struct; treat as read side */
        mut = (flags & (O_WRONLY | O_RDWR | O_CREAT | O_TRUNC | O_APPEND)) ? 1 : 0;
        if (noise_path(p1)) return 0;
        esc(p1, e1, sizeof e1);
        esc(dp, ed, sizeof ed);
        o = snprintf(desc, max, "path=%s dir=%s flags=%llu", e1, ed, flags);
        break;
    }
    case 10: { /* mmap(addr,len,prot,flags,fd,off): shared writable file mappings only */
        long fd = (long)(int)a[4];
        if (fd < 0 || !(a[3] & 0x01 /*MAP_SHARED*/) || !(a[2] & 0x2 /*PROT_WRITE*/)) return 0;
        fd_path(t->tid, fd, dp, sizeof dp);
        if (anon_fd(dp)) return 0;
        esc(dp, ed, sizeof ed);
        o = snprintf(desc, max, "fd=%ld fdpath=%s len=%llu", fd, ed, a[1]);
        break;
    }
    case 11: /* ioctl: FICLONE / FICLONERANGE only */
        if (a[1] != 0x40049409ULL && a[1] != 0x4020940dULL) return 0;
        fd_path(t->tid, (long)a[0], dp, sizeof dp);
        esc(dp, ed, sizeof ed);
        o = snprintf(desc, max, "fd=%lld fdpath=%s req=%llu", (long long)a[0], ed, a[1]);
        break;
    case 12:
        fd_path(t->tid, d->nr == SYS_sendfile ? (long)a[0] : (long)a[2], dp, sizeof dp);
        if (anon_fd(dp)) return 0;
        esc(dp, ed, sizeof ed);
        o = snprintf(desc, max, "fd=%lld fdpath=%s count=%llu", (long long)(d->nr == SYS_sendfile ? a[0] : a[2]), ed,
                     d->nr == SYS_sendfile ? a[3] : a[4]);
        break;
    }
    (void)o;
    if (mut == 0 && !gate_fs) return 0;
    return mut ? 2 : 1;
}

static void cont(struct thr *t, int sig) {
    if (ptrace(PTRACE_SYSCALL, t->tid, 0, sig) < 0 && errno != ESRCH) die("PTRACE_SYSCALL");
    t->state = ST_RUN;
}

static void kill_subject(int cid) {
    if (cid >= 0 && cid < ncid && C[cid].alive) kill(C[cid].pid, SIGKILL);
}

static int live_running(void) {
    for (int i = 0; i < MAXT; i++)
        if (T[i].used && T[i].state == ST_RUN && C[T[i].cid].alive) return 1;
    return 0;
}
static int live_held(void) {
    for (int i = 0; i < MAXT; i++)
        if (T[i].used && T[i].state == ST_HELD && C[T[i].cid].alive) return 1;
    return 0;
}

static char line[256];
static char *getcmd(void) {
    fflush(stdout);
    if (!fgets(line, sizeof line, stdin)) {
        for (int i = 0; i < ncid; i++) kill_subject(i);
        exit(5);
    }
    return line;
}

static void set_count(struct thr *t, long nr, unsigned long long k) {
    struct user_regs_struct r;
    if (ptrace(PTRACE_GETREGS, t->tid, 0, &r) < 0) die("GETREGS");
    if (nr == SYS_copy_file_range)
        r.r8 = k;
    else if (nr == SYS_sendfile)
        r.r10 = k;
    else
        r.rdx = k;
    if (ptrace(PTRACE_SETREGS, t->tid, 0, &r) < 0) die("SETREGS");
}

static void skip_call(struct thr *t) {
    struct user_regs_struct r;
    if (ptrace(PTRACE_GETREGS, t->tid, 0, &r) < 0) die("GETREGS");
    r.orig_rax = (unsigned long long)-1;
    if (ptrace(PTRACE_SETREGS, t->tid, 0, &r) < 0) die("SETREGS");
}

static void set_ret(struct thr *t, long v) {
    struct user_regs_struct r;
    if (ptrace(PTRACE_GETREGS, t->tid, 0, &r) < 0) return;
    r.rax = (unsigned long long)v;
    ptrace(PTRACE_SETREGS, t->tid, 0, &r);
}

static void quiescent(void) {
    while (!live_running() && live_held()) {
        printf("Q\n");
        char *c = getcmd();
        if (c[0] == 'R') {
            pid_t tid = atoi(c + 1);
            struct thr *t = find(tid);
            if (t && t->state == ST_HELD) {
                cont(t, 0);
                return;
            }
        } else if (c[0] == 'K') {
            int cid = atoi(c + 1);
            kill_subject(cid);
            /* held threads of the killed subject will be reaped; mark them running so
               that the loop waits for their exit events */
            for (int i = 0; i < MAXT; i++)
                if (T[i].used && T[i].cid == cid) T[i].state = ST_RUN;
            return;
        } else if (c[0] == 'A') {
            for (int i = 0; i < ncid; i++) kill_subject(i);
            for (int i = 0; i < MAXT; i++)
                if (T[i].used) T[i].state = ST_RUN;
            return;
        }
    }
}

static void on_alarm(int s) {
    (void)s;
    const char m[] = "F timeout\n";
    if (write(1, m, sizeof m - 1) < 0) {}
    for (int i = 0; i < ncid; i++)
        if (C[i].alive) kill(C[i].pid, SIGKILL);
    _exit(3);
}

int main(int argc, char **argv) {
    int i = 1, timeout = 120;
    while (i < argc && strcmp(argv[i], "--")) {
        if (!strcmp(argv[i], "-g") && i + 1 < argc) {
            gate_fs = !strcmp(argv[i + 1], "fs");
            i += 2;
        } else if (!strcmp(argv[i], "-t") && i + 1 < argc) {
            timeout = atoi(argv[i + 1]);
            i += 2;
        } else {
            fprintf(stderr, "usage: ptsup [-g mut|fs] [-t sec] -- cmd... [--- cmd...]\n");
            return 2;
        }
    }
    if (i >= argc) return 2;
    i++;
    setvbuf(stdout, NULL, _IOLBF, 0);
    signal(SIGALRM, on_alarm);
    signal(SIGPIPE, SIG_IGN);
    alarm(timeout);
    /* split commands at "---" */
    while (i < argc && ncid < MAXC) {
        int j = i;
        while (j < argc && strcmp(argv[j], "---")) j++;
        char **cmd = calloc(j - i + 1, sizeof(char *));
        for (int k = i; k < j; k++) cmd[k - i] = argv[k];
        pid_t pid = fork();
        if (pid < 0) die("fork");
        if (pid == 0) {
            if (ptrace(PTRACE_TRACEME, 0, 0, 0) < 0) _exit(126);
            raise(SIGSTOP);
            execvp(cmd[0], cmd);
            _exit(127);
        }
        int st;
        if (waitpid(pid, &st, __WALL) < 0 || !WIFSTOPPED(st)) die("initial stop");
        if (ptrace(PTRACE_SETOPTIONS, pid, 0,
                   PTRACE_O_TRACESYSGOOD | PTRACE_O_TRACECLONE | PTRACE_O_TRACEFORK | PTRACE_O_TRACEVFORK |
                       PTRACE_O_TRACEEXEC | PTRACE_O_EXITKILL) < 0)
            die("SETOPTIONS");
        C[ncid].pid = pid;
        C[ncid].alive = 1;
        struct thr *t = add(pid, ncid);
        t->seen_first_stop = 1;
        ncid++;
        cont(t, 0);
        free(cmd);
        i = j + 1;
    }
    int alive = ncid;
    while (alive > 0) {
        int st;
        pid_t tid = waitpid(-1, &st, __WALL);
        if (tid < 0) {
            if (errno == EINTR) continue;
            if (errno == ECHILD) break;
            die("waitpid");
        }
        struct thr *t = find(tid);
        if (WIFEXITED(st) || WIFSIGNALED(st)) {
            int cid = t ? t->cid : cid_of_pid(tid);
            if (t) t->used = 0;
            if (cid >= 0 && C[cid].pid == tid && C[cid].alive) {
                C[cid].alive = 0;
                alive--;
                if (WIFEXITED(st))
                    printf("Z %d e%d\n", cid, WEXITSTATUS(st));
                else
                    printf("Z %d s%d\n", cid, WTERMSIG(st));
                for (int k = 0; k < MAXT; k++)
                    if (T[k].used && T[k].cid == cid) T[k].used = 0;
            }
            quiescent();
            continue;
        }
        if (!WIFSTOPPED(st)) continue;
        if (!t) {
            /* a new thread / child announced before its creation event */
            int tg = tgid_of(tid);
            int cid = cid_of_pid(tg);
            if (cid < 0) {
                /* a forked grandchild: attribute to the first live subject */
                cid = 0;
            }
            t = add(tid, cid);
        }
        int sig = WSTOPSIG(st);
        unsigned ev = (unsigned)st >> 16;
        if (ev) {
            /* clone/fork/vfork/exec event stops */
            cont(t, 0);
            continue;
        }
        if (sig == (SIGTRAP | 0x80)) {
            struct __ptrace_syscall_info si;
            memset(&si, 0, sizeof si);
            if (ptrace(PTRACE_GET_SYSCALL_INFO, tid, sizeof si, &si) < 0) {
                if (errno == ESRCH) continue;
                die("GET_SYSCALL_INFO");
            }
            struct subj *c = &C[t->cid];
            if (si.op == PTRACE_SYSCALL_INFO_ENTRY) {
                t->gated = 0;
                long nr = si.entry.nr;
                /* markers */
                if (nr == SYS_write && (long)si.entry.args[0] == 1023) {
                    char m[64];
                    read_str(tid, si.entry.args[1], m, sizeof m < si.entry.args[2] + 1 ? sizeof m : si.entry.args[2] + 1);
                    if (!strncmp(m, "CVH:BEGIN:", 10)) {
                        c->window = 1;
                        printf("M %d B %s\n", t->cid, m + 10);
                    } else if (!strncmp(m, "CVH:END:", 8)) {
                        c->window = 0;
                        printf("M %d E %s\n", t->cid, m + 8);
                    }
                    cont(t, 0);
                    continue;
                }
                if (!c->window || c->free_run) {
                    cont(t, 0);
                    continue;
                }
                static char desc[40000];
                int g = describe(t, &si, desc, sizeof desc);
                if (!g) {
                    cont(t, 0);
                    continue;
                }
                const struct sysdesc *d = lookup(nr);
                t->seq = ++seqno;
                t->gated = 1;
                printf("S %d %d %ld %ld %s class=%s %s\n", t->cid, tid, t->seq, nr, d->name, g == 2 ? "mut" : "read", desc);
                char *cmd = getcmd();
                switch (cmd[0]) {
                case 'C':
                    cont(t, 0);
                    break;
                case 'H':
                    t->state = ST_HELD;
                    t->gated = 1;
                    quiescent();
                    break;
                case 'K':
                    skip_call(t); /* the call must not execute */
                    kill_subject(t->cid);
                    cont(t, 0);
                    break;
                case 'T':
                    set_count(t, nr, strtoull(cmd + 1, NULL, 10));
                    t->kill_at_exit = 1;
                    cont(t, 0);
                    break;
                case 'W':
                    set_count(t, nr, strtoull(cmd + 1, NULL, 10));
                    cont(t, 0);
                    break;
                case 'E':
                    t->fake_errno = atoi(cmd + 1);
                    skip_call(t);
                    cont(t, 0);
                    break;
                case 'D':
                    c->free_run = 1;
                    cont(t, 0);
                    break;
                default:
                    cont(t, 0);
                }
                continue;
            } else if (si.op == PTRACE_SYSCALL_INFO_EXIT) {
                if (t->fake_errno) {
                    set_ret(t, -(long)t->fake_errno);
                    printf("X %d %d %ld %d\n", t->cid, tid, t->seq, -t->fake_errno);
                    t->fake_errno = 0;
                    t->gated = 0;
                } else if (t->gated) {
                    printf("X %d %d %ld %lld\n", t->cid, tid, t->seq, (long long)si.exit.rval);
                    t->gated = 0;
                }
                if (t->kill_at_exit) {
                    t->kill_at_exit = 0;
                    kill_subject(t->cid);
                }
                cont(t, 0);
                continue;
            }
            cont(t, 0);
            continue;
        }
        if (sig == SIGSTOP && !t->seen_first_stop) {
            /* initial stop of an auto-attached thread */
            t->seen_first_stop = 1;
            cont(t, 0);
            continue;
        }
        if (sig == SIGTRAP) {
            cont(t, 0);
            continue;
        }
        /* genuine signal: deliver it */
        cont(t, sig);
    }
    printf("Z -1 done\n");
    fflush(stdout);
    return 0;
}
