#!/usr/bin/env python3
"""Independent Python implementation of the cacache on-disk format (reader + writer),
written from the statement of property C17 — not from the Rust sources:

  index records:  <cache>/index-v5/<hex SHA-1 of key split 2/2/rest>
                  each record = "\\n" + hex SHA-256 of the JSON text + "\\t" + one-line JSON
                  object {key, integrity, time, size, metadata, raw_metadata}; integrity null = removal
  content:        <cache>/content-v2/<algo>/<hex digest split 2/2/rest>

Runs as a JSON-lines server on stdin/stdout (one request, one answer)."""
import base64
import hashlib
import json
import os
import sys

ALGOS = {"sha1": hashlib.sha1, "sha256": hashlib.sha256, "sha384": hashlib.sha384, "sha512": hashlib.sha512}
RANK = {"sha512": 4, "sha384": 3, "sha256": 2, "sha1": 1, "xxh3": 0}
FIELDS = ["key", "integrity", "time", "size", "metadata", "raw_metadata"]


def bucket_path(cache, key):
    h = hashlib.sha1(key.encode("utf-8")).hexdigest()
    return os.path.join(cache, "index-v5", h[0:2], h[2:4], h[4:])


def content_path(cache, algo, hexd):
    return os.path.join(cache, "content-v2", algo, hexd[0:2], hexd[2:4], hexd[4:])


def sri_address(sri):
    """(algo, hex) of the strongest hash (first one of that algorithm)."""
    best = None
    for part in sri.split():
        algo, _, b64 = part.partition("-")
        if algo not in RANK:
            return None
        try:
            raw = base64.b64decode(b64, validate=True)
        except Exception:
            return None
        if best is None or RANK[algo] > RANK[best[0]]:
            best = (algo, raw.hex())
    return best


def no_dup_pairs(pairs):
    d = {}
    for k, v in pairs:
        if k in d:
            raise ValueError("duplicate field " + k)
        d[k] = v
    return d


def parse_line(line):
    """bytes (without terminator) -> record dict or None"""
    try:
        text = line.decode("utf-8")
    except UnicodeDecodeError:
        return None
    if text.count("\t") != 1:
        return None
    h, rest = text.split("\t")
    if len(h) != 64 or any(c not in "0123456789abcdef" for c in h):
        return None
    if hashlib.sha256(rest.encode("utf-8")).hexdigest() != h:
        return None
    try:
        obj = json.loads(rest, object_pairs_hook=no_dup_pairs, parse_constant=lambda c: (_ for _ in ()).throw(ValueError(c)))
    except Exception:
        return None
    if not isinstance(obj, dict):
        return None
    for f in ("key", "integrity", "time", "size", "metadata"):
        if f not in obj:
            return None
    if not isinstance(obj["key"], str):
        return None
    if obj["integrity"] is not None and not isinstance(obj["integrity"], str):
        return None
    for f in ("time", "size"):
        if isinstance(obj[f], bool) or not isinstance(obj[f], int) or obj[f] < 0:
            return None
    if obj["time"] >= 2 ** 128 or obj["size"] >= 2 ** 64:
        return None
    raw = obj.get("raw_metadata")
    if raw is not None:
        if not isinstance(raw, list) or any(isinstance(x, bool) or not isinstance(x, int) or x < 0 or x > 255 for x in raw):
            return None
    return {"key": obj["key"], "integrity": obj["integrity"], "time": obj["time"], "size": obj["size"],
            "metadata": obj["metadata"], "raw_metadata": raw, "fields": sorted(obj.keys())}


def split_lines(data):
    out = []
    parts = data.split(b"\n")
    if parts and parts[-1] == b"":
        parts.pop()
    for p in parts:
        if p.endswith(b"\r"):
            p = p[:-1]
        out.append(p)
    return out


def parse_bucket(data):
    return [r for r in (parse_line(l) for l in split_lines(data)) if r is not None]


def lookup_bytes(data, key):
    cur = None
    for r in parse_bucket(data):
        if r["key"] == key:
            if r["integrity"] is None:
                cur = None
            elif sri_address(r["integrity"]) is not None:
                cur = r
    return cur


def public(r):
    if r is None:
        return None
    return {"key": r["key"], "integrity": r["integrity"], "time": str(r["time"]), "size": r["size"],
            "metadata": r["metadata"], "raw_metadata": r["raw_metadata"]}


def cmd_lookup(q):
    try:
        data = open(bucket_path(q["cache"], q["key"]), "rb").read()
    except FileNotFoundError:
        return {"entry": None}
    return {"entry": public(lookup_bytes(data, q["key"]))}


def walk(root):
    for d, dirs, files in os.walk(root):
        dirs.sort()
        for f in sorted(files):
            yield os.path.join(d, f)


def cmd_list(q):
    out = {}
    for p in walk(os.path.join(q["cache"], "index-v5")):
        last = {}
        for r in parse_bucket(open(p, "rb").read()):
            if r["integrity"] is None:
                last[r["key"]] = None
            elif sri_address(r["integrity"]) is not None:
                last[r["key"]] = r
        for k, r in last.items():
            if r is not None:
                out[k] = public(r)
    return {"entries": [out[k] for k in sorted(out)]}


def cmd_parse(q):
    """every bucket file decoded: relative path -> list of records (for the Rust/Python codec cross-check)"""
    res = {}
    root = os.path.join(q["cache"], "index-v5")
    for p in walk(root):
        res[os.path.relpath(p, root)] = [public(r) for r in parse_bucket(open(p, "rb").read())]
    return {"buckets": res}


def cmd_read(q):
    ent = cmd_lookup(q)["entry"]
    if ent is None:
        return {"found": False}
    algo, hexd = sri_address(ent["integrity"])
    p = content_path(q["cache"], algo, hexd)
    try:
        data = open(p, "rb").read()
    except OSError as e:
        return {"found": True, "error": str(e)}
    verified = None
    if algo in ALGOS:
        verified = ALGOS[algo](data).hexdigest() == hexd
    return {"found": True, "len": len(data), "sha256": hashlib.sha256(data).hexdigest(), "verified": verified}


def cmd_layout(q):
    """structural validation of a cache directory written by somebody else"""
    cache = q["cache"]
    problems = []
    top = sorted(os.listdir(cache)) if os.path.isdir(cache) else []
    for t in top:
        if t not in ("index-v5", "content-v2", "tmp"):
            problems.append("unexpected top-level entry " + t)
    iroot = os.path.join(cache, "index-v5")
    nrec = 0
    for p in walk(iroot):
        rel = os.path.relpath(p, iroot)
        data = open(p, "rb").read()
        if data and not data.startswith(b"\n"):
            problems.append("bucket %s does not start with a newline" % rel)
        for line in split_lines(data):
            if line == b"":
                continue
            r = parse_line(line)
            if r is None:
                problems.append("bucket %s holds a line that is not a valid record: %r" % (rel, line[:80]))
                continue
            nrec += 1
            if r["fields"] != sorted(FIELDS):
                problems.append("record in %s has fields %s" % (rel, r["fields"]))
            want = os.path.relpath(bucket_path(cache, r["key"]), iroot)
            if want != rel:
                problems.append("record for key %r sits in %s, its SHA-1 path is %s" % (r["key"], rel, want))
    croot = os.path.join(cache, "content-v2")
    nfiles = 0
    for p in walk(croot):
        rel = os.path.relpath(p, croot).split(os.sep)
        nfiles += 1
        if len(rel) != 4 or rel[0] not in RANK or len(rel[1]) != 2 or len(rel[2]) != 2:
            problems.append("misplaced content file " + "/".join(rel))
            continue
        hexd = rel[1] + rel[2] + rel[3]
        if hexd != hexd.lower() or any(c not in "0123456789abcdef" for c in hexd):
            problems.append("content file name is not lowercase hex: " + "/".join(rel))
        if rel[0] in ALGOS:
            try:
                data = open(p, "rb").read()
            except OSError:
                continue
            if ALGOS[rel[0]](data).hexdigest() != hexd:
                problems.append("content file %s does not hash to its name" % "/".join(rel))
    return {"problems": problems, "records": nrec, "content_files": nfiles}


def encode_record(rec, style):
    obj = {"key": rec["key"], "integrity": rec["integrity"], "time": int(rec["time"]), "size": rec["size"],
           "metadata": rec["metadata"], "raw_metadata": rec["raw_metadata"]}
    order = FIELDS[::-1] if style.get("reversed") else FIELDS
    obj = {k: obj[k] for k in order}
    text = json.dumps(obj, ensure_ascii=bool(style.get("ascii")), separators=(",", ":"), allow_nan=False)
    return ("\n" + hashlib.sha256(text.encode("utf-8")).hexdigest() + "\t" + text).encode("utf-8")


def append_record(cache, rec, style):
    p = bucket_path(cache, rec["key"])
    os.makedirs(os.path.dirname(p), exist_ok=True)
    with open(p, "ab") as f:
        f.write(encode_record(rec, style))


def cmd_write_entry(q):
    cache = q["cache"]
    data = open(q["data_path"], "rb").read()
    algo = q["algo"]
    if algo in ALGOS:
        raw = ALGOS[algo](data).digest()
    else:
        raw = bytes.fromhex(q["digest_hex"])  # no XXH3 in the Python standard library
    hexd = raw.hex()
    integrity = algo + "-" + base64.b64encode(raw).decode("ascii")
    cp = content_path(cache, algo, hexd)
    os.makedirs(os.path.dirname(cp), exist_ok=True)
    tmp = cp + ".ref-tmp"
    with open(tmp, "wb") as f:
        f.write(data)
    os.replace(tmp, cp)
    if q.get("key") is not None:
        rec = {"key": q["key"], "integrity": integrity, "time": q["time"], "size": q.get("size", len(data)),
               "metadata": q.get("metadata"), "raw_metadata": q.get("raw_metadata")}
        append_record(cache, rec, q.get("style", {}))
    return {"integrity": integrity}


def cmd_remove(q):
    rec = {"key": q["key"], "integrity": None, "time": q.get("time", "0"), "size": 0, "metadata": None, "raw_metadata": None}
    append_record(q["cache"], rec, q.get("style", {}))
    return {}


def cmd_digest(q):
    data = open(q["path"], "rb").read()
    return {"hex": ALGOS[q["algo"]](data).hexdigest()}


CMDS = {"lookup": cmd_lookup, "list": cmd_list, "read": cmd_read, "layout": cmd_layout, "parse": cmd_parse,
        "write_entry": cmd_write_entry, "remove": cmd_remove, "digest": cmd_digest}


def main():
    for line in sys.stdin:
        line = line.strip()
        if not line:
            continue
        try:
            q = json.loads(line)
            res = CMDS[q["cmd"]](q)
            res["ok"] = True
        except Exception as e:  # report, never die
            res = {"ok": False, "error": "%s: %s" % (type(e).__name__, e)}
        sys.stdout.write(json.dumps(res, ensure_ascii=True, allow_nan=False) + "\n")
        sys.stdout.flush()


if __name__ == "__main__":
    main()
